"""
x86-64 / IA32 subset:  push pop pushf popf lea mov(abs) and sub add call nop(marker),
                       lahf sahf setcc-al add/sub/cmp-al-imm8 (status flags through AH/AL, bit-exact)

Only pointer-size operands (plus `mov r32, imm32` in 64-bit mode, which
zero-extends).  Memory operands: [base + index*scale + disp] without a
symbolic expression, or [rip + sym] / [sym] with one (the effective address is
the symbol's address; the *contents* come from Machine.ext).  Immediates and
call targets may carry a symbolic expression (value = symbol address).
"""
import capstone
from capstone import x86_const as X

from .base import Insn, Machine, MachineError, Op

R64 = ["rax", "rbx", "rcx", "rdx", "rsi", "rdi", "rbp", "rsp"] + ["r%d" % i for i in range(8, 16)]
R32 = ["eax", "ebx", "ecx", "edx", "esi", "edi", "ebp", "esp"]
R32_IN_64 = dict(zip(R32, R64[:8]))
R32_IN_64.update({"r%dd" % i: "r%d" % i for i in range(8, 16)})


SETCC = {
    "seto": lambda f: f >> 11 & 1,
    "setno": lambda f: not (f >> 11 & 1),
    "setb": lambda f: f & 1,
    "setae": lambda f: not (f & 1),
    "sete": lambda f: f >> 6 & 1,
    "setne": lambda f: not (f >> 6 & 1),
    "sets": lambda f: f >> 7 & 1,
    "setns": lambda f: not (f >> 7 & 1),
}


class X86Machine(Machine):
    ARCH = capstone.CS_ARCH_X86

    def __init__(self, bits, code, **kw):
        assert bits in (32, 64)
        self.bits = bits
        self.PTR = bits // 8
        self.MODE = capstone.CS_MODE_64 if bits == 64 else capstone.CS_MODE_32
        self.SP = "rsp" if bits == 64 else "esp"
        self.IP = "rip" if bits == 64 else "eip"
        self.REGS = R64 if bits == 64 else R32
        super().__init__(code, **kw)

    # ---------------------------------------------------------------- decode
    def _lift(self, idx, ci, relocs):
        ops = []
        pending = dict(relocs)
        for o in ci.operands:
            if o.type == X.X86_OP_REG:
                ops.append(Op("reg", reg=ci.reg_name(o.reg), size=o.size))
            elif o.type == X.X86_OP_IMM:
                rl = None
                if ci.imm_size:
                    rl = pending.pop(ci.address + ci.imm_offset, None)
                ops.append(Op("imm", imm=o.imm, size=o.size, reloc=rl))
            elif o.type == X.X86_OP_MEM:
                if o.mem.segment:
                    raise MachineError("segment override in %s %s" % (ci.mnemonic, ci.op_str))
                rl = None
                if ci.disp_size:
                    rl = pending.pop(ci.address + ci.disp_offset, None)
                ops.append(
                    Op(
                        "mem",
                        base=ci.reg_name(o.mem.base) if o.mem.base else None,
                        index=ci.reg_name(o.mem.index) if o.mem.index else None,
                        scale=o.mem.scale,
                        disp=o.mem.disp,
                        size=o.size,
                        reloc=rl,
                    )
                )
            else:
                raise MachineError("operand type %d in %s %s" % (o.type, ci.mnemonic, ci.op_str))
        if pending:
            raise MachineError(
                "symbolic expression at %r does not sit on an operand field of %s %s" % (sorted(pending), ci.mnemonic, ci.op_str)
            )
        return Insn(idx, ci.address, ci.size, ci.mnemonic, ops, ("%s %s" % (ci.mnemonic, ci.op_str)).strip())

    # ---------------------------------------------------------------- helpers
    def ea(self, op):
        if op.reloc is not None:
            if op.index is not None or op.base not in (None, self.IP):
                raise MachineError("symbolic displacement with a base/index register: %s" % self.cur.text)
            return self.sym(op.reloc)
        if op.base == self.IP:
            raise MachineError("pc-relative operand without a symbolic expression: %s" % self.cur.text)
        a = op.disp
        if op.base is not None:
            a += self.getreg(op.base)
        if op.index is not None:
            a += self.getreg(op.index) * op.scale
        return a & self.mask

    def full(self, op):
        """The operand must be a pointer-size register."""
        if op.kind != "reg" or op.size != self.PTR or op.reg not in self.regs:
            self.unsupported(self.cur, "(pointer-size register expected)")
        return op.reg

    def value(self, op):
        if op.size != self.PTR:
            self.unsupported(self.cur, "(operand size %d)" % op.size)
        if op.kind == "reg":
            return self.getreg(self.full(op))
        if op.kind == "imm":
            if op.reloc is not None:
                return self.sym(op.reloc)
            return op.imm & self.mask
        if op.kind == "mem":
            return self.load(self.ea(op), self.PTR)
        self.unsupported(self.cur)

    def push(self, v):
        sp = (self.getreg(self.SP) - self.PTR) & self.mask
        self.setreg(self.SP, sp)
        self.store(sp, v, self.PTR)

    def pop(self):
        sp = self.getreg(self.SP)
        v = self.load(sp, self.PTR)
        self.setreg(self.SP, sp + self.PTR)
        return v

    # ---------------------------------------------------------------- execute
    def step(self, insn):
        mn, ops = insn.mn, insn.ops
        if mn == "nop" and not ops:
            return self.marker()
        if mn == "push" and len(ops) == 1:
            return self.push(self.value(ops[0]))
        if mn == "pop" and len(ops) == 1:
            r = self.full(ops[0])
            if r == self.SP:
                self.unsupported(insn)
            return self.setreg(r, self.pop())
        if mn == ("pushfq" if self.bits == 64 else "pushfd") and not ops:
            return self.push(self.flags)
        if mn == ("popfq" if self.bits == 64 else "popfd") and not ops:
            self.flags = self.pop()
            return
        if mn == "lea" and len(ops) == 2 and ops[1].kind == "mem":
            return self.setreg(self.full(ops[0]), self.ea(ops[1]))
        if mn in ("mov", "movabs") and len(ops) == 2 and ops[0].kind == "reg":
            d = ops[0]
            if self.bits == 64 and d.size == 4 and d.reg in R32_IN_64 and ops[1].kind == "imm" and ops[1].reloc is None:
                # mov r32, imm32 zero-extends into the 64-bit register
                return self.setreg(R32_IN_64[d.reg], ops[1].imm & 0xFFFFFFFF)
            return self.setreg(self.full(d), self.value(ops[1]))
        # ---- the status flags through AH/AL (lahf / seto al ... add al, 0x7f / sahf): concrete bit semantics
        acc = "rax" if self.bits == 64 else "eax"
        if mn == "lahf" and not ops:
            ah = (self.flags & 0xD5) | 0x02
            return self.setreg(acc, (self.getreg(acc) & ~0xFF00) | (ah << 8))
        if mn == "sahf" and not ops:
            self.flags = (self.flags & ~0xD5) | ((self.getreg(acc) >> 8) & 0xD5)
            return
        if mn.startswith("set") and len(ops) == 1 and ops[0].kind == "reg" and ops[0].reg == "al" and mn in SETCC:
            return self.setreg(acc, (self.getreg(acc) & ~0xFF) | (1 if SETCC[mn](self.flags) else 0))
        if mn in ("add", "sub", "cmp") and len(ops) == 2 and ops[0].kind == "reg" and ops[0].reg == "al" and ops[1].kind == "imm" and ops[1].reloc is None:
            a, b = self.getreg(acc) & 0xFF, ops[1].imm & 0xFF
            r = (a + b) if mn == "add" else (a - b)
            r8 = r & 0xFF
            cf = 1 if (r > 0xFF or r < 0) else 0
            if mn == "add":
                of = 1 if (~(a ^ b) & (a ^ r8) & 0x80) else 0
                af = 1 if ((a & 0xF) + (b & 0xF)) > 0xF else 0
            else:
                of = 1 if ((a ^ b) & (a ^ r8) & 0x80) else 0
                af = 1 if (a & 0xF) < (b & 0xF) else 0
            pf = 1 if bin(r8).count("1") % 2 == 0 else 0
            st = cf | (pf << 2) | (af << 4) | ((1 if r8 == 0 else 0) << 6) | ((r8 >> 7) << 7) | (of << 11)
            self.flags = (self.flags & ~0x8D5) | st
            if mn != "cmp":
                self.setreg(acc, (self.getreg(acc) & ~0xFF) | r8)
            return
        if mn in ("and", "sub", "add") and len(ops) == 2 and ops[1].kind == "imm" and ops[1].reloc is None:
            r = self.full(ops[0])
            if ops[1].size != self.PTR:
                self.unsupported(insn)
            a, b = self.getreg(r), ops[1].imm & self.mask
            v = a & b if mn == "and" else (a - b if mn == "sub" else a + b)
            self.setreg(r, v)
            self.dirty_flags()
            return
        if mn == "call" and len(ops) == 1 and ops[0].kind == "imm":
            if ops[0].reloc is None:
                raise MachineError("call without a symbolic target: %s" % insn.text)
            return self.call(self.sym(ops[0].reloc))
        self.unsupported(insn)
