"""
ARM64 subset:  str ldr stp ldp (offset / pre-index / post-index, 64-bit registers)
               mrs/msr nzcv, sub add (immediate), mov movz movk adrp bl nop(marker)

adrp needs a symbolic expression (page of the symbol); `add xd, xn, #:lo12:sym`
takes the low 12 bits of the symbol.  A load/store through sp while sp is not
16-byte aligned is recorded in Machine.events ("sp-misaligned").
"""
import capstone
from capstone import arm64_const as A

from .base import Insn, Machine, MachineError, Op

NZCV = 0xDA10
XREGS = ["x%d" % i for i in range(31)]
ALIASES = {"fp": "x29", "lr": "x30"}  # capstone's reg_name() for x29 / x30


class ARM64Machine(Machine):
    ARCH = capstone.CS_ARCH_ARM64
    MODE = capstone.CS_MODE_ARM
    PTR = 8
    SP = "sp"
    REGS = XREGS + ["sp"]

    def _lift(self, idx, ci, relocs):
        ops = []
        for o in ci.operands:
            if o.type == A.ARM64_OP_REG:
                if o.shift.type or o.ext:
                    raise MachineError("shifted/extended register operand in %s %s" % (ci.mnemonic, ci.op_str))
                name = ci.reg_name(o.reg)
                ops.append(Op("reg", reg=ALIASES.get(name, name)))
            elif o.type == A.ARM64_OP_IMM:
                sh = 0
                if o.shift.type:
                    if o.shift.type != A.ARM64_SFT_LSL:
                        raise MachineError("shift type %d in %s %s" % (o.shift.type, ci.mnemonic, ci.op_str))
                    sh = o.shift.value
                ops.append(Op("imm", imm=o.imm, shift=sh))
            elif o.type == A.ARM64_OP_MEM:
                if o.mem.index:
                    raise MachineError("register-offset addressing in %s %s" % (ci.mnemonic, ci.op_str))
                name = ci.reg_name(o.mem.base)
                ops.append(Op("mem", base=ALIASES.get(name, name), disp=o.mem.disp))
            elif o.type in (A.ARM64_OP_REG_MRS, A.ARM64_OP_REG_MSR, A.ARM64_OP_SYS):
                ops.append(Op("sys", sys=o.reg))
            else:
                raise MachineError("operand type %d in %s %s" % (o.type, ci.mnemonic, ci.op_str))
        rl = None
        if relocs:
            if list(relocs) != [ci.address]:
                raise MachineError("symbolic expression inside an instruction word: %r" % sorted(relocs))
            rl = relocs[ci.address]
        post = False
        if ci.writeback:
            kinds = [o.kind for o in ops]
            if kinds and kinds[-1] == "imm" and "mem" in kinds:
                post = True
            if post == ci.op_str.rstrip().endswith("]!"):
                raise MachineError("cannot tell pre- from post-index: %s %s" % (ci.mnemonic, ci.op_str))
        insn = Insn(idx, ci.address, ci.size, ci.mnemonic, ops, ("%s %s" % (ci.mnemonic, ci.op_str)).strip(), ci.writeback, post)
        if rl is not None:
            # keep it on the instruction: which operand it feeds depends on the mnemonic
            insn.ops.append(Op("reloc", reloc=rl))
        return insn

    # ---------------------------------------------------------------- helpers
    def x(self, op):
        if op.kind != "reg" or (op.reg not in self.regs and op.reg != "xzr"):
            self.unsupported(self.cur, "(64-bit register expected)")
        return op.reg

    def rd(self, name):
        return 0 if name == "xzr" else self.getreg(name)

    def wr(self, name, v):
        if name != "xzr":
            self.setreg(name, v)

    def _access(self, insn, ops, nregs, load):
        regs = [self.x(o) for o in ops[:nregs]]
        if any(r == "sp" for r in regs):
            self.unsupported(insn)
        m = ops[nregs]
        if m.kind != "mem" or m.base not in self.regs:
            self.unsupported(insn)
        rest = ops[nregs + 1 :]
        base = self.getreg(m.base)
        if m.base == "sp" and base % 16:
            self.events.append(("sp-misaligned", insn.idx))
        if insn.writeback and insn.post:
            if len(rest) != 1 or rest[0].kind != "imm" or m.disp:
                self.unsupported(insn)
            addr, newbase = base, base + rest[0].imm
        elif insn.writeback:
            if rest:
                self.unsupported(insn)
            addr = newbase = base + m.disp
        else:
            if rest:
                self.unsupported(insn)
            addr, newbase = base + m.disp, None
        for k, r in enumerate(regs):
            if load:
                self.wr(r, self.load(addr + 8 * k, 8))
            else:
                self.store(addr + 8 * k, self.rd(r), 8)
        if newbase is not None:
            if m.base in regs and load:
                self.unsupported(insn, "(writeback base is also loaded)")
            self.setreg(m.base, newbase)

    # ---------------------------------------------------------------- execute
    def step(self, insn):
        mn = insn.mn
        ops = list(insn.ops)
        rl = None
        if ops and ops[-1].kind == "reloc":
            rl = ops.pop().reloc
        if rl is not None and mn not in ("adrp", "add", "bl"):
            raise MachineError("symbolic expression on %s" % insn.text)
        if mn == "nop" and not ops:
            return self.marker()
        if mn in ("str", "ldr"):
            return self._access(insn, ops, 1, mn == "ldr")
        if mn in ("stp", "ldp"):
            return self._access(insn, ops, 2, mn == "ldp")
        if mn == "mrs" and len(ops) == 2 and ops[1].kind == "sys" and ops[1].sys == NZCV:
            return self.wr(self.x(ops[0]), self.flags)
        if mn == "msr" and len(ops) == 2 and ops[0].kind == "sys" and ops[0].sys == NZCV:
            self.flags = self.rd(self.x(ops[1]))
            return
        if mn in ("add", "sub") and len(ops) == 3 and ops[2].kind == "imm":
            d, n = self.x(ops[0]), self.x(ops[1])
            if "xzr" in (d, n):
                self.unsupported(insn)
            if rl is not None:
                if mn != "add" or tuple(rl[2]) != ("LO12",):
                    raise MachineError("unsupported relocation %r on %s" % (rl, insn.text))
                imm = self.sym(rl) & 0xFFF
            else:
                imm = ops[2].imm << ops[2].shift
            a = self.getreg(n)
            return self.setreg(d, a + imm if mn == "add" else a - imm)
        if mn == "mov" and len(ops) == 2:
            d = self.x(ops[0])
            if ops[1].kind == "imm":
                return self.wr(d, (ops[1].imm << ops[1].shift) & self.mask)
            if ops[1].kind == "reg":
                s = self.x(ops[1])
                return self.wr(d, self.rd(s))
        if mn == "movz" and len(ops) == 2 and ops[1].kind == "imm":
            return self.wr(self.x(ops[0]), (ops[1].imm << ops[1].shift) & self.mask)
        if mn == "movk" and len(ops) == 2 and ops[1].kind == "imm":
            d = self.x(ops[0])
            sh = ops[1].shift
            if d == "xzr" or not 0 <= ops[1].imm <= 0xFFFF or sh not in (0, 16, 32, 48):
                self.unsupported(insn)
            old = self.getreg(d)
            return self.setreg(d, (old & ~(0xFFFF << sh)) | (ops[1].imm << sh))
        if mn == "adrp" and len(ops) == 2:
            if rl is None:
                raise MachineError("adrp without a symbolic expression: %s" % insn.text)
            if tuple(rl[2]) != ():
                raise MachineError("unsupported relocation %r on %s" % (rl, insn.text))
            return self.wr(self.x(ops[0]), self.sym(rl) & ~0xFFF)
        if mn == "bl" and len(ops) == 1:
            if rl is None:
                raise MachineError("bl without a symbolic target: %s" % insn.text)
            self.setreg("x30", self.code_base + insn.addr + 4)
            return self.call(self.sym(rl))
        self.unsupported(insn)
