"""
Tiny concrete CPUs used by C16 / C17.

The machines execute *straight-line* code that was produced by the library
(prologue + patch body + epilogue), decoded with capstone.  They are not
emulators: every machine implements a small, explicitly listed instruction
subset and raises MachineError for everything else.  A MachineError is a
harness error (the check exits with status 2), never a pass.

State
  regs    dict name -> int (full-width registers only, pointer-size wide)
  flags   int sentinel; instructions that architecturally modify the flags
          replace it with a fresh "dirty" value, pushf/popf (mrs/msr) move it
  mem     dict byte address -> (byte value, origin); origin is "code" for
          bytes stored by an executed instruction and "body" for poison
          written by the harness on behalf of the patch body / a callee
  writes  [(insn index, address, size)]   write log of the executed code
  reads   [(insn index, address, size, origin)]  origin = "code" when every byte was
          stored by the executed code, else "unwritten" / "body"
  ext     dict address -> (value, size)  read-only memory that exists before the
          code runs (contents of symbols); reads from it are logged in
          ext_reads and are not stack reads
"""
import capstone


class MachineError(Exception):
    """The code stream is outside what the machine models (harness error)."""


POISON_BYTE = 0xA5
_DECODERS = {}
_PROGRAMS = {}


class Op:
    __slots__ = ("kind", "reg", "size", "imm", "base", "index", "scale", "disp", "reloc", "shift", "sys")

    def __init__(self, kind, **kw):
        self.kind = kind
        self.reg = None
        self.size = 0
        self.imm = None
        self.base = None
        self.index = None
        self.scale = 1
        self.disp = 0
        self.reloc = None
        self.shift = 0
        self.sys = None
        for k, v in kw.items():
            setattr(self, k, v)

    def __repr__(self):
        if self.kind == "reg":
            return "reg:%s" % self.reg
        if self.kind == "imm":
            return "imm:%#x%s" % (self.imm, "@%s" % (self.reloc,) if self.reloc else "")
        if self.kind == "mem":
            return "mem[%s+%s*%d%+d]%s" % (self.base, self.index, self.scale, self.disp, "@%s" % (self.reloc,) if self.reloc else "")
        return "%s:%s" % (self.kind, self.sys)


class Insn:
    __slots__ = ("idx", "addr", "size", "mn", "ops", "text", "writeback", "post")

    def __init__(self, idx, addr, size, mn, ops, text, writeback=False, post=False):
        self.idx = idx
        self.addr = addr
        self.size = size
        self.mn = mn
        self.ops = ops
        self.text = text
        self.writeback = writeback
        self.post = post


class Machine:
    PTR = 8
    SP = "sp"
    ARCH = None
    MODE = None
    MARKER = "nop"

    def __init__(self, code, relocs=None, symaddr=None, ext=None, code_base=0x400000):
        """
        code     bytes of the straight-line code
        relocs   {offset in code: (symbol name, addend, (attribute names...))}
        symaddr  {symbol name: address}
        ext      {address: (value, size)} pre-existing readable memory
        """
        self.code = bytes(code)
        self.relocs = dict(relocs or {})
        self.symaddr = dict(symaddr or {})
        self.ext = dict(ext or {})
        self.code_base = code_base
        self.mask = (1 << (8 * self.PTR)) - 1
        key = (type(self).__name__, self.PTR, self.code, tuple(sorted(self.relocs.items())))
        prog = _PROGRAMS.get(key)
        if prog is None:
            prog = self._decode()
            if len(_PROGRAMS) > 4096:
                _PROGRAMS.clear()
            _PROGRAMS[key] = prog
        self.prog = prog  # decoded instructions are never mutated
        self.reset({}, 0)

    # ------------------------------------------------------------ decoding
    def _decode(self):
        cs = _DECODERS.get((self.ARCH, self.MODE))
        if cs is None:
            cs = capstone.Cs(self.ARCH, self.MODE)
            cs.detail = True
            _DECODERS[(self.ARCH, self.MODE)] = cs
        prog = []
        used = set()
        total = 0
        for i, ci in enumerate(cs.disasm(self.code, 0)):
            rl = {o: r for o, r in self.relocs.items() if ci.address <= o < ci.address + ci.size}
            used.update(rl)
            prog.append(self._lift(i, ci, rl))
            total += ci.size
        if total != len(self.code):
            raise MachineError("undecodable bytes at offset %d: %s" % (total, self.code[total : total + 8].hex()))
        if used != set(self.relocs):
            raise MachineError("symbolic expressions outside the code: %r" % sorted(set(self.relocs) - used))
        return prog

    def _lift(self, idx, ci, relocs):
        raise NotImplementedError

    def listing(self):
        return ["%3d %s" % (i.addr, i.text) for i in self.prog]

    # ------------------------------------------------------------ state
    def reset(self, regs, flags):
        self.regs = dict(regs)
        self.flags = flags
        self.mem = {}
        self.writes = []
        self.reads = []
        self.ext_reads = []
        self.events = []
        self._dirty = 0
        self.cur = None
        self.markers = 0
        self.calls = 0

    def sym(self, reloc):
        name, addend, _attrs = reloc
        if name not in self.symaddr:
            raise MachineError("no address for symbol %r" % name)
        return (self.symaddr[name] + addend) & self.mask

    def getreg(self, name):
        try:
            return self.regs[name]
        except KeyError:
            raise MachineError("register %r is not modelled (%s)" % (name, self.cur.text if self.cur else "?"))

    def setreg(self, name, value):
        if name not in self.regs:
            raise MachineError("register %r is not modelled (%s)" % (name, self.cur.text if self.cur else "?"))
        self.regs[name] = value & self.mask

    def dirty_flags(self):
        self._dirty += 1
        self.flags = (0xD1F7 << 16) | self._dirty

    def store(self, addr, value, size):
        addr &= self.mask
        idx = self.cur.idx if self.cur else -1
        self.writes.append((idx, addr, size))
        for k, b in enumerate(self._bytes(value, size)):
            self.mem[(addr + k) & self.mask] = (b, "code")

    def load(self, addr, size):
        addr &= self.mask
        idx = self.cur.idx if self.cur else -1
        if addr in self.ext:
            val, esz = self.ext[addr]
            if esz != size:
                raise MachineError("external memory read of size %d at %#x (object has %d)" % (size, addr, esz))
            self.ext_reads.append((idx, addr, size))
            return val
        ok = "code"
        bs = []
        for k in range(size):
            cell = self.mem.get((addr + k) & self.mask)
            if cell is None:
                ok = "unwritten"
                bs.append(POISON_BYTE)
            else:
                if cell[1] != "code" and ok == "code":
                    ok = cell[1]
                bs.append(cell[0])
        self.reads.append((idx, addr, size, ok))
        return self._value(bs)

    def body_write(self, addr, size, byte=POISON_BYTE):
        """Poison [addr, addr+size) on behalf of the patch body / a callee."""
        addr &= self.mask
        if addr + size > self.mask:
            raise MachineError("poison range wraps around the address space")
        self.mem.update(dict.fromkeys(range(addr, addr + size), (byte, "body")))

    def _bytes(self, value, size):
        return list((value & ((1 << (8 * size)) - 1)).to_bytes(size, "little"))

    def _value(self, bs):
        return int.from_bytes(bytes(bs), "little")

    def peek(self, addr, size):
        """Read without logging; returns (value, all bytes written by the code)."""
        ok = True
        bs = []
        for k in range(size):
            cell = self.mem.get((addr + k) & self.mask)
            if cell is None or cell[1] != "code":
                ok = False
            bs.append(POISON_BYTE if cell is None else cell[0])
        return self._value(bs), ok

    # ------------------------------------------------------------ running
    def run(self, on_marker=None, on_call=None):
        self.on_marker = on_marker
        self.on_call = on_call
        for insn in self.prog:
            self.cur = insn
            self.step(insn)
        self.cur = None

    def step(self, insn):
        raise NotImplementedError

    def marker(self):
        self.markers += 1
        if self.on_marker is None:
            raise MachineError("marker instruction without a handler")
        self.on_marker(self)

    def call(self, target):
        self.calls += 1
        if self.on_call is None:
            raise MachineError("call instruction without a handler")
        self.on_call(self, target)

    def unsupported(self, insn, why=""):
        raise MachineError("instruction outside the modelled subset: %r %s" % (insn.text, why))
