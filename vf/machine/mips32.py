"""
MIPS32 (big endian) subset:  addiu sw lw nop(marker)
"""
import capstone
from capstone import mips_const as M

from .base import Insn, Machine, MachineError, Op

NAMES = (
    ["zero", "at", "v0", "v1", "a0", "a1", "a2", "a3"]
    + ["t%d" % i for i in range(8)]
    + ["s%d" % i for i in range(8)]
    + ["t8", "t9", "k0", "k1", "gp", "sp", "fp", "ra"]
)


class MIPS32Machine(Machine):
    ARCH = capstone.CS_ARCH_MIPS
    MODE = capstone.CS_MODE_MIPS32 + capstone.CS_MODE_BIG_ENDIAN
    PTR = 4
    SP = "sp"
    REGS = [n for n in NAMES if n != "zero"]

    def _lift(self, idx, ci, relocs):
        if relocs:
            raise MachineError("symbolic expressions are not modelled on MIPS: %r" % sorted(relocs))
        ops = []
        for o in ci.operands:
            if o.type == M.MIPS_OP_REG:
                ops.append(Op("reg", reg=ci.reg_name(o.reg)))
            elif o.type == M.MIPS_OP_IMM:
                ops.append(Op("imm", imm=o.imm))
            elif o.type == M.MIPS_OP_MEM:
                ops.append(Op("mem", base=ci.reg_name(o.mem.base), disp=o.mem.disp))
            else:
                raise MachineError("operand type %d in %s %s" % (o.type, ci.mnemonic, ci.op_str))
        return Insn(idx, ci.address, ci.size, ci.mnemonic, ops, ("%s %s" % (ci.mnemonic, ci.op_str)).strip())

    def _bytes(self, value, size):
        return list((value & ((1 << (8 * size)) - 1)).to_bytes(size, "big"))

    def _value(self, bs):
        return int.from_bytes(bytes(bs), "big")

    def rd(self, name):
        return 0 if name == "zero" else self.getreg(name)

    def wr(self, name, v):
        if name != "zero":
            self.setreg(name, v)

    def step(self, insn):
        mn, ops = insn.mn, insn.ops
        if mn == "nop" and not ops:
            return self.marker()
        if mn == "addiu" and len(ops) == 3 and ops[0].kind == "reg" and ops[1].kind == "reg" and ops[2].kind == "imm":
            if not -0x8000 <= ops[2].imm <= 0x7FFF:
                self.unsupported(insn)
            return self.wr(ops[0].reg, self.rd(ops[1].reg) + ops[2].imm)
        if mn in ("sw", "lw") and len(ops) == 2 and ops[0].kind == "reg" and ops[1].kind == "mem":
            addr = (self.rd(ops[1].base) + ops[1].disp) & self.mask
            if addr % 4:
                self.events.append(("unaligned-access", insn.idx))
            if mn == "sw":
                return self.store(addr, self.rd(ops[0].reg), 4)
            return self.wr(ops[0].reg, self.load(addr, 4))
        self.unsupported(insn)
