"""Tiny concrete CPUs for C16 / C17 (see base.py)."""
from .arm64 import ARM64Machine
from .base import Machine, MachineError
from .mips32 import MIPS32Machine
from .x86 import X86Machine


def make(kind, code, **kw):
    """kind: 'x64' | 'ia32' | 'arm64' | 'mips32'"""
    if kind == "x64":
        return X86Machine(64, code, **kw)
    if kind == "ia32":
        return X86Machine(32, code, **kw)
    if kind == "arm64":
        return ARM64Machine(code, **kw)
    if kind == "mips32":
        return MIPS32Machine(code, **kw)
    raise ValueError(kind)


def sentinels(machine, tag=0x5E):
    """Distinct, recognisable initial values for every modelled register."""
    width = machine.PTR * 8
    out = {}
    for i, r in enumerate(machine.REGS):
        if width == 64:
            out[r] = (tag << 56) | (0x1D << 48) | ((i + 1) << 24) | 0x00C0DE
        else:
            out[r] = ((tag & 0x7F) << 24) | ((i + 1) << 16) | 0xC0DE
    return out


__all__ = ["Machine", "MachineError", "X86Machine", "ARM64Machine", "MIPS32Machine", "make", "sentinels"]
