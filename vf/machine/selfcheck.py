"""
Self-check of the tiny CPUs on hand-encoded snippets (run by C16/C17 before
enumerating, and by `python -m vf.machine.selfcheck`).  It pins the semantics
the oracles rely on and that instructions outside the subset are hard errors.
"""
from . import MachineError, make, sentinels

SYM = {"foo": 0x5A5A00100128}
EXT = {0x5A5A00100128: (0x00C0FFEE0E5E0E5E, 8)}


def _run(kind, hexcode, sp, relocs=None, marker=None, call=None, ext=None, symaddr=None):
    m = make(kind, bytes.fromhex(hexcode), relocs=relocs or {}, symaddr=symaddr or SYM, ext=EXT if ext is None else ext)
    init = sentinels(m)
    init[m.SP] = sp
    m.reset(init, 0xF1A6)
    m.run(on_marker=marker, on_call=call)
    return m, init


def _must_fail(kind, hexcode, **kw):
    try:
        _run(kind, hexcode, 0x7000, **kw)
    except MachineError:
        return
    raise AssertionError("machine %s accepted %s" % (kind, hexcode))


def run():
    # ---- x86-64
    m, i = _run("x64", "50 5b", 0x7FFD80000008)  # push rax; pop rbx
    assert m.regs["rbx"] == i["rax"] and m.regs["rsp"] == 0x7FFD80000008
    assert m.writes == [(0, 0x7FFD80000000, 8)] and m.reads == [(1, 0x7FFD80000000, 8, "code")]
    m, i = _run("x64", "9c 4883e4f0 9d", 0x7FFD80000018)  # pushfq; and rsp,-16; popfq
    assert m.regs["rsp"] == 0x7FFD80000018 and m.flags == 0xF1A6
    m, i = _run("x64", "4883e4f0", 0x7FFD80000018)
    assert m.regs["rsp"] == 0x7FFD80000010 and m.flags != 0xF1A6
    m, i = _run("x64", "488d642480 4889e0 4883ec08 4881c488000000", 0x7000)  # lea rsp,[rsp-0x80]; mov rax,rsp; sub 8; add 0x88
    assert m.regs["rax"] == 0x7000 - 0x80 and m.regs["rsp"] == 0x7000 and m.flags != 0xF1A6
    m, i = _run("x64", "5b", 0x7000)  # pop from a slot nobody wrote
    assert m.reads[0][3] == "unwritten"
    m, i = _run("x64", "50 90 5b", 0x7008, marker=lambda mm: mm.body_write(0x7000, 8))
    assert m.reads[0][3] == "body" and m.regs["rbx"] != i["rax"]
    m, i = _run("x64", "488b3d00000000 488d3500000000", 0x7000, relocs={3: ("foo", 0, ()), 10: ("foo", 0, ())})
    assert m.regs["rdi"] == 0x00C0FFEE0E5E0E5E and m.regs["rsi"] == 0x5A5A00100128  # mov loads, lea takes the address
    m, i = _run("x64", "ff342500000000 6aff 68ffffff7f 48bf0000008000000000 48c7c7ffffffff", 0x7100, relocs={3: ("foo", 0, ())})
    assert m.peek(0x70F8, 8) == (0x00C0FFEE0E5E0E5E, True) and m.peek(0x70F0, 8)[0] == 2 ** 64 - 1 and m.peek(0x70E8, 8)[0] == 0x7FFFFFFF
    assert m.regs["rdi"] == 2 ** 64 - 1
    seen = []
    m, i = _run("x64", "e800000000", 0x7000, relocs={1: ("foo", 0, ())}, call=lambda mm, t: seen.append(t))
    assert seen == [0x5A5A00100128]
    for bad in ("31c0", "c3", "48890424", "e800000000", "488b3d00000000", "6650", "0f1f00", "5c"):
        _must_fail("x64", bad)
    # ---- IA32
    m, i = _run("ia32", "9c 50 8d642480 83e4f0 58", 0x7FFD8014, symaddr={}, ext={})
    assert m.regs["esp"] == ((0x7FFD8014 - 8 - 0x80) & ~15) + 4 and m.regs["eax"] != i["eax"]
    m, i = _run("ia32", "6800000080 5b", 0x7000, symaddr={}, ext={})
    assert m.regs["ebx"] == 0x80000000
    for bad in ("31c0", "c3", "890424"):
        _must_fail("ia32", bad, symaddr={}, ext={})
    # status flags through AH/AL: lahf; seto al; push eax | (flags destroyed) | pop eax; add al,0x7f; sahf
    for fl in (0x0F1A6D41, 0x0F1A6500, 0x0F1A65D5, 0x0F1A6D00):
        m = make("ia32", bytes.fromhex("9f 0f90c0 50 83ec04 83c404 58 047f 9e"), relocs={}, symaddr={}, ext={})
        init = sentinels(m)
        init[m.SP] = 0x7FFD8010
        m.reset(init, fl)
        m.run()
        assert (m.flags ^ fl) & 0x8D5 == 0, hex(m.flags)  # OF SF ZF AF PF CF are back
        assert m.regs["eax"] != init["eax"]  # ...and eax paid for it
    m, i = _run("ia32", "9f", 0x7000, symaddr={}, ext={})
    assert m.regs["eax"] >> 8 & 0xFF == (0xF1A6 & 0xD5) | 2
    # ---- ARM64
    m, i = _run("arm64", "e007bfa9 e00f1ff8 1f2003d5 e00741f8 e007c1a8", 0x7FF0, marker=lambda mm: mm.regs.update(x0=1, x1=2))
    assert m.regs["x0"] == i["x0"] and m.regs["x1"] == i["x1"] and m.regs["sp"] == 0x7FF0
    assert [(a, s) for _, a, s in m.writes] == [(0x7FE0, 8), (0x7FE8, 8), (0x7FD0, 8)] and not m.events
    m, i = _run("arm64", "01423bd5 e10f1ff8 1f2003d5 e10741f8 01421bd5", 0x7FF8, marker=lambda mm: setattr(mm, "flags", 7))
    assert m.flags == 0xF1A6 and m.events and m.events[0][0] == "sp-misaligned"
    m, i = _run("arm64", "c059 9fd2 a0ddbff2 e0ddd7f2 a0d5fbf2".replace(" ", ""), 0x7FF0)  # movz/movk 0xdeadbeeffeedface
    assert m.regs["x0"] == 0xDEADBEEFFEEDFACE, hex(m.regs["x0"])
    m, i = _run("arm64", "80008092 ff8300d1 e00f00f9 ff830091", 0x7FF0)  # mov x0,#-5; sub sp,#32; str x0,[sp,#24]; add sp,#32
    assert m.regs["x0"] == 2 ** 64 - 5 and m.peek(0x7FF0 - 32 + 24, 8) == (2 ** 64 - 5, True) and m.regs["sp"] == 0x7FF0
    seen = []
    m, i = _run("arm64", "00000090 00000091 00000094", 0x7FF0, relocs={0: ("foo", 0, ()), 4: ("foo", 0, ("LO12",)), 8: ("foo", 0, ())},
                call=lambda mm, t: seen.append((t, mm.regs["x0"])))
    assert seen == [(0x5A5A00100128, 0x5A5A00100128)] and m.regs["x30"] != i["x30"]
    for bad in ("2000028b", "c0035fd6", "e003002a", "00000090", "e00b00b9"):  # add x,x,x; ret; mov w0,w0; adrp w/o symbol; str w0
        _must_fail("arm64", bad)
    # ---- MIPS32 (big endian)
    m, i = _run("mips32", "27bdfff8 afa40000 afa50004 00000000 8fa50004 8fa40000 27bd0008", 0x7FF0, symaddr={}, ext={},
                marker=lambda mm: mm.regs.update(a0=1, a1=2))
    assert m.regs["a0"] == i["a0"] and m.regs["a1"] == i["a1"] and m.regs["sp"] == 0x7FF0
    assert [(a, s) for _, a, s in m.writes] == [(0x7FE8, 4), (0x7FEC, 4)]
    for bad in ("03e00008", "00851021", "a3a40000"):
        _must_fail("mips32", bad, symaddr={}, ext={})
    return True


if __name__ == "__main__":
    run()
    print("machine selfcheck ok")
