"""
Shared runner for all property checks.

A property module (vf/props/cNN.py) provides

    PROPERTY = "C01"
    LEVEL    = "exploration" | "model_checking"
    RULE     = "...how cases are enumerated and what makes one non-trivial"
    ASSUMPTIONS = [...]
    def tasks(tier) -> list            # picklable task descriptors, enumeration order
    def run_task(task) -> TaskResult   # enumerates *every* case of the task on the real code
    def replay(case) -> list[dict]     # discrepancies of one case (plain unit-test body)

`run_task` executes in a worker process (16-way).  Every discrepancy is a dict
with at least {"kind": str}; plus role keys used by known_findings.json.  A
discrepancy that matches no known finding is a violation: the case is written
to replays/<id>/<hash>.json and `VIOLATION property=<id> replay=<path>` is
printed; exit status 1.
"""
from __future__ import annotations

import collections
import hashlib
import importlib
import json
import multiprocessing
import os
import sys
import time
import traceback

ROOT = os.path.dirname(os.path.dirname(os.path.abspath(__file__)))
# the two overrides exist for runs against scratch trees (vf.seedpar); registered commands never set them
EVIDENCE_DIR = os.environ.get("VERIF_EVIDENCE_DIR") or os.path.join(ROOT, "evidence")
REPLAY_DIR = os.environ.get("VERIF_REPLAY_DIR") or os.path.join(ROOT, "replays")
FINDINGS_FILE = os.path.join(ROOT, "known_findings.json")
GUARD = "GTIRB_REWRITING_VERIF"


def setup_env():
    """Environment every check (and every worker) runs under."""
    os.environ[GUARD] = "1"
    if os.environ.get("PYTHONHASHSEED") is None:
        # must be set before interpreter start to take effect: re-exec once
        os.environ["PYTHONHASHSEED"] = "0"
        os.execv(sys.executable, [sys.executable] + sys.orig_argv[1:])


def assert_tree():
    import gtirb_rewriting

    p = os.path.realpath(gtirb_rewriting.__file__)
    allow = os.environ.get("VERIF_ALLOW_TREE")  # only for mutant experiments on scratch copies
    if allow and p.startswith(os.path.realpath(allow)):
        print("NOTE: running against scratch tree %s (not evidence)" % allow)
        return
    if not p.startswith("/repo/src/"):
        print("HARNESS-ERROR: gtirb_rewriting imported from %s, not /repo/src" % p)
        sys.exit(2)


class TaskResult:
    """What one worker task measured."""

    def __init__(self):
        self.evaluations = 0
        self.nontrivial = set()  # short hashes of distinct non-trivial cases
        self.outcomes = collections.Counter()  # distinct observed outcomes
        self.samples = []
        self.discrepancies = []  # [{"case":..., "diffs":[...]}]
        self.states = 0
        self.transitions = 0
        self.traces = 0
        self.extra = collections.Counter()
        self.exhausted = True
        self.notes = {}

    def case(self, key, nontrivial=True, outcome=None):
        self.evaluations += 1
        if nontrivial:
            self.nontrivial.add(h8(key))
        if outcome is not None:
            self.outcomes[outcome] += 1

    def bad(self, case, diffs):
        if len(self.discrepancies) < 400:
            self.discrepancies.append({"case": case, "diffs": diffs})
        else:
            self.extra["discrepancies_dropped"] += 1
        for d in diffs:
            self.extra["diff:" + d["kind"]] += 1

    def sample(self, s, cap=4):
        if len(self.samples) < cap:
            self.samples.append(s)

    def pack(self):
        return {
            "evaluations": self.evaluations,
            "nontrivial": self.nontrivial,
            "outcomes": self.outcomes,
            "samples": self.samples,
            "discrepancies": self.discrepancies,
            "states": self.states,
            "transitions": self.transitions,
            "traces": self.traces,
            "extra": self.extra,
            "exhausted": self.exhausted,
            "notes": self.notes,
        }


def h8(obj) -> str:
    return hashlib.sha1(
        json.dumps(obj, sort_keys=True, default=str).encode()
    ).hexdigest()[:12]


# --------------------------------------------------------------------------
# known findings


def load_findings(prop):
    if not os.path.exists(FINDINGS_FILE):
        return []
    with open(FINDINGS_FILE) as f:
        data = json.load(f)
    return [e for e in data.get("findings", []) if prop in e["property"].split("/")]


def _match_value(pat, val):
    if isinstance(pat, list):
        return val in pat
    if isinstance(pat, dict):
        if "not" in pat:
            return val != pat["not"]
        if "has" in pat:  # '+'-joined cause lists
            return isinstance(val, str) and pat["has"] in val.split("+")
        raise ValueError("bad matcher %r" % (pat,))
    return pat == val


def match_finding(findings, diff):
    """Return the id of the known (status == 'known') finding matching this
    discrepancy, or None.  'fixed' entries never match anything."""
    for e in findings:
        if e.get("status") != "known":
            continue
        ms = e["match"] if isinstance(e["match"], list) else [e["match"]]
        for m in ms:
            if all(k in diff and _match_value(v, diff[k]) for k, v in m.items()):
                return e
    return None


# --------------------------------------------------------------------------
# worker plumbing

_MOD = None


def _init_worker(modname):
    global _MOD
    os.environ[GUARD] = "1"
    _MOD = importlib.import_module(modname)


def _run_one(task):
    t0 = time.time()
    try:
        r = _MOD.run_task(task)
        out = r.pack()
    except Exception:
        out = TaskResult().pack()
        out["harness_error"] = traceback.format_exc()
    out["task"] = task
    out["wall"] = time.time() - t0
    return out


_HISTORY_CHILD = r"""
import sys, json
sys.path.insert(0, %(root)r)
from vf import core
core._history_child(%(modname)r, json.loads(%(task)r), json.loads(%(case)r))
"""


def _canon_json(x):
    return json.dumps(json.loads(json.dumps(x, default=str)), sort_keys=True)


def _tuplify(x):
    if isinstance(x, list):
        return tuple(_tuplify(y) for y in x)
    return x


def _history_child(modname, task, case):
    _init_worker(modname)
    want = _canon_json(case)
    for variant in (task, _tuplify(task)):
        try:
            r = _MOD.run_task(variant)
        except Exception:
            continue
        for rec in r.discrepancies:
            if _canon_json(rec["case"]) == want:
                print("HISTORY-RESULT " + json.dumps(rec["diffs"], default=str))
                return
        print("HISTORY-RESULT []")
        return
    print("HISTORY-RESULT null")


def history_replay(modname, task, case, timeout=1800):
    """Run the whole task in a fresh interpreter and return the discrepancies it reports for `case`
    (None when the task cannot be re-run).  The task is the history: nothing else ran in that interpreter."""
    import subprocess

    root = os.path.dirname(os.path.dirname(os.path.abspath(__file__)))
    code = _HISTORY_CHILD % {"root": root, "modname": modname, "task": json.dumps(task, default=str), "case": json.dumps(case, default=str)}
    try:
        p = subprocess.run([sys.executable, "-c", code], capture_output=True, text=True, env=dict(os.environ), timeout=timeout)
    except subprocess.TimeoutExpired:
        return None
    for line in p.stdout.splitlines():
        if line.startswith("HISTORY-RESULT "):
            return json.loads(line[len("HISTORY-RESULT "):])
    return None


def run_check(modname, tier, replay_path=None, jobs=None):
    setup_env()
    assert_tree()
    mod = importlib.import_module(modname)
    prop = mod.PROPERTY
    seed = int(os.environ.get("VERIF_SEED", "0") or 0)
    findings = load_findings(prop)

    if replay_path:
        with open(replay_path) as f:
            rec = json.load(f)
        if rec.get("task") is not None:
            diffs = history_replay(modname, rec["task"], rec["case"]) or []
        else:
            diffs = mod.replay(rec["case"])
        unexplained = [d for d in diffs if not match_finding(findings, d)]
        for d in diffs:
            print(("DIFF " if d in unexplained else "KNOWN ") + json.dumps(d, default=str))
        if unexplained:
            print("VIOLATION property=%s replay=%s" % (prop, replay_path))
            return 1
        print("replay: no violation")
        return 0

    t0 = time.time()
    cap = float(os.environ.get("VERIF_CAP_S", 0) or getattr(mod, "CAP_S", {}).get(tier, 600))
    tasks = list(mod.tasks(tier))
    ntasks = len(tasks)
    # the seed only rotates the order in which tasks are started
    if tasks and seed:
        k = seed % len(tasks)
        tasks = tasks[k:] + tasks[:k]
    jobs = jobs or int(os.environ.get("VERIF_JOBS", "0") or 0) or min(16, os.cpu_count() or 1)

    agg = TaskResult()
    agg_nontrivial = set()
    done = 0
    capped = False
    harness_errors = []
    per_group = collections.OrderedDict()
    ctx = multiprocessing.get_context("fork")
    if jobs == 1 or len(tasks) <= 1:
        _init_worker(modname)
        it = map(_run_one, tasks)
        pool = None
    else:
        # long-lived workers (a fresh child per task costs the warm-up of the assembler and of gtirb 5x in wall time)
        pool = ctx.Pool(jobs, initializer=_init_worker, initargs=(modname,))
        it = pool.imap_unordered(_run_one, tasks, chunksize=1)
    try:
        for out in it:
            done += 1
            if "harness_error" in out:
                harness_errors.append((out["task"], out["harness_error"]))
            agg.evaluations += out["evaluations"]
            agg_nontrivial |= out["nontrivial"]
            agg.outcomes.update(out["outcomes"])
            for s in out["samples"]:
                agg.sample(s, cap=5)
            for rec_ in out["discrepancies"]:
                rec_["task"] = out["task"]  # the history a case was observed in (see history_replay)
            agg.discrepancies.extend(out["discrepancies"])
            agg.states += out["states"]
            agg.transitions += out["transitions"]
            agg.traces += out["traces"]
            agg.extra.update(out["extra"])
            agg.exhausted = agg.exhausted and out["exhausted"]
            for k, v in out["notes"].items():
                agg.notes.setdefault(k, v)
            g = getattr(mod, "task_group", lambda t: "all")(out["task"])
            pg = per_group.setdefault(g, {"tasks": 0, "evaluations": 0})
            pg["tasks"] += 1
            pg["evaluations"] += out["evaluations"]
            if time.time() - t0 > cap:
                capped = done < ntasks
                break
    finally:
        if pool is not None:
            pool.terminate()
            pool.join()

    if harness_errors:
        for t, e in harness_errors[:3]:
            print("HARNESS-ERROR in task %r:\n%s" % (t, e))
        print("HARNESS-ERROR: %d task(s) crashed inside the harness" % len(harness_errors))

    # ---------------- classify discrepancies
    known_hits = collections.Counter()
    known_entries = {}
    violations = []
    for rec in agg.discrepancies:
        un = []
        for d in rec["diffs"]:
            e = match_finding(findings, d)
            if e is None:
                un.append(d)
            else:
                known_hits[e["id"]] += 1
                known_entries[e["id"]] = e
        if un:
            violations.append({"case": rec["case"], "diffs": un, "task": rec.get("task")})

    for fid, n in sorted(known_hits.items()):
        e = known_entries[fid]
        print("KNOWN-FINDING: property=%s %s: %s (%d hits)" % (prop, fid, e["what"], n))

    # ---------------- replays: confirm, then write
    vio_lines = []
    seen_kinds = collections.Counter()
    unstable = 0
    history_budget = 3
    os.makedirs(os.path.join(REPLAY_DIR, prop), exist_ok=True)
    # shortest cases first
    violations.sort(key=lambda v: len(json.dumps(v["case"], default=str)))
    for v in violations:
        kinds = tuple(sorted({sig_of(d) for d in v["diffs"]}))
        seen_kinds[kinds] += 1
        if seen_kinds[kinds] > 2 or len(vio_lines) >= 25:
            continue
        try:
            again = mod.replay(v["case"])
        except Exception:
            again = [{"kind": "replay-crashed", "trace": traceback.format_exc()[-600:]}]
        again_un = [d for d in again if not match_finding(findings, d)]
        with_history = False
        if {sig_of(d) for d in again_un} != {sig_of(d) for d in v["diffs"]}:
            # the case alone does not reproduce in this process.  Either the harness is at fault, or the outcome depends on
            # what the interpreter did before (a cache on a shared object, a memoised table): replay the case *with its
            # history* - the task that produced it, from the task's first case, in a fresh interpreter.
            hist = None
            if v.get("task") is not None and history_budget > 0:
                history_budget -= 1
                hist = history_replay(modname, v["task"], v["case"])
            hist_un = [d for d in (hist or []) if not match_finding(findings, d)]
            if hist is None or {sig_of(d) for d in hist_un} != {sig_of(d) for d in v["diffs"]}:
                unstable += 1
                print("UNSTABLE: replay of a reported case differs: %s vs %s" % (
                    sorted({sig_of(d) for d in v["diffs"]}), sorted({sig_of(d) for d in again_un})))
                continue
            with_history = True
            print("  (reproduces only with its process history: replayed as the whole task in a fresh interpreter)")
        path = os.path.join(REPLAY_DIR, prop, h8(v["case"]) + ".json")
        with open(path, "w") as f:
            rec_out = {"property": prop, "case": v["case"], "diffs": v["diffs"]}
            if with_history:
                rec_out["task"] = v["task"]
                rec_out["module"] = modname
            json.dump(rec_out, f, indent=1, default=str)
        vio_lines.append("VIOLATION property=%s replay=%s" % (prop, path))
        print("  case: " + json.dumps(v["case"], default=str)[:700])
        for d in v["diffs"][:4]:
            print("  diff: " + json.dumps(d, default=str)[:500])
        print(vio_lines[-1])

    wall = time.time() - t0
    exhaustive = bool(agg.exhausted and not capped and not harness_errors)
    cov = {
        "evaluations": agg.evaluations,
        "distinct_nontrivial": len(agg_nontrivial),
        "rule": mod.RULE,
        "samples": agg.samples[:5] or ["<none>"],
        "exhaustive": exhaustive,
        "tasks_total": ntasks,
        "tasks_done": done,
        "time_cap_s": cap,
        "time_cap_hit": capped,
        "distinct_outcomes": len(agg.outcomes),
        "outcome_histogram_top": dict(agg.outcomes.most_common(12)),
        "per_group": per_group,
        "known_findings_hit": dict(known_hits),
        "counters": dict(agg.extra),
        "bounds": getattr(mod, "BOUNDS", {}).get(tier, {}),
    }
    cov.update(agg.notes)
    if mod.LEVEL == "model_checking":
        cov["states"] = len(agg_nontrivial) if getattr(mod, "STATES_ARE_DISTINCT_CASES", False) else agg.states
        cov["states_visited_with_task_local_duplicates"] = agg.states
        cov["transitions"] = agg.transitions
        cov["traces_validated_against_impl"] = agg.traces
    ev = {
        "property_id": prop,
        "tier": tier,
        "seed": seed,
        "level": mod.LEVEL,
        "coverage": cov,
        "assumptions": list(getattr(mod, "ASSUMPTIONS", [])),
        "wall_s": round(wall, 2),
        "violations": len(violations),
    }
    write_evidence(prop, ev)
    print(
        "%s tier=%s evaluations=%d distinct_nontrivial=%d outcomes=%d states=%d transitions=%d "
        "tasks=%d/%d exhaustive=%s wall=%.1fs violations=%d known=%s"
        % (prop, tier, agg.evaluations, len(agg_nontrivial), len(agg.outcomes), agg.states,
           agg.transitions, done, ntasks, exhaustive, wall, len(violations), dict(known_hits))
    )
    if vio_lines:
        return 1  # at least one violation was confirmed by its replay
    if harness_errors or unstable:
        return 2
    return 1 if violations else 0


def sig_of(d):
    return d["kind"] + "|" + "|".join("%s=%s" % (k, d[k]) for k in sorted(d) if k.startswith("r_"))


def write_evidence(prop, ev):
    os.makedirs(EVIDENCE_DIR, exist_ok=True)
    path = os.path.join(EVIDENCE_DIR, prop + ".json")
    try:
        import jsonschema  # optional in /venv

        with open("/root/.vp/EVIDENCE.schema.json") as f:
            jsonschema.validate(ev, json.load(f))
    except ImportError:
        pass
    except FileNotFoundError:
        pass
    with open(path, "w") as f:
        json.dump(ev, f, indent=1, default=str, sort_keys=True)
