"""
History explorer: breadth-first search over operation histories of a *real*
object.  Live objects do not deep-copy reliably (gtirb nodes), so a state is
the history reaching it and is rebuilt by replaying that history on a fresh
world.  `canon()` of the reached world deduplicates.

A world class provides
    W()                     fresh real object + reference model
    W.OPS                   list of op descriptors (json-able tuples)
    w.step(op) -> [diffs]   run op on the real object and the model, compare what it returned
    w.invariant() -> [diffs] non-mutating comparison real vs model
    w.canon()               hashable canonical state (equal canon => equal futures)
    w.enabled(op) -> bool   optional
"""
import collections


def explore(W, max_depth, res, name, prefix=(), state_cap=None, ops=None):
    """Explore all histories extending `prefix` up to max_depth operations.
    Returns True when the reachable canonical state space was closed (fixpoint)
    before the depth bound."""
    ops = ops if ops is not None else W.OPS
    w0 = W()
    for op in prefix:
        w0.step(op)
    seen = {w0.canon()}
    frontier = collections.deque([tuple(prefix)])
    fixpoint = True
    maxd = len(prefix)
    while frontier:
        hist = frontier.popleft()
        for op in ops:
            w = W()
            for o in hist:
                d = w.step(o)
                if d:
                    raise RuntimeError("divergence while replaying prefix %r at %r: %r" % (hist, o, d))
            if hasattr(w, "enabled") and not w.enabled(op):
                continue
            diffs = w.step(op)
            diffs = diffs + w.invariant()
            res.transitions += 1
            res.traces += 1
            nh = hist + (op,)
            if diffs:
                for d in diffs:
                    d.setdefault("universe", name)
                res.bad({"universe": name, "history": [list(o) for o in nh]}, diffs)
                continue
            k = w.canon()
            res.case((name, k), nontrivial=True, outcome=None)
            if k in seen:
                continue
            if len(nh) >= max_depth or (state_cap and len(seen) >= state_cap):
                fixpoint = False
                # state is counted (it was reached and checked) but not expanded
                seen.add(k)
                continue
            seen.add(k)
            maxd = max(maxd, len(nh))
            frontier.append(nh)
            res.sample({"universe": name, "history": [list(o) for o in nh]}, cap=2)
    res.states += len(seen)
    res.extra["states:" + name] += len(seen)
    res.notes["maxdepth:" + name] = max(res.notes.get("maxdepth:" + name, 0), maxd)
    return fixpoint
