"""Whole-IR validator for C05: closure, well-formedness, protobuf round trip."""
import io
import uuid

import gtirb

from . import canon
from .compare import D


def in_module(n, m):
    if isinstance(n, gtirb.ByteBlock):
        return n.module is m and n.byte_interval is not None and n in n.byte_interval.blocks
    if isinstance(n, gtirb.ProxyBlock):
        return n in m.proxies
    if isinstance(n, gtirb.Symbol):
        return n in m.symbols
    if isinstance(n, gtirb.ByteInterval):
        return n.module is m and n.section is not None
    if isinstance(n, gtirb.Section):
        return n in m.sections
    if isinstance(n, gtirb.Module):
        return n is m
    return True


def walk_nodes(v, out, depth=0):
    if isinstance(v, gtirb.Offset):
        out.append(("offset", v))
        walk_nodes(v.element_id, out, depth + 1)
    elif isinstance(v, gtirb.Node):
        out.append(("node", v))
    elif isinstance(v, dict) or hasattr(v, "items"):
        for k, x in v.items():
            walk_nodes(k, out, depth + 1)
            walk_nodes(x, out, depth + 1)
    elif isinstance(v, (list, tuple, set, frozenset)):
        for x in v:
            walk_nodes(x, out, depth + 1)


def validate(ir, m, original_blocks=None, had_zero_sized=False, roundtrip=True):
    """-> list of discrepancies.  original_blocks: set of block objects that existed before the rewrite."""
    diffs = []
    all_blocks = list(m.byte_blocks)
    for bi in m.byte_intervals:
        if bi.section is None or bi.section.module is not m:
            diffs.append(D("interval-not-in-module"))
        for b in bi.blocks:
            if b.offset < 0 or b.offset + b.size > bi.size:
                diffs.append(D("block-outside-its-interval", r_kind=type(b).__name__, offset=b.offset, size=b.size, interval=bi.size))
            if b.address is None:
                diffs.append(D("block-without-address"))
        if bi.initialized_size > bi.size or len(bi.contents) > bi.size:
            diffs.append(D("interval-contents-larger-than-size"))
        for off in bi.symbolic_expressions:
            if not (0 <= off < max(bi.size, 1)):
                diffs.append(D("symexpr-outside-interval"))
    # newly created blocks never overlap another block
    if original_blocks is not None:
        for bi in m.byte_intervals:
            bl = sorted(bi.blocks, key=lambda b: (b.offset, b.size))
            for i, a in enumerate(bl):
                for b in bl[i + 1:]:
                    if b.offset >= a.offset + a.size:
                        break
                    if a.size and b.size and (a not in original_blocks or b not in original_blocks):
                        diffs.append(D("new-block-overlaps-another-block"))
    # closure
    for e in ir.cfg:
        for n, side in ((e.source, "source"), (e.target, "target")):
            if not in_module(n, m):
                diffs.append(D("cfg-endpoint-not-in-module", r_side=side, r_node=type(n).__name__, r_type=e.label.type.name if e.label else None))
    for s in m.symbols:
        r = s.referent
        if r is not None and not in_module(r, m):
            diffs.append(D("symbol-referent-not-in-module", r_node=type(r).__name__, sym=s.name))
    for bi in m.byte_intervals:
        for off, ex in bi.symbolic_expressions.items():
            for sy in ex.symbols:
                if sy not in m.symbols:
                    diffs.append(D("symexpr-symbol-not-in-module", sym=sy.name))
    for name, table in m.aux_data.items():
        nodes = []
        walk_nodes(table.data, nodes)
        for kind, v in nodes:
            if kind == "node" and not in_module(v, m):
                diffs.append(D("auxdata-node-not-in-module", r_table=name, r_node=type(v).__name__))
            elif kind == "offset":
                el = v.element_id
                if isinstance(el, (gtirb.ByteBlock, gtirb.ByteInterval)) and in_module(el, m):
                    if not (0 <= v.displacement <= el.size):
                        diffs.append(D("auxdata-offset-outside-element", r_table=name))
    # zero-sized blocks only in the documented cases
    if not had_zero_sized:
        refs = {}
        for s in m.symbols:
            if s.referent is not None:
                refs.setdefault(s.referent, []).append(s)
        cfi = m.aux_data["cfiDirectives"].data if "cfiDirectives" in m.aux_data else {}
        cfi_blocks = {k.element_id for k in cfi}
        for b in all_blocks:
            if b.size == 0:
                reasons = []
                if b in refs:
                    reasons.append("symbols")
                if b in cfi_blocks:
                    reasons.append("cfi")
                if isinstance(b, gtirb.CodeBlock) and any(not (e.label and e.label.type == gtirb.Edge.Type.Fallthrough) for e in b.incoming_edges):
                    reasons.append("in-edges")
                if m.entry_point is b:
                    reasons.append("entry")
                for t in ("elfDynamicInit", "elfDynamicFini"):
                    if t in m.aux_data and m.aux_data[t].data is b:
                        reasons.append(t)
                if not reasons:
                    diffs.append(D("zero-sized-block-without-reason", r_kind=type(b).__name__))
    if roundtrip:
        diffs.extend(protobuf_roundtrip(ir))
    return diffs


def protobuf_roundtrip(ir):
    try:
        buf = io.BytesIO()
        ir.save_protobuf_file(buf)
        buf.seek(0)
        ir2 = gtirb.IR.load_protobuf_file(buf)
    except Exception as e:
        return [D("protobuf-roundtrip-raised", r_exc=type(e).__name__, msg=str(e)[:120])]
    a = canon.dump(ir, skip_aux=())
    b = canon.dump(ir2, skip_aux=())
    d = canon.diff(a, b)
    if d:
        return [D("protobuf-roundtrip-changed-ir", r_where=d[0].split(":")[0][-40:], detail=d[:3])]
    return []
