"""Oracles: compare an observed Listing with the expected one, aspect by aspect."""
import re


def D(kind, **kw):
    d = {"kind": kind}
    d.update(kw)
    return d


def bytes_diffs(E, O, allow_padding=None):
    out = []
    for sn in sorted(set(E.bytes) | set(O.bytes)):
        e = E.bytes.get(sn, b"")
        o = O.bytes.get(sn, b"")
        if e != o:
            out.append(D("bytes-differ", section=sn, expected=e.hex(), observed=o.hex(), r_rel=_rel(e, o)))
    return out


def _rel(e, o):
    if len(o) < len(e):
        return "shorter"
    if len(o) > len(e):
        return "longer"
    return "same-length"


def _resolve_label_names(E, O):
    """Temp labels of a patch invocation (expected name '<.Lname>@<mod id>') are named
    <.Lname>_<suffix> by the library.  Which suffix is not this oracle's business (C13):
    expected temp labels are matched to observed ones by position, one to one."""
    m = {}
    groups = {}
    for n in E.labels:
        if "@" in n:
            groups.setdefault(n.split("@")[0], []).append(n)
        elif n in O.labels:
            m[n] = n
    for base, names in groups.items():
        cands = sorted(x for x in O.labels if re.fullmatch(re.escape(base) + r"_\d+", x))
        used = set()
        for n in sorted(names):
            for c in cands:
                if c not in used and O.labels[c] == E.labels[n]:
                    m[n] = c
                    used.add(c)
                    break
        rest = [c for c in cands if c not in used]
        for n in sorted(names):
            if n not in m and rest:
                m[n] = rest.pop(0)
    return m


def label_diffs(E, O, names=None, roles=None):
    out = []
    nm = _resolve_label_names(E, O)
    for n, ev in sorted(E.labels.items(), key=str):
        if names is not None and n not in names:
            continue
        r = (roles or {}).get(n.split("@")[0] if "@" in n else n, {})
        if n not in nm:
            out.append(D("label-missing", label=n, **r))
            continue
        ov = O.labels[nm[n]]
        if ev == "proxy":
            if ov != "proxy":
                out.append(D("label-not-on-proxy", label=n, observed=ov, **r))
        elif ov != ev:
            out.append(D("label-position", label=n, expected=ev, observed=ov, r_obs=ov if isinstance(ov, str) else "position", **r))
    return out


def _norm_t(t):
    if isinstance(t, str) and t.startswith("proxy"):
        return "proxy"
    return t


def edge_diffs(E, O, spec=None):
    """E.edges authoritative except fallthroughs of instructions in E.optional_ft."""
    out = list()
    zero = set(getattr(O, "zero_blocks", ()))
    def _exp_t(t):
        # a target label that (after deletions) designates data or the end of the section has no
        # code block at its position: the only thing a CFG edge can then lead to is a proxy
        if isinstance(t, tuple) and (t not in E.insns or E.insns[t]["bk"] != "c"):
            return "proxy"
        return _norm_t(t)

    ee = {(a, b, c, d, _exp_t(t)) for (a, b, c, d, t) in E.edges}
    oo = set()
    for a, b, c, d, t in O.edges:
        if b == "Fallthrough" and a in E.optional_ft and (isinstance(t, str) or t in zero or t not in E.insns or E.insns[t]["bk"] != "c"):
            continue
        if isinstance(t, tuple) and t in zero and (t not in E.insns or E.insns[t]["bk"] != "c"):
            # a kept zero-sized block with nothing (or data) behind it is a position, not an
            # instruction: an edge to it says as much as an edge to a proxy
            t = "proxy"
        oo.add((a, b, c, d, _norm_t(t)))
    opt = {(a, b, c, d, _exp_t(t)) for (a, b, c, d, t) in getattr(E, "optional_edges", ())}
    missing = ee - oo - opt
    extra = oo - ee - opt
    for x in sorted(missing, key=str):
        src = E.insns.get(x[0])
        out.append(D("edge-missing", edge=_fmt(x), r_type=x[1], r_src=_role(src), r_tgt="proxy" if x[4] == "proxy" else "code", r_cause=_cause(E, x, spec), gap=gap_after(E, x[0])))
    for x in sorted(extra, key=str):
        src = E.insns.get(x[0])
        out.append(D("edge-extra", edge=_fmt(x), r_type=x[1], r_src=_role(src), r_tgt="proxy" if x[4] == "proxy" else ("removed" if x[4] == "removed" else "code"), r_cause=_cause(E, x, spec), gap=gap_after(E, x[0])))
    return out


def gap_after(E, key):
    """What lies between instruction `key` and the next surviving instruction of the edited
    listing - only used to describe a discrepancy (known-findings signatures)."""
    toks = getattr(E, "tokens", None)
    rec = E.insns.get(key)
    if toks is None or rec is None or "tok" not in rec:
        return "?"
    tl = toks[key[0]]
    i = rec["tok"]
    src = tl[i]
    flags = set()
    if src["uid"][0] == "patch" and src.get("slot_end") and src.get("blk_noft"):
        flags.add("E")  # patch appended to a block whose last instruction cannot fall through
    nxt = None
    for t in tl[i + 1:]:
        if t["t"] == "blk":
            flags.add("B")
        elif t["t"] == "ins":
            if t.get("dead"):
                if t["bk"] == "d":
                    flags.add("D")
                elif t["ins"][0] in ("jmp", "ret", "ijmp"):
                    flags.add("T")
                else:
                    flags.add("C")
                if t["dead"] == "proxy":
                    flags.add("X")
            else:
                nxt = t
                break
    if nxt is None:
        flags.add("Z")
    else:
        if src["uid"][0] == "patch" and nxt["uid"][0] != "patch":
            flags.add("P")
        if src["uid"][0] != "patch" and nxt["uid"][0] == "patch":
            flags.add("p")
        if src["uid"][0] == "patch" and nxt["uid"][0] == "patch" and src["uid"][1] != nxt["uid"][1]:
            flags.add("Q")  # two different patches meet
    return "".join(sorted(flags))


def ft_cause(E, key, spec):
    """Why might the library have no fallthrough edge out of instruction `key`?  Only used to
    describe a discrepancy (known-findings signatures), never by the oracle.
      K1  the instruction ends up as the last one of (what is left of) an input block that had
          no fallthrough edge - the library keeps a block's fallthrough status, it never derives
          one from the instruction (F13/F24/F25)
      K2  the block fell through into a block that was deleted with retarget_to_proxy (F14)"""
    toks = getattr(E, "tokens", None)
    rec = E.insns.get(key)
    if toks is None or rec is None or "tok" not in rec or spec is None:
        return "unexplained"
    tl = toks[key[0]]
    i = rec["tok"]
    src = tl[i]
    B = src["uid"][1] if src["uid"][0] == "orig" else src.get("slot_blk")
    if B is None:
        return "unexplained"
    if src["uid"][0] == "patch":
        # a patch placed right after an earlier patch (same slot) that ends in jmp/ret behaves
        # like a patch appended to a block without fallthrough
        j = i
        while j >= 0 and tl[j]["t"] == "ins" and tl[j]["uid"][:2] == src["uid"][:2] or (j >= 0 and tl[j]["t"] in ("lab", "cfi") and tl[j].get("own", tl[j].get("b")) == ("patch", src["uid"][1])):
            j -= 1
        while j >= 0 and (tl[j]["t"] != "ins" or tl[j].get("dead")):
            if tl[j]["t"] == "blk":
                break
            j -= 1
        if j >= 0 and tl[j]["t"] == "ins" and tl[j]["uid"][0] == "patch" and tl[j].get("slot_blk") == B \
                and tl[j]["uid"][1] != src["uid"][1] and tl[j]["ins"][0] in ("jmp", "ret", "ijmp"):
            return "K1"
    blocks = None
    for sct in spec["sections"]:
        names = [b["n"] for b in sct["blocks"]]
        if B in names:
            blocks = sct["blocks"]
            bi = names.index(B)
    if blocks is None:
        return "unexplained"
    for t in tl[i + 1:]:
        if t["t"] == "ins" and not t.get("dead") and t["uid"][0] == "orig" and t["uid"][1] == B:
            return "unexplained"  # an original instruction of the same block still follows
        if t["t"] == "ins" and not t.get("dead") and t["uid"][0] == "patch" and t.get("slot_blk") == B:
            continue
    b = blocks[bi]
    nxt = blocks[bi + 1] if bi + 1 < len(blocks) else None
    import vf.world.isa as isamod

    isa_ = isamod.TARGETS[spec["target"]][0]
    had_ft = b["k"] == "c" and b["i"] and isa_.falls(tuple(b["i"][-1])) and nxt is not None and nxt["k"] == "c"
    if not had_ft:
        return "K1"
    for nb in blocks[bi + 1:]:
        dead = [t for t in tl if t["t"] == "ins" and t["uid"][0] == "orig" and t["uid"][1] == nb["n"]]
        anylive = any(t["t"] == "ins" and not t.get("dead") and (t["uid"][1] == nb["n"] if t["uid"][0] == "orig" else t.get("slot_blk") == nb["n"]) for t in tl)
        if dead and all(t.get("dead") == "proxy" for t in dead):
            return "K2"
        if anylive or nb["k"] != "c":
            break
    return "unexplained"


def ret_causes(E, spec):
    """Request patterns under which the library is known not to keep return edges in step with
    the calls (DESIGN.md section 5: F15/F16/F19/F26..F29).  Computed from the request (spec +
    modification list as reflected in the token list), never from the outcome.
      RA  a surviving direct call targets a label whose block was wholly deleted without proxy
          (label and call edge slide onto another block, possibly of another function)
      RB  a patch contains a direct call whose target lies in the function it is inserted into
      RK  the block after a block ending in a call was deleted with retarget_to_proxy
      RC  a block of a function was deleted with retarget_to_proxy while other code of that
          function survives
      RD  every original return of a function was deleted or the function got a return from a patch
          while blocks of it were deleted in the same apply
      RE  a patch ending in (or consisting of) a call is appended at the end of a block"""
    toks = getattr(E, "tokens", None)
    if toks is None or spec is None:
        return ["unexplained"]
    out = set()
    owner, func_of_blk = {}, {}
    for sct in spec["sections"]:
        for b in sct["blocks"]:
            func_of_blk[b["n"]] = b.get("f") if b["k"] == "c" and spec.get("functions", True) else None
    for tl in toks.values():
        for t in tl:
            if t["t"] == "lab" and isinstance(t["own"], str):
                owner[t["n"]] = t["own"]
    per = {}
    order = []
    for tl in toks.values():
        for t in tl:
            if t["t"] == "blk":
                order.append(t["b"])
            if t["t"] == "ins" and t["uid"][0] == "orig":
                per.setdefault(t["uid"][1], []).append(t.get("dead") or "")
    dead_np = {b for b, v in per.items() if all(x for x in v) and "proxy" not in v}
    dead_px = {b for b, v in per.items() if v and all(x == "proxy" for x in v)}
    any_dead = {b for b, v in per.items() if any(v)}
    live_funcs = {}
    for tl in toks.values():
        for t in tl:
            if t["t"] == "ins" and not t.get("dead") and t.get("f"):
                live_funcs.setdefault(t["f"], 0)
                live_funcs[t["f"]] += 1
    for tl in toks.values():
        for idx, t in enumerate(tl):
            if t["t"] != "ins" or t.get("dead"):
                continue
            for callee_lab in _callees(t["ins"]):
                tgt_owner = owner.get(callee_lab)
                if tgt_owner in dead_np:
                    out.add("RA")
                elif tgt_owner in order and tgt_owner not in per and order.index(tgt_owner) + 1 < len(order) and order[order.index(tgt_owner) + 1] in dead_np:
                    # the same one rewrite later: the callee block is already zero-sized (its bytes went in an earlier
                    # rewrite) and what followed it is deleted now, so block, label and call edge slide on
                    out.add("RA")
                if t["uid"][0] == "patch" and tgt_owner is not None and func_of_blk.get(tgt_owner) is not None and func_of_blk.get(tgt_owner) == t.get("f"):
                    out.add("RB")
                if t["uid"][0] == "patch" and t.get("slot_end"):
                    out.add("RE")
            if t["ins"][0] == "ret" and t["uid"][0] == "patch" and t.get("f"):
                if any(func_of_blk.get(b) == t["f"] for b in any_dead):
                    out.add("RD")
    for b in dead_px:
        f = func_of_blk.get(b)
        if f and live_funcs.get(f):
            out.add("RC")
        i = order.index(b)
        if i > 0:
            prev = order[i - 1]
            # last live instruction physically before the deleted block
            for tl in toks.values():
                last = None
                for t in tl:
                    if t["t"] == "blk" and t["b"] == b:
                        if last is not None and last["ins"][0] in ("call", "icall"):
                            out.add("RK")
                        break
                    if t["t"] == "ins" and not t.get("dead"):
                        last = t
    for f in {v for v in func_of_blk.values() if v}:
        rets = [t for tl in toks.values() for t in tl if t["t"] == "ins" and t["uid"][0] == "orig" and t.get("f") == f and t["ins"][0] == "ret"]
        if rets and all(t.get("dead") for t in rets) and live_funcs.get(f):
            out.add("RD")
    # RF: a call to function F is deleted/replaced while a patch adds a call to F
    dead_call_funcs = set()
    patch_call_funcs = set()
    for tl in toks.values():
        for t in tl:
            for callee_lab in (_callees(t["ins"]) if t["t"] == "ins" else ()):
                f = func_of_blk.get(owner.get(callee_lab))
                if f and t.get("dead"):
                    dead_call_funcs.add(f)
                if f and not t.get("dead") and t["uid"][0] == "patch":
                    patch_call_funcs.add(f)
    if dead_call_funcs & patch_call_funcs:
        out.add("RF")
    # RG: a call that ends a block without fallthrough edge is now followed by code (K1 for calls)
    for (src, typ, _c, _d, _t) in E.edges:
        if typ == "Fallthrough" and E.insns[src]["ins"][0] in ("call", "icall") and ft_cause(E, src, spec) == "K1":
            out.add("RG")
    return sorted(out) or ["unexplained"]


def _callees(ins):
    """labels an instruction calls: a direct call, or an indirect call whose possible callees the CFG knows"""
    if ins[0] == "call":
        return (ins[1],)
    if ins[0] == "icall":
        return tuple(ins[1:])
    return ()


def _cause(E, x, spec):
    if x[1] == "Fallthrough":
        rec = E.insns.get(x[0])
        if rec is not None and rec["ins"][0] in ("jmp", "ret", "ijmp"):
            # a fallthrough out of a jmp/ret: the terminator got buried; describe by the request pattern
            if not hasattr(E, "_ret_causes"):
                E._ret_causes = ret_causes(E, spec)
            return "buried:" + "+".join(E._ret_causes)
        return ft_cause(E, x[0], spec)
    if not hasattr(E, "_ret_causes"):
        E._ret_causes = ret_causes(E, spec)
    return "+".join(E._ret_causes)


def _role(rec):
    if rec is None:
        return "?"
    return ("patch:" if rec["uid"][0] == "patch" else "orig:") + rec["ins"][0]


def _fmt(x):
    return [list(x[0]), x[1], x[2], x[3], list(x[4]) if isinstance(x[4], tuple) else x[4]]


def structure_problems(O, kinds=None):
    out = []
    for p in O.problems:
        if kinds is None or p["kind"] in kinds:
            out.append(dict(p))
    return out


def function_diffs(E, O):
    """per instruction function attribution"""
    out = []
    for key, rec in sorted(E.insns.items()):
        o = O.insns.get(key)
        if o is None:
            continue
        if rec["bk"] == "c":
            if o["bk"] != "c":
                continue
            if o["f"] != rec["f"]:
                out.append(D("function-attribution", at=list(key), expected=rec["f"], observed=o["f"], r_src=_role(rec)))
        else:
            if o.get("f"):
                out.append(D("data-in-function", at=list(key)))
    return out


def symexpr_diffs(E, O):
    out = []
    nm = _resolve_label_names(E, O)
    for key in sorted(set(E.symexprs) | set(O.symexprs)):
        e = E.symexprs.get(key)
        o = O.symexprs.get(key)
        if e is None:
            out.append(D("symexpr-extra", at=list(key), observed=list(o[:4])))
        elif o is None:
            out.append(D("symexpr-missing", at=list(key), expected=list(e)))
        else:
            en = nm.get(e[0], e[0])
            if o[0] != en or o[1] != e[1]:
                out.append(D("symexpr-wrong", at=list(key), expected=list(e), observed=list(o[:4]), r_what="symbol" if o[0] != en else "addend"))
            elif len(e) > 3 and tuple(e[3]) != tuple(o[3]):
                out.append(D("symexpr-attributes", at=list(key), expected=list(e[3]), observed=list(o[3])))
            elif e[2] is not None and o[2] != e[2]:
                out.append(D("symexpr-size", at=list(key), expected=e[2], observed=o[2], r_obs="missing" if o[2] is None else "wrong"))
    return out


def ann_diffs(E, O):
    out = []
    for key in sorted(set(E.ann) | set(O.ann)):
        e = E.ann.get(key)
        o = O.ann.get(key)
        if e != o:
            out.append(D("annotation-" + ("missing" if o is None else "extra" if e is None else "wrong"), at=list(key), expected=e, observed=o))
    return out


def functable_diffs(E, O):
    out = []
    # delete_function replaces every reference by proxies: nothing of the function may stay behind,
    # not even a kept zero-sized block
    for f in sorted(set(getattr(E, "deleted_functions", ())) & set(getattr(O, "func_hollow", ()))):
        out.append(D("function-left-hollow-after-delete_function", r_func=f))
    if E.func_names != O.func_names:
        for f in sorted(E.func_names - O.func_names):
            out.append(D("function-vanished", r_func=f))
        for f in sorted(O.func_names - E.func_names):
            out.append(D("function-not-removed", r_func=f))
    for f in sorted(E.func_names & O.func_names):
        e = E.func_entries.get(f, set())
        o = O.func_entries.get(f, set())
        zero = set(getattr(O, "zero_blocks", ()))
        # an entry role left on a kept zero-sized block (documented leftover) is not an instruction's
        o = {p_ for p_ in o if p_ in e or p_ not in zero}
        o = o - (getattr(E, "func_entries_optional", {}).get(f, set()) - e)
        if e != o:
            out.append(D("function-entries", r_func=f, expected=sorted(e), observed=sorted(o), r_rel="missing" if e - o and not o - e else "extra" if o - e and not e - o else "different"))
    return out
