"""Oracles: compare an observed Listing with the expected one, aspect by aspect."""
import re


def D(kind, **kw):
    d = {"kind": kind}
    d.update(kw)
    return d


def bytes_diffs(E, O, allow_padding=None):
    out = []
    for sn in sorted(set(E.bytes) | set(O.bytes)):
        e = E.bytes.get(sn, b"")
        o = O.bytes.get(sn, b"")
        if e != o:
            out.append(D("bytes-differ", section=sn, expected=e.hex(), observed=o.hex(), r_rel=_rel(e, o)))
    return out


def _rel(e, o):
    if len(o) < len(e):
        return "shorter"
    if len(o) > len(e):
        return "longer"
    return "same-length"


def _resolve_label_names(E, O, prefix_ok=True):
    """Temp labels of patches are named <name>_<suffix> by the library; map expected name ->
    observed name when exactly one observed symbol matches."""
    m = {}
    for n in E.labels:
        if n in O.labels:
            m[n] = n
        elif n.startswith(".L"):
            c = [x for x in O.labels if re.fullmatch(re.escape(n) + r"_\d+", x)]
            if len(c) == 1:
                m[n] = c[0]
    return m


def label_diffs(E, O, names=None):
    out = []
    nm = _resolve_label_names(E, O)
    for n, ev in sorted(E.labels.items(), key=str):
        if names is not None and n not in names:
            continue
        if n not in nm:
            out.append(D("label-missing", label=n))
            continue
        ov = O.labels[nm[n]]
        if ev == "proxy":
            if ov != "proxy":
                out.append(D("label-not-on-proxy", label=n, observed=ov))
        elif ov != ev:
            out.append(D("label-position", label=n, expected=ev, observed=ov, r_obs=ov if isinstance(ov, str) else "position"))
    return out


def _norm_t(t):
    if isinstance(t, str) and t.startswith("proxy"):
        return "proxy"
    return t


def edge_diffs(E, O):
    """E.edges authoritative except fallthroughs of instructions in E.optional_ft."""
    out = list()
    zero = set(getattr(O, "zero_blocks", ()))
    ee = {(a, b, c, d, _norm_t(t)) for (a, b, c, d, t) in E.edges}
    oo = set()
    for a, b, c, d, t in O.edges:
        if b == "Fallthrough" and a in E.optional_ft and (isinstance(t, str) or t in zero or t not in E.insns or E.insns[t]["bk"] != "c"):
            continue
        oo.add((a, b, c, d, _norm_t(t)))
    missing = ee - oo
    extra = oo - ee
    for x in sorted(missing, key=str):
        src = E.insns.get(x[0])
        out.append(D("edge-missing", edge=_fmt(x), r_type=x[1], r_src=_role(src), r_tgt="proxy" if x[4] == "proxy" else "code"))
    for x in sorted(extra, key=str):
        src = E.insns.get(x[0])
        out.append(D("edge-extra", edge=_fmt(x), r_type=x[1], r_src=_role(src), r_tgt="proxy" if x[4] == "proxy" else ("removed" if x[4] == "removed" else "code")))
    return out


def _role(rec):
    if rec is None:
        return "?"
    return ("patch:" if rec["uid"][0] == "patch" else "orig:") + rec["ins"][0]


def _fmt(x):
    return [list(x[0]), x[1], x[2], x[3], list(x[4]) if isinstance(x[4], tuple) else x[4]]


def structure_problems(O, kinds=None):
    out = []
    for p in O.problems:
        if kinds is None or p["kind"] in kinds:
            out.append(dict(p))
    return out


def function_diffs(E, O):
    """per instruction function attribution"""
    out = []
    for key, rec in sorted(E.insns.items()):
        o = O.insns.get(key)
        if o is None:
            continue
        if rec["bk"] == "c":
            if o["bk"] != "c":
                continue
            if o["f"] != rec["f"]:
                out.append(D("function-attribution", at=list(key), expected=rec["f"], observed=o["f"], r_src=_role(rec)))
        else:
            if o.get("f"):
                out.append(D("data-in-function", at=list(key)))
    return out


def symexpr_diffs(E, O):
    out = []
    nm = _resolve_label_names(E, O)
    for key in sorted(set(E.symexprs) | set(O.symexprs)):
        e = E.symexprs.get(key)
        o = O.symexprs.get(key)
        if e is None:
            out.append(D("symexpr-extra", at=list(key), observed=list(o[:4])))
        elif o is None:
            out.append(D("symexpr-missing", at=list(key), expected=list(e)))
        else:
            en = nm.get(e[0], e[0])
            if o[0] != en or o[1] != e[1]:
                out.append(D("symexpr-wrong", at=list(key), expected=list(e), observed=list(o[:4])))
            elif o[2] != e[2]:
                out.append(D("symexpr-size", at=list(key), expected=e[2], observed=o[2], r_obs="missing" if o[2] is None else "wrong"))
    return out


def ann_diffs(E, O):
    out = []
    for key in sorted(set(E.ann) | set(O.ann)):
        e = E.ann.get(key)
        o = O.ann.get(key)
        if e != o:
            out.append(D("annotation-" + ("missing" if o is None else "extra" if e is None else "wrong"), at=list(key), expected=e, observed=o))
    return out
