"""Scenario alphabets: module shapes, edit atoms, non-overlapping modification sets."""
import itertools

from . import isa as isamod
from .listing import T

NAMES = "ABCDEFGH"


def code_block(name, tags, term=None, f=None, e=False, **kw):
    ins = [["o", t] for t in tags]
    if term:
        ins.append(list(term))
    b = {"n": name, "k": "c", "i": ins, "f": f, "e": e}
    b.update(kw)
    return b


def data_block(name, vals, **kw):
    b = {"n": name, "k": "d", "i": [["d", v] for v in vals], "f": None, "e": False}
    b.update(kw)
    return b


def spec_of(blocks, target="x64-elf", part="one", ext=("ext",), functions=True, data_blocks=None, pie=False):
    secs = [{"name": ".text", "part": part, "blocks": blocks}]
    if data_blocks:
        secs.append({"name": ".data", "part": "one", "blocks": data_blocks})
    return {"target": target, "pie": pie, "ext": list(ext), "functions": functions, "sections": secs}


def n_boundaries(b):
    return len(b["i"]) + 1


def atoms_for(spec, patches, data_patches=None, deletes=True, replaces=True, proxy=True, max_del=3, blocks=None, partial_only=False):
    """All edit atoms on instruction boundaries of every block.
    patches: list of patch token lists for code blocks; data_patches for data blocks."""
    out = []
    for s in spec["sections"]:
        for b in s["blocks"]:
            if blocks is not None and b["n"] not in blocks:
                continue
            n = len(b["i"])
            plist = patches if b["k"] == "c" else (data_patches or [])
            for k in range(n + 1):
                for pi, p in enumerate(plist):
                    out.append({"op": "ins", "b": b["n"], "k": k, "p": p, "pid": pi})
            for k in range(n):
                for c in range(1, min(max_del, n - k) + 1):
                    whole = k == 0 and c == n
                    if deletes and not (partial_only and whole):
                        out.append({"op": "del", "b": b["n"], "k": k, "n": c})
                    if replaces:
                        for pi, p in enumerate(plist[:2]):
                            out.append({"op": "rep", "b": b["n"], "k": k, "n": c, "p": p, "pid": pi})
            if deletes and proxy and n and not partial_only:
                out.append({"op": "del", "b": b["n"], "k": 0, "n": n, "proxy": True})
    return out


def _range(a):
    return (a["k"], a["k"] + a.get("n", 0)) if a["op"] in ("del", "rep") else None


def compatible(a, b, nins):
    """DESIGN 3.1 well-formedness of two atoms of one modification set."""
    if a["op"] == "newfunc" or b["op"] == "newfunc":
        return not (a["op"] == b["op"] == "newfunc" and a["name"] == b["name"])
    if a["op"] == "delfunc" or b["op"] == "delfunc":
        return False  # only used alone / with atoms on other functions (generated explicitly)
    if a["op"] == "scope" or b["op"] == "scope":
        o = b if a["op"] == "scope" else a
        return o["op"] == "scope" or not o.get("proxy")
    if a["b"] != b["b"]:
        return True
    if a.get("proxy") or b.get("proxy"):
        return False
    ra, rb = _range(a), _range(b)
    if ra and rb:
        return ra[1] <= rb[0] or rb[1] <= ra[0]
    if ra or rb:
        r, ins = (ra, b) if ra else (rb, a)
        return not (r[0] < ins["k"] < r[1])
    return True


def mod_sets(spec, atoms, max_size, min_size=0, orders=False, filt=None):
    """All non-overlapping sets of <= max_size atoms (as lists in registration order).
    orders=True: every permutation of each set."""
    nins = {b["n"]: len(b["i"]) for s in spec["sections"] for b in s["blocks"]}
    for r in range(min_size, max_size + 1):
        for combo in itertools.combinations(range(len(atoms)), r):
            sel = [atoms[i] for i in combo]
            if any(not compatible(x, y, nins) for x, y in itertools.combinations(sel, 2)):
                continue
            if filt and not filt(sel):
                continue
            if orders == "same-offset" and r > 1:
                keys = [(x["b"], x["k"]) if x["op"] != "scope" else ("*", 0) for x in sel]
                if any(x["op"] == "scope" for x in sel) and any(x["op"] != "scope" and x["k"] == 0 for x in sel):
                    keys = keys + keys  # a scope registration meets another modification at offset 0: permute
                if len(set(keys)) == len(keys):
                    yield sel
                    continue
            if orders and r > 1:
                for perm in itertools.permutations(sel):
                    yield list(perm)
            else:
                yield sel


def retag(mods, base=100):
    """Give every patch instruction of a modification list a unique tag so every patch
    invocation is recognisable in the output bytes. Returns fresh dicts (json-able)."""
    out = []
    for mid, m in enumerate(mods):
        m2 = {k: v for k, v in m.items() if k != "pid"}
        if m["op"] in ("ins", "rep", "newfunc") and isinstance(m["p"], list):
            p2 = []
            j = 0
            for pt in m["p"]:
                pt = list(pt)
                if pt[0] == "p":
                    pt = ["p", base + 16 * mid + j]
                    j += 1
                elif pt[0] == "d" and len(pt) > 2:
                    pt = ["d", (base + 16 * mid + j) & 0xFF]
                    j += 1
                p2.append(pt)
            m2["p"] = p2
        elif m["op"] == "scope":
            m2["base"] = base + 16 * mid
        elif m["op"] in ("ins", "rep") and isinstance(m["p"], dict):
            m2["p"] = {"bytes": [(base + 16 * mid + j) & 0xFF for j in range(len(m["p"]["bytes"]))]}
        out.append(m2)
    return out


def f18_pattern(spec, mods):
    """whole-block deletion plus another modification at (block, size): DESIGN F18"""
    nins = {b["n"]: len(b["i"]) for s in spec["sections"] for b in s["blocks"]}
    deleted = {}
    for m in mods:
        if m["op"] in ("del", "rep"):
            deleted[m["b"]] = deleted.get(m["b"], 0) + m.get("n", 0)
    for m in mods:
        if m["op"] == "ins" and m["k"] == nins[m["b"]] and deleted.get(m["b"], 0) == nins[m["b"]] and nins[m["b"]] > 0:
            return True
    # the same situation one level down: a patch that cannot be re-joined with what follows it (it ends
    # in / contains a control transfer or a label) is inserted at offset k (or replaces the bytes up to k), the tail [k, end) behind it -
    # now a block of its own - is deleted wholly, and another modification waits at the block end
    splitting = ("jmp", "jcc", "call", "ret", "ijmp", "icall", "lab", "callplt", "syscall")
    for d in mods:
        if d["op"] == "del" and d["k"] + d.get("n", 0) == nins[d["b"]] and d.get("n", 0) > 0:
            at_end = any(m["op"] in ("ins", "rep") and m["b"] == d["b"] and m["k"] == nins[d["b"]] for m in mods)
            barrier = any(
                m["op"] in ("ins", "rep") and m["b"] == d["b"] and m["k"] + (m.get("n", 0) if m["op"] == "rep" else 0) == d["k"]
                and isinstance(m.get("p"), list) and any(t[0] in splitting for t in m["p"])
                for m in mods
            )
            if at_end and barrier:
                return True
    return False


def zero_block_role(spec, mods):
    """role for signatures (from the request): does the module contain a block that is zero-sized on input, and does an
    insertion of this request land exactly at its address (directly, or once the deletions of the request are applied)?"""
    blocks = [b for s in spec["sections"] for b in s["blocks"]]
    zs = [j for j, b in enumerate(blocks) if not b["i"]]
    if not zs:
        return "plain"
    role = "zero-sized-block"
    for zi in zs:
        for m in mods or ():
            if m["op"] not in ("ins", "rep"):
                continue
            j = next(i for i, b in enumerate(blocks) if b["n"] == m["b"])
            n = len(blocks[j]["i"])
            gone = set()
            for d in mods:
                if d["op"] in ("del", "rep") and d["b"] == m["b"]:
                    gone |= set(range(d["k"], d["k"] + d.get("n", 0)))
            if j == zi or (j == zi + 1 and all(i in gone for i in range(m["k"]))) or (j == zi - 1 and all(i in gone for i in range(m["k"], n))):
                role = "insertion-at-zero-sized-block"
    return role
