"""
Canonical UUID-free dump of a gtirb IR/module.

Nodes are named by position: sections by name, byte intervals by (section,
rank in address order), blocks by (section, position, size, kind, rank among
equals), proxies by a role signature (names of the symbols on them, or the
multiset of edges that touch them).  Function UUIDs are replaced by the
function's name symbol.  Temp-label suffixes can be normalised.
"""
import collections
import json
import re
import uuid

import gtirb

from . import listing as Lg


def dump(ir, normalize_temps=False, skip_aux=("leafFunctions",)):
    out = {}
    for m in sorted(ir.modules, key=lambda m: m.name):
        out[m.name] = dump_module(m, normalize_temps, skip_aux)
    # edges whose endpoints are in no module are reported by the validators, not here
    return out


def _tname(n, normalize):
    if normalize:
        return re.sub(r"^(\.L.*)_\d+$", r"\1_N", n)
    return n


def dump_module(m, normalize_temps=False, skip_aux=("leafFunctions",)):
    names = {}  # node -> canonical name
    d = collections.OrderedDict()
    d["isa"] = m.isa.name
    d["file_format"] = m.file_format.name
    d["entry"] = None
    secs = []
    for sect in sorted(m.sections, key=lambda s: s.name):
        names[sect] = "sec:" + sect.name
        ivs = sorted(sect.byte_intervals, key=lambda bi: (bi.address if bi.address is not None else -1, bi.size, bytes(bi.contents)))
        pos = 0
        ivd = []
        for r, bi in enumerate(ivs):
            names[bi] = "bi:%s:%d" % (sect.name, r)
            blocks = sorted(bi.blocks, key=lambda b: (b.offset, b.size, isinstance(b, gtirb.DataBlock), getattr(b, "decode_mode", 0)))
            bl = []
            seen = collections.Counter()
            for b in blocks:
                key = (b.offset, b.size, "c" if isinstance(b, gtirb.CodeBlock) else "d")
                names[b] = "blk:%s:%d+%d:%d:%s#%d" % (sect.name, r, b.offset, b.size, key[2], seen[key])
                seen[key] += 1
                bl.append([b.offset, b.size, key[2]])
            sx = []
            for off, ex in sorted(bi.symbolic_expressions.items()):
                sx.append([off, _expr(ex, normalize_temps)])
            ivd.append(
                {
                    "address": bi.address,
                    "size": bi.size,
                    "initialized_size": bi.initialized_size,
                    "contents": bytes(bi.contents).hex(),
                    "blocks": bl,
                    "symexprs": sx,
                }
            )
        secs.append({"name": sect.name, "flags": sorted(f.name for f in sect.flags), "intervals": ivd})
    d["sections"] = secs
    # proxies: by symbol names; anonymous ones by the edges that touch them
    sym_on = collections.defaultdict(list)
    for s in m.symbols:
        if s.referent is not None:
            sym_on[s.referent].append(_tname(s.name, normalize_temps))
    anon = []
    for p in m.proxies:
        if p in sym_on:
            names[p] = "proxy:" + ",".join(sorted(sym_on[p]))
        else:
            anon.append(p)

    def nm(n):
        if n in names:
            return names[n]
        if isinstance(n, gtirb.ProxyBlock):
            return "proxy:?"
        return "FOREIGN:" + type(n).__name__

    sigs = {}
    for p in anon:
        sig = sorted(
            [("in", nm(e.source), e.label.type.name if e.label else None) for e in p.incoming_edges]
            + [("out", nm(e.target), e.label.type.name if e.label else None) for e in p.outgoing_edges]
        )
        sigs[p] = json.dumps(sig)
    cnt = collections.Counter()
    for p in sorted(anon, key=lambda p: sigs[p]):
        names[p] = "proxy:anon:%s#%d" % (sigs[p], cnt[sigs[p]])
        cnt[sigs[p]] += 1
    d["proxies"] = sorted(names[p] for p in m.proxies)
    d["entry"] = nm(m.entry_point) if m.entry_point is not None else None
    d["symbols"] = sorted(
        [_tname(s.name, normalize_temps), nm(s.referent) if s.referent is not None else (s.value if hasattr(s, "value") else None), s.at_end]
        for s in m.symbols
    )
    edges = []
    if m.ir is not None:
        for e in m.ir.cfg:
            if (isinstance(e.source, gtirb.ProxyBlock) or e.source.module is m) or (isinstance(e.target, gtirb.ProxyBlock) or e.target.module is m):
                lab = [e.label.type.name, e.label.conditional, e.label.direct] if e.label else None
                edges.append([nm(e.source), nm(e.target), lab])
    d["edges"] = sorted(edges, key=json.dumps)
    # function uuids -> name
    fn = m.aux_data["functionNames"].data if "functionNames" in m.aux_data else {}
    fname = {u: "func:" + _tname(s.name, normalize_temps) for u, s in fn.items() if isinstance(s, gtirb.Symbol)}
    symname = {s: "sym:" + _tname(s.name, normalize_temps) for s in m.symbols}

    def val(v):
        if isinstance(v, gtirb.Symbol):
            return symname.get(v, "sym:FOREIGN:" + v.name)
        if isinstance(v, gtirb.Node):
            return nm(v)
        if isinstance(v, gtirb.Offset):
            return ["off", val(v.element_id), v.displacement]
        if isinstance(v, uuid.UUID):
            return fname.get(v, "uuid:null" if v.int == 0 else "uuid:?")
        if isinstance(v, dict) or hasattr(v, "items"):
            return sorted(([val(k), val(x)] for k, x in v.items()), key=json.dumps)
        if isinstance(v, (set, frozenset)):
            return sorted((val(x) for x in v), key=json.dumps)
        if isinstance(v, (list, tuple)):
            return [val(x) for x in v]
        if isinstance(v, bytes):
            return v.hex()
        return v

    aux = {}
    for name, table in sorted(m.aux_data.items()):
        if name in skip_aux:
            continue
        aux[name] = val(table.data)
    d["aux"] = aux
    return d


def _expr(ex, normalize):
    attrs = sorted(a.name if hasattr(a, "name") else str(a) for a in ex.attributes)
    if isinstance(ex, gtirb.SymAddrConst):
        return ["addrconst", _tname(ex.symbol.name, normalize), ex.offset, attrs]
    if isinstance(ex, gtirb.SymAddrAddr):
        return ["addraddr", _tname(ex.symbol1.name, normalize), _tname(ex.symbol2.name, normalize), ex.scale, ex.offset, attrs]
    return [type(ex).__name__]


def diff(a, b, path="", out=None, limit=12):
    """small structural diff of two dumps -> list of paths that differ"""
    if out is None:
        out = []
    if len(out) >= limit:
        return out
    if type(a) is not type(b):
        out.append(path + ": type %s vs %s" % (type(a).__name__, type(b).__name__))
    elif isinstance(a, dict):
        for k in sorted(set(a) | set(b), key=str):
            if k not in a:
                out.append("%s/%s: only in second" % (path, k))
            elif k not in b:
                out.append("%s/%s: only in first" % (path, k))
            else:
                diff(a[k], b[k], "%s/%s" % (path, k), out, limit)
    elif isinstance(a, list):
        if a != b:
            if len(a) != len(b) or not a or not isinstance(a[0], (dict, list)):
                sa = [json.dumps(x, sort_keys=True, default=str) for x in a]
                sb = [json.dumps(x, sort_keys=True, default=str) for x in b]
                only_a = [x for x in sa if x not in sb][:3]
                only_b = [x for x in sb if x not in sa][:3]
                out.append("%s: -%s +%s" % (path, only_a, only_b))
            else:
                for i, (x, y) in enumerate(zip(a, b)):
                    diff(x, y, "%s[%d]" % (path, i), out, limit)
    elif a != b:
        out.append("%s: %r vs %r" % (path, a, b))
    return out
