"""
History explorer over *sequences of rewrites*: every transition is one real
RewritingContext.apply() with a single modification on the IR left by the
previous one.  Before each step the real IR is abstracted back into a listing
spec (alpha), the reference model is applied to that spec, and the observed
result is compared - i.e. one-step conformance from every reachable state,
including the non-initial ones (split blocks, zero-sized leftovers, temp
symbols, re-joined intervals).
"""
import collections
import json

import gtirb
import gtirb_functions

from . import compare as C
from . import listing as Lg
from .run import ASPECTS, branch_into_data, exc_diff, is_documented_refusal, label_roles

SHORT = {".text": "t", ".data": "d", ".rodata": "r"}


def abstract(w):
    """alpha: real IR -> derived spec; also refreshes w.blocks / w.spec."""
    m = w.m
    isa_ = w.isa
    base = w.spec
    spec = {
        "target": base["target"],
        "pie": base.get("pie", False),
        "functions": base.get("functions", True),
        "derived": True,
        "sections": [],
    }
    fnames = m.aux_data["functionNames"].data
    fblocks = m.aux_data["functionBlocks"].data
    fentries = m.aux_data["functionEntries"].data
    func_of, entry = {}, set()
    for u, bs in fblocks.items():
        nm = fnames[u].name if u in fnames else "?"
        nm = nm[2:] if nm.startswith("F_") else nm
        for b in bs:
            func_of[b] = nm
        for b in fentries.get(u, ()):
            entry.add(b)
    refs = collections.defaultdict(list)
    ext = []
    for s in m.symbols:
        if isinstance(s.referent, gtirb.ByteBlock):
            refs[s.referent].append(s)
        elif isinstance(s.referent, gtirb.ProxyBlock):
            ext.append(s.name)
    spec["ext"] = sorted(ext)
    blocks = {}
    secnames = [s["name"] for s in base["sections"]]
    for sect in sorted(m.sections, key=lambda s: (secnames.index(s.name) if s.name in secnames else 99, s.name)):
        lay, data = Lg.section_layout(sect)
        items = []
        for bi, p in lay:
            for blk in bi.blocks:
                items.append((p + blk.offset, blk.size != 0, 0 if isinstance(blk, gtirb.CodeBlock) else 1, blk, bi))
        items.sort(key=lambda x: x[:3])
        bl = []
        for i, (pos, _, _, blk, bi) in enumerate(items):
            name = "%s%d" % (SHORT.get(sect.name, sect.name), i)
            c = data[pos : pos + blk.size]

            def sym_at(o, bi=bi, blk=blk):
                e = bi.symbolic_expressions.get(blk.offset + o)
                return e.symbol.name if isinstance(e, gtirb.SymAddrConst) else None

            if isinstance(blk, gtirb.CodeBlock):
                ins = [list(x) for x in isa_.decode(c, sym_at)]
                kind = "c"
            else:
                ins = []
                o = 0
                while o < len(c):
                    sn = sym_at(o)
                    if sn is not None:
                        ins.append(["q", sn])
                        o += isa_.ptr
                    else:
                        ins.append(["d", c[o]])
                        o += 1
                kind = "d"
            b = {
                "n": name,
                "anon": True,
                "k": kind,
                "i": ins,
                "f": func_of.get(blk),
                "e": blk in entry,
                "ls": sorted(s.name for s in refs[blk] if not s.at_end),
                "le": sorted(s.name for s in refs[blk] if s.at_end),
            }
            bl.append(b)
            blocks[name] = blk
        spec["sections"].append({"name": sect.name, "blocks": bl})
    w.spec = spec
    w.blocks = blocks
    w.funcs = gtirb_functions.Function.build_functions(m) if spec["functions"] else []
    return spec


def canon(spec):
    return json.dumps(spec, sort_keys=True)


def atoms(spec, depth_idx):
    out = []
    tag = 100 + 16 * depth_idx
    for s in spec["sections"]:
        for b in s["blocks"]:
            n = len(b["i"])
            if n == 0:
                continue
            p = [["p", tag]] if b["k"] == "c" else {"bytes": [tag]}
            for k in sorted({0, 1 if n >= 2 else 0, n}):
                out.append({"op": "ins", "b": b["n"], "k": k, "p": p})
            out.append({"op": "del", "b": b["n"], "k": 0, "n": n})
            out.append({"op": "del", "b": b["n"], "k": 0, "n": n, "proxy": True})
            if n >= 2:
                out.append({"op": "del", "b": b["n"], "k": 0, "n": 1})
    return out


def n_first(spec0):
    w = Lg.build(spec0)
    return len(atoms(abstract(w), 0))


def step(w, mod, aspects, problem_kinds):
    """one transition on the real IR; returns (diffs, outcome)"""
    from gtirb_rewriting import RewritingContext

    spec = abstract(w)
    w.pre_specs = getattr(w, "pre_specs", []) + [spec]
    E, expect = Lg.expected(spec, [mod])
    E.label_roles = label_roles(spec, [mod])
    E.spec = spec
    ctx = RewritingContext(w.m, w.funcs)
    try:
        Lg.register(w, ctx, [mod])
        ctx.apply()
    except Exception as exc:
        if expect is not None and is_documented_refusal(exc):
            return [], "refused"
        if branch_into_data(E) and type(exc).__name__ == "UnsupportedAssemblyError" and "data blocks" in str(exc):
            return [], "refused"
        return [exc_diff(spec, [mod], exc)], "raised"
    O = Lg.observe(w)
    diffs = []
    for a in aspects:
        diffs.extend(ASPECTS[a](E, O))
    if problem_kinds:
        diffs.extend(C.structure_problems(O, set(problem_kinds)))
    return diffs, "ok"


def explore(spec0, max_depth, res, first, aspects, problem_kinds, name, extra_check=None):
    seen = set()
    frontier = collections.deque()
    w = Lg.build(spec0)
    a0 = atoms(abstract(w), 0)
    if first >= len(a0):
        return
    frontier.append(((a0[first],), canon(abstract(w))))
    while frontier:
        hist, want_pre = frontier.popleft()
        w = Lg.build(spec0)
        ok = True
        diverged = False
        for i, mod in enumerate(hist):
            if i == len(hist) - 1 and canon(abstract(w)) != want_pre:
                diverged = True  # the same history led somewhere else than when it was explored
                break
            diffs, outcome = step(w, mod, aspects, problem_kinds)
            if i < len(hist) - 1 and (diffs or outcome != "ok"):
                raise RuntimeError("divergence replaying prefix %r: %r" % (hist[: i + 1], diffs))
        if diverged:
            from . import scen

            pre = w.pre_specs[-1] if getattr(w, "pre_specs", None) else spec0
            d = C.D("history-not-reproducible", r_shape=scen.zero_block_role(pre, [hist[-2]] if len(hist) > 1 else []),
                    r_depth="later-rewrite", step=len(hist) - 2)
            res.bad({"spec": spec0, "history": list(hist[:-1]), "chain": name, "diverged": True}, [d])
            res.case((name, hist, "diverged"), outcome="diverged")
            res.transitions += 1
            continue
        res.transitions += 1
        res.traces += 1
        if extra_check is not None and outcome == "ok" and not diffs:
            diffs = extra_check(w)
        if diffs:
            for d in diffs:
                d["r_depth"] = "first-rewrite" if len(hist) == 1 else "later-rewrite"
            res.bad({"spec": spec0, "history": list(hist), "chain": name}, diffs)
            res.case((name, hist), outcome="diff")
            continue
        if outcome != "ok":
            res.case((name, hist), outcome=outcome)
            continue
        sp = abstract(w)
        k = canon(sp)
        res.case((name, k), outcome="ok")
        if k in seen:
            continue
        seen.add(k)
        res.states += 1
        from . import scen as _scen

        pre_last = w.pre_specs[-1] if getattr(w, "pre_specs", None) else spec0
        if _scen.zero_block_role(pre_last, [hist[-1]]) == "insertion-at-zero-sized-block":
            # F42: where the sizeless block ends up relative to the new bytes depends on set order, and the listing
            # abstraction cannot see it - the state is counted but nothing is built on top of it
            res.extra["chain_states_not_expanded_after_insertion_at_zero_sized_block"] += 1
            continue
        if len(hist) < max_depth:
            for a in atoms(sp, len(hist)):
                frontier.append((hist + (a,), k))
        res.sample({"chain": name, "history": list(hist)}, cap=1)
    if len(seen) == 0:
        res.states += 0


def replay(case, aspects, problem_kinds, extra_check=None):
    if case.get("diverged"):
        # the reported observation was "the same history led to two different modules"
        from . import scen

        finals = set()
        pre = None
        for _ in range(6):
            w = Lg.build(case["spec"])
            for mod in case["history"]:
                step(w, mod, aspects, problem_kinds)
            finals.add(canon(abstract(w)))
            pre = w.pre_specs[-1]
        if len(finals) > 1:
            return [C.D("history-not-reproducible", r_shape=scen.zero_block_role(pre, [case["history"][-1]]), r_depth="later-rewrite", step=len(case["history"]) - 1)]
        return []
    w = Lg.build(case["spec"])
    diffs = []
    for mod in case["history"]:
        diffs, outcome = step(w, mod, aspects, problem_kinds)
        if diffs:
            break
    if not diffs and extra_check is not None:
        diffs = extra_check(w)
    for d in diffs:
        d["r_depth"] = "first-rewrite" if len(case["history"]) == 1 else "later-rewrite"
    return diffs
