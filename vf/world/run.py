"""One scenario = build the real IR, register, apply(), observe, compare with the listing model."""
import traceback

from . import compare as C
from . import listing as Lg
from .scen import f18_pattern


def exc_diff(spec, mods, exc):
    tb = traceback.extract_tb(exc.__traceback__)
    where = "?"
    line = ""
    for fr in tb:
        if "/gtirb_rewriting/" in fr.filename:
            where = fr.name
            line = (fr.line or "")[:80]
    mods = Lg.expand_delfunc(spec, mods)
    pat = "mod-at-end-of-emptied-block" if f18_pattern(spec, [m for m in mods if m["op"] != "scope"]) else "other"
    ends_in_call = any(
        m["op"] in ("ins", "rep") and isinstance(m["p"], list) and [t for t in m["p"] if t[0] not in ("lab", "cfi")][-1:]
        and [t for t in m["p"] if t[0] not in ("lab", "cfi")][-1][0] in ("call", "icall")
        for m in mods
    )
    return C.D(
        "apply-raised",
        r_exc=type(exc).__name__,
        r_where=where,
        r_pattern=pat,
        r_patch_ends_in_call=ends_in_call,
        msg=str(exc)[:160],
        line=line,
    )


def branch_into_data(E):
    roles = getattr(E, "label_roles", None) or {}
    for key, rec in E.insns.items():
        if rec["uid"][0] == "patch" and rec["ins"][0] in ("jmp", "jcc", "call", "callplt"):
            tgt = E.labels.get(rec["ins"][1])
            if isinstance(tgt, tuple) and (tgt not in E.insns or E.insns[tgt]["bk"] != "c"):
                return True
            # the label sits on a data block of the input (even if a later deletion of this very
            # request makes it slide onto code)
            if roles.get(rec["ins"][1], {}).get("r_owner_kind") == "d":
                return True
    return False


def is_documented_refusal(exc):
    return isinstance(exc, AssertionError) and "modifications overlap" in str(exc)


def label_roles(spec, mods):
    """Role description of every label for discrepancy signatures (never used by the oracle)."""
    nins = {}
    edits = {}
    order = []
    for s in spec["sections"]:
        for b in s["blocks"]:
            nins[b["n"]] = len(b["i"])
            order.append(b)
    for m in Lg.expand_delfunc(spec, mods):
        if m["op"] == "scope":
            continue
        n = nins[m["b"]]
        e = edits.setdefault(m["b"], set())
        if m["op"] == "ins":
            e.add("ins")
        else:
            k, c = m["k"], m.get("n", 0)
            if k == 0 and c == n:
                e.add("whole-proxy" if m.get("proxy") else "whole")
            else:
                if k == 0:
                    e.add("head")
                if k + c == n:
                    e.add("tail")
                if k > 0 and k + c < n:
                    e.add("mid")
    splitting = ("jmp", "jcc", "call", "ret", "ijmp", "icall", "lab", "callplt", "syscall")
    barrier = {m["b"] for m in mods if m["op"] in ("ins", "rep") and isinstance(m.get("p"), list) and any(t[0] in splitting for t in m["p"])}
    roles = {}
    for i, b in enumerate(order):
        nxt = order[i + 1]["n"] if i + 1 < len(order) else None
        base = {
            "r_owner_func": bool(b.get("f")) and spec.get("functions", True),
            "r_owner_kind": b["k"],
            "r_owner_head_deleted": "head" in edits.get(b["n"], ()),
            "r_owner_tail_deleted": "tail" in edits.get(b["n"], ()),
            "r_owner_whole_deleted": bool({"whole", "whole-proxy"} & edits.get(b["n"], set())),
            "r_next_proxied": nxt is not None and "whole-proxy" in edits.get(nxt, ()),
            "r_owner_unjoinable_patch": b["n"] in barrier,
        }
        for L in Lg.start_labels(b):
            roles[L] = dict(base, r_label="start")
        if Lg.func_label(b):
            roles[Lg.func_label(b)] = dict(base, r_label="start")
        for L in b.get("le", ()):
            roles[L] = dict(base, r_label="at_end")
    return roles


ASPECTS = {
    "bytes": lambda E, O: C.bytes_diffs(E, O),
    "labels": lambda E, O: C.label_diffs(E, O, roles=getattr(E, "label_roles", None)),
    "edges": lambda E, O: C.edge_diffs(E, O, getattr(E, "spec", None)),
    "functions": lambda E, O: C.function_diffs(E, O) + C.functable_diffs(E, O),
    "symexprs": lambda E, O: C.symexpr_diffs(E, O),
    "ann": lambda E, O: C.ann_diffs(E, O),
}


def run_scenario(spec, mods, aspects, problem_kinds=(), want_world=False):
    """-> (outcome string, diffs, world, expected listing, observed listing)"""
    E, expect = Lg.expected(spec, mods)
    E.label_roles = label_roles(spec, mods)
    E.spec = spec
    E.deleted_functions = {m["f"] for m in mods if m["op"] == "delfunc"}
    w, exc = Lg.rewrite(spec, mods)
    if exc is not None:
        if expect is not None and is_documented_refusal(exc):
            return "refused-as-documented", [], w, E, None
        if branch_into_data(E) and type(exc).__name__ == "UnsupportedAssemblyError" and "data blocks" in str(exc):
            # a patch branches to / calls a label that (after the deletions of this very request)
            # designates data or the end of the section: refusing that is documented behaviour
            return "refused-branch-into-data", [], w, E, None
        return "raised:" + type(exc).__name__, [exc_diff(spec, mods, exc)], w, E, None
    O = Lg.observe(w)
    diffs = []
    for a in aspects:
        diffs.extend(ASPECTS[a](E, O))
    probs = C.structure_problems(O, set(problem_kinds) if problem_kinds else None) if problem_kinds != () else []
    for pr in probs:
        if pr["kind"] == "control-transfer-buried-in-block":
            pr["r_cause"] = "+".join(C.ret_causes(E, spec))
    diffs.extend(probs)
    outcome = "ok" if not diffs else "diff:" + ",".join(sorted({d["kind"] for d in diffs}))
    if expect is not None:
        outcome = "accepted-overlap;" + outcome
    return outcome, diffs, w, E, O
