"""One scenario = build the real IR, register, apply(), observe, compare with the listing model."""
import traceback

from . import compare as C
from . import listing as Lg
from .scen import f18_pattern


def exc_diff(spec, mods, exc):
    tb = traceback.extract_tb(exc.__traceback__)
    where = "?"
    line = ""
    for fr in tb:
        if "/gtirb_rewriting/" in fr.filename:
            where = fr.name
            line = (fr.line or "")[:80]
    pat = "mod-at-end-of-emptied-block" if f18_pattern(spec, mods) else "other"
    return C.D(
        "apply-raised",
        r_exc=type(exc).__name__,
        r_where=where,
        r_pattern=pat,
        msg=str(exc)[:160],
        line=line,
    )


def is_documented_refusal(exc):
    return isinstance(exc, AssertionError) and "modifications overlap" in str(exc)


ASPECTS = {
    "bytes": lambda E, O: C.bytes_diffs(E, O),
    "labels": lambda E, O: C.label_diffs(E, O),
    "edges": lambda E, O: C.edge_diffs(E, O),
    "functions": lambda E, O: C.function_diffs(E, O),
    "symexprs": lambda E, O: C.symexpr_diffs(E, O),
    "ann": lambda E, O: C.ann_diffs(E, O),
}


def run_scenario(spec, mods, aspects, problem_kinds=(), want_world=False):
    """-> (outcome string, diffs, world, expected listing, observed listing)"""
    E, expect = Lg.expected(spec, mods)
    w, exc = Lg.rewrite(spec, mods)
    if exc is not None:
        if expect is not None and is_documented_refusal(exc):
            return "refused-as-documented", [], w, E, None
        return "raised:" + type(exc).__name__, [exc_diff(spec, mods, exc)], w, E, None
    O = Lg.observe(w)
    diffs = []
    for a in aspects:
        diffs.extend(ASPECTS[a](E, O))
    diffs.extend(C.structure_problems(O, set(problem_kinds) if problem_kinds else None) if problem_kinds != () else [])
    outcome = "ok" if not diffs else "diff:" + ",".join(sorted({d["kind"] for d in diffs}))
    if expect is not None:
        outcome = "accepted-overlap;" + outcome
    return outcome, diffs, w, E, O
