"""
Per-ISA instruction tables of the listing world.

An instruction is a tuple (kind, arg):
    ("o", t)     ordinary original instruction carrying tag t   (x64: movb $t,%al)
    ("p", t)     ordinary patch instruction carrying tag t      (x64: movb $t,%bl)
    ("jmp", L) ("jcc", L) ("call", L)   direct transfers to label L
    ("ret",) ("ijmp",) ("icall",)       return / indirect transfers
    ("lea", L)   code reference to L (data reference from code)
    ("d", v)     one data byte v
    ("q", L)     pointer-sized data word holding the address of L
    ("nop",)     the ABI's nop (only appears as alignment padding)

The byte encodings are typed in here and validated against capstone by
selfcheck(); they are NOT taken from gtirb_rewriting.Assembler, so expected
patch bytes are independent of the code under test.  Direct jumps to symbols
use the short form because that is what an assembler emits before relaxation
(DESIGN.md 3.1).
"""
import capstone
import gtirb


class Isa:
    name = "?"
    ptr = 8

    def enc(self, ins):
        """-> (bytes, None | (offset_in_insn, size, label))"""
        raise NotImplementedError

    def asm(self, ins):
        raise NotImplementedError

    def falls(self, ins):
        return ins[0] in ("o", "p", "jcc", "call", "icall", "lea", "nop", "leaa", "callplt", "push", "pop", "syscall", "cmpm")

    def is_cti(self, ins):
        return ins[0] in ("jmp", "jcc", "call", "ret", "ijmp", "icall", "callplt", "syscall")

    def size(self, ins):
        return len(self.enc(ins)[0])


class X64(Isa):
    name = "x64"
    ptr = 8
    gt_isa = gtirb.Module.ISA.X64
    cs_args = (capstone.CS_ARCH_X86, capstone.CS_MODE_64)
    nop = b"\x90"

    def enc(self, ins):
        k = ins[0]
        if k == "o":
            return bytes([0xB0, ins[1]]), None
        if k == "p":
            return bytes([0xB3, ins[1]]), None
        if k == "jmp":
            return b"\xeb\x00", (1, 1, ins[1])
        if k == "jcc":
            return b"\x74\x00", (1, 1, ins[1])
        if k == "call":
            return b"\xe8\x00\x00\x00\x00", (1, 4, ins[1])
        if k == "ret":
            return b"\xc3", None
        if k == "ijmp":
            return b"\xff\xe0", None
        if k == "icall":
            return b"\xff\xd0", None
        if k == "lea":
            return b"\x48\x8d\x05\x00\x00\x00\x00", (3, 4, ins[1])
        if k == "syscall":
            return b"\x0f\x05", None
        if k == "push":
            return b"\x53", None  # push %rbx
        if k == "pop":
            return b"\x5b", None  # pop %rbx
        if k == "leaa":  # lea with addend: ("leaa", L, addend)
            return b"\x48\x8d\x05\x00\x00\x00\x00", (3, 4, ins[1], ins[2], ())
        if k == "callplt":
            return b"\xe8\x00\x00\x00\x00", (1, 4, ins[1], 0, ("PLT",))
        if k == "cmpm":  # pc-relative memory operand FOLLOWED by an immediate: ("cmpm", L, addend) = cmpl $1, L+addend(%rip)
            return b"\x83\x3d\x00\x00\x00\x00\x01", (2, 4, ins[1], ins[2] if len(ins) > 2 else 0, ())
        if k == "qa":  # data word with addend
            return b"\x00" * 8, (0, 8, ins[1], ins[2], ())
        if k == "d":
            return bytes([ins[1]]), None
        if k == "q":
            return b"\x00" * 8, (0, 8, ins[1])
        if k == "nop":
            return b"\x90", None
        raise ValueError(ins)

    def asm(self, ins):
        k = ins[0]
        if k == "nop":
            return "nop"
        if k == "syscall":
            return "syscall"
        if k == "push":
            return "pushq %rbx" if self.ptr == 8 else "pushl %ebx"
        if k == "pop":
            return "popq %rbx" if self.ptr == 8 else "popl %ebx"
        if k == "leaa":
            return "leaq %s%+d(%%rip), %%rax" % (ins[1], ins[2])
        if k == "callplt":
            return "call %s@PLT" % ins[1]
        if k == "cmpm":
            return "cmpl $1, %s%s(%%rip)" % (ins[1], ("%+d" % ins[2]) if len(ins) > 2 and ins[2] else "")
        if k == "qa":
            return ".quad %s%+d" % (ins[1], ins[2])
        if k == "o":
            return "movb $%d, %%al" % ins[1]
        if k == "p":
            return "movb $%d, %%bl" % ins[1]
        if k == "jmp":
            return "jmp %s" % ins[1]
        if k == "jcc":
            return "je %s" % ins[1]
        if k == "call":
            return "call %s" % ins[1]
        if k == "ret":
            return "ret"
        if k == "ijmp":
            return "jmp *%rax"
        if k == "icall":
            return "call *%rax"
        if k == "lea":
            return "leaq %s(%%rip), %%rax" % ins[1]
        if k == "d":
            return ".byte %d" % ins[1]
        if k == "q":
            return ".quad %s" % ins[1]
        if k == "lab":
            return "%s:" % ins[1]
        raise ValueError(ins)

    # what capstone must print for each kind (selfcheck + observation)
    MNEMONIC = {
        "o": "mov", "p": "mov", "jmp": "jmp", "jcc": "je", "call": "call", "ret": "ret",
        "ijmp": "jmp", "icall": "call", "lea": "lea", "nop": "nop",
    }


class IA32(X64):
    name = "ia32"
    ptr = 4
    gt_isa = gtirb.Module.ISA.IA32
    cs_args = (capstone.CS_ARCH_X86, capstone.CS_MODE_32)

    def enc(self, ins):
        k = ins[0]
        if k == "lea":
            return b"\x8d\x05\x00\x00\x00\x00", (2, 4, ins[1])  # lea eax, [L]
        if k == "q":
            return b"\x00" * 4, (0, 4, ins[1])
        return X64.enc(self, ins)

    def asm(self, ins):
        k = ins[0]
        if k == "ijmp":
            return "jmp *%eax"
        if k == "icall":
            return "call *%eax"
        if k == "lea":
            return "leal %s, %%eax" % ins[1]
        if k == "q":
            return ".long %s" % ins[1]
        return X64.asm(self, ins)


class ARM64(Isa):
    name = "arm64"
    ptr = 8
    gt_isa = gtirb.Module.ISA.ARM64
    cs_args = (capstone.CS_ARCH_ARM64, capstone.CS_MODE_ARM)
    nop = b"\x1f\x20\x03\xd5"

    def _w(self, v):
        return v.to_bytes(4, "little")

    def enc(self, ins):
        k = ins[0]
        if k == "o":
            return self._w(0x52800000 | (ins[1] << 5) | 0), None  # movz w0,#t
        if k == "p":
            return self._w(0x52800000 | (ins[1] << 5) | 9), None  # movz w9,#t
        if k == "jmp":
            return self._w(0x14000000), (0, 4, ins[1])
        if k == "jcc":
            return self._w(0x54000000), (0, 4, ins[1])  # b.eq
        if k == "call":
            return self._w(0x94000000), (0, 4, ins[1])
        if k == "ret":
            return self._w(0xD65F03C0), None
        if k == "adrp":  # adrp x9, L(+addend)
            return self._w(0x90000009), (0, 4, ins[1], ins[2] if len(ins) > 2 else 0, ())
        if k == "addlo12":  # add x9, x9, :lo12:L(+addend)
            return self._w(0x91000129), (0, 4, ins[1], ins[2] if len(ins) > 2 else 0, ("LO12",))
        if k == "ijmp":
            return self._w(0xD61F0000), None  # br x0
        if k == "icall":
            return self._w(0xD63F0000), None  # blr x0
        if k == "d":
            return bytes([ins[1]]), None
        if k == "q":
            return b"\x00" * 8, (0, 8, ins[1])
        if k == "nop":
            return self.nop, None
        raise ValueError(ins)

    def asm(self, ins):
        k = ins[0]
        if k == "o":
            return "mov w0, #%d" % ins[1]
        if k == "p":
            return "mov w9, #%d" % ins[1]
        if k == "jmp":
            return "b %s" % ins[1]
        if k == "jcc":
            return "b.eq %s" % ins[1]
        if k == "call":
            return "bl %s" % ins[1]
        if k == "ret":
            return "ret"
        if k == "adrp":
            return "adrp x9, %s%s" % (ins[1], ("%+d" % ins[2]) if len(ins) > 2 and ins[2] else "")
        if k == "addlo12":
            return "add x9, x9, :lo12:%s%s" % (ins[1], ("%+d" % ins[2]) if len(ins) > 2 and ins[2] else "")
        if k == "ijmp":
            return "br x0"
        if k == "icall":
            return "blr x0"
        if k == "d":
            return ".byte %d" % ins[1]
        if k == "q":
            return ".quad %s" % ins[1]
        if k == "lab":
            return "%s:" % ins[1]
        raise ValueError(ins)

    MNEMONIC = {
        "o": "mov", "p": "mov", "jmp": "b", "jcc": "b.eq", "call": "bl", "ret": "ret",
        "ijmp": "br", "icall": "blr", "nop": "nop",
    }

    def falls(self, ins):
        return ins[0] in ("adrp", "addlo12") or Isa.falls(self, ins)


class MIPS32(Isa):
    """Only ordinary instructions and data (branch delay slots make 'the terminator is the
    last instruction' false; README calls MIPS support partial)."""

    name = "mips32"
    ptr = 4
    gt_isa = gtirb.Module.ISA.MIPS32
    cs_args = (capstone.CS_ARCH_MIPS, capstone.CS_MODE_MIPS32 | capstone.CS_MODE_BIG_ENDIAN)
    nop = b"\x00\x00\x00\x00"

    def enc(self, ins):
        k = ins[0]
        if k == "o":
            return (0x24080000 | ins[1]).to_bytes(4, "big"), None  # addiu $t0,$zero,t
        if k == "p":
            return (0x24090000 | ins[1]).to_bytes(4, "big"), None  # addiu $t1,$zero,t
        if k == "d":
            return bytes([ins[1]]), None
        if k == "nop":
            return self.nop, None
        raise ValueError(ins)

    def asm(self, ins):
        k = ins[0]
        if k == "o":
            return "addiu $t0, $zero, %d" % ins[1]
        if k == "p":
            return "addiu $t1, $zero, %d" % ins[1]
        if k == "d":
            return ".byte %d" % ins[1]
        if k == "lab":
            return "%s:" % ins[1]
        raise ValueError(ins)

    MNEMONIC = {"o": "addiu", "p": "addiu", "nop": "nop"}


def decode_x64(isa, data, sym_at):
    """table decode of a code block built from this alphabet -> [ins]; sym_at(off) -> label name | None"""
    out = []
    i = 0
    n = len(data)
    while i < n:
        c = data[i]
        if c == 0xB0:
            out.append(("o", data[i + 1])); i += 2
        elif c == 0xB3:
            out.append(("p", data[i + 1])); i += 2
        elif c == 0xEB:
            out.append(("jmp", sym_at(i + 1))); i += 2
        elif c == 0x74:
            out.append(("jcc", sym_at(i + 1))); i += 2
        elif c == 0xE8:
            out.append(("call", sym_at(i + 1))); i += 5
        elif c == 0xC3:
            out.append(("ret",)); i += 1
        elif c == 0xFF and data[i + 1] == 0xE0:
            out.append(("ijmp",)); i += 2
        elif c == 0xFF and data[i + 1] == 0xD0:
            out.append(("icall",)); i += 2
        elif c == 0x48 and data[i + 1 : i + 3] == b"\x8d\x05":
            out.append(("lea", sym_at(i + 3))); i += 7
        elif c == 0x8D and data[i + 1] == 0x05 and isa.name == "ia32":
            out.append(("lea", sym_at(i + 2))); i += 6
        elif c == 0x83 and data[i + 1] == 0x3D:
            out.append(("cmpm", sym_at(i + 2))); i += 7
        elif c == 0x90:
            out.append(("nop",)); i += 1
        elif c == 0x0F and data[i + 1] == 0x05:
            out.append(("syscall",)); i += 2
        elif c == 0x53:
            out.append(("push",)); i += 1
        elif c == 0x5B:
            out.append(("pop",)); i += 1
        else:
            raise ValueError("cannot table-decode byte %#x at %d of %s" % (c, i, data.hex()))
    return out


X64.decode = decode_x64

FF = gtirb.Module.FileFormat
TARGETS = {
    "x64-elf": (X64(), FF.ELF),
    "x64-pe": (X64(), FF.PE),
    "ia32-pe": (IA32(), FF.PE),
    "arm64-elf": (ARM64(), FF.ELF),
    "mips32-elf": (MIPS32(), FF.ELF),
}

_CS = {}


def cs_for(isa):
    if isa.name not in _CS:
        c = capstone.Cs(*isa.cs_args)
        c.detail = True
        _CS[isa.name] = c
    return _CS[isa.name]


def classify(isa, insn):
    """kind of a capstone instruction as the observation sees it (independent of the tables)."""
    g = insn.groups
    is_ret = capstone.CS_GRP_RET in g
    is_call = capstone.CS_GRP_CALL in g
    is_jump = capstone.CS_GRP_JUMP in g
    m = insn.mnemonic
    if isa.name == "arm64":
        is_ret = m == "ret"
        is_call = m in ("bl", "blr")
        is_jump = m in ("b", "br") or m.startswith("b.")
    return is_jump, is_call, is_ret


def selfcheck():
    for tname, (isa, _) in TARGETS.items():
        cs = cs_for(isa)
        kinds = [("o", 7), ("p", 9), ("jmp", "L"), ("jcc", "L"), ("call", "L"), ("ret",), ("ijmp",), ("icall",), ("lea", "L"), ("nop",)]
        for ins in kinds:
            if ins[0] not in isa.MNEMONIC:
                continue
            b, sx = isa.enc(ins)
            dec = list(cs.disasm(b, 0x1000))
            assert len(dec) == 1 and dec[0].size == len(b), (tname, ins, b.hex())
            assert dec[0].mnemonic == isa.MNEMONIC[ins[0]], (tname, ins, dec[0].mnemonic)
            j, c, r = classify(isa, dec[0])
            assert j == (ins[0] in ("jmp", "jcc", "ijmp")), (tname, ins)
            assert c == (ins[0] in ("call", "icall")), (tname, ins)
            assert r == (ins[0] == "ret"), (tname, ins)
            if ins[0] in ("o", "p"):
                assert ("%#x" % ins[1]) in dec[0].op_str or str(ins[1]) in dec[0].op_str, (tname, dec[0].op_str)
        if isa.name == "x64":
            (d,) = list(cs.disasm(isa.enc(("cmpm", "L"))[0], 0x1000))
            assert d.mnemonic == "cmp" and d.size == 7 and d.disp_offset == 2 and d.disp_size == 4 and d.imm_offset == 6, d.op_str
    return True
