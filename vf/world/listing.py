"""
The listing world: Program spec (plain JSON) -> real gtirb IR; reference
semantics of insert/replace/delete as list edits of the listing; observation
of a real IR flattened to the same shape.

Spec
----
{"target": "x64-elf", "pie": false, "ext": ["ext"], "functions": true,
 "sections": [{"name": ".text", "part": "one"|"each", "blocks": [BLOCK...]}]}
BLOCK = {"n": name (also its start label), "k": "c"|"d", "i": [INS...],
         "f": function id | null, "e": is-entry, "ls": [more start labels],
         "le": [at_end labels], "al": alignment | null,
         "cfi": {boundary: [[directive, [ints], symbol|null], ...]},
         "ann": {byte offset: {"comment": str, "padding": int}}}
MOD   = {"op": "ins"|"rep"|"del", "b": block, "k": insn index (boundary),
         "n": number of instructions replaced/deleted, "proxy": bool,
         "p": [PATCH TOKEN...] | {"bytes": [..]}}     (list order = registration order)
PATCH TOKEN = INS | ["lab", name] | ["cfi", directive, [ints]] | ["raw", "asm text"]
"""
import collections
import itertools

import capstone
import gtirb
import gtirb_functions
from gtirb_test_helpers import (
    add_proxy_block,
    add_section,
    add_symbol,
    create_test_module,
)

from . import isa as isamod

ET = gtirb.Edge.Type
SEC_BASE = {".text": 0x10000, ".data": 0x80000, ".rodata": 0xC0000}
SEC_FLAGS = {
    ".text": {gtirb.Section.Flag.Readable, gtirb.Section.Flag.Executable, gtirb.Section.Flag.Loaded, gtirb.Section.Flag.Initialized},
    ".data": {gtirb.Section.Flag.Readable, gtirb.Section.Flag.Writable, gtirb.Section.Flag.Loaded, gtirb.Section.Flag.Initialized},
    ".rodata": {gtirb.Section.Flag.Readable, gtirb.Section.Flag.Loaded, gtirb.Section.Flag.Initialized},
}
EACH_GAP = 0x400


def T(x):
    """json lists -> tuples (instructions)"""
    return tuple(x) if isinstance(x, (list, tuple)) else x


def all_blocks(spec):
    for s in spec["sections"]:
        for b in s["blocks"]:
            yield s, b


def block_of(spec, name):
    for s, b in all_blocks(spec):
        if b["n"] == name:
            return s, b
    raise KeyError(name)


def start_labels(b):
    ls = ([] if b.get("anon") else [b["n"]]) + list(b.get("ls", ()))
    return ls


def func_label(b):
    if b.get("anon") or b.get("nofl"):
        return None  # derived specs list the function symbol among the ordinary labels
    return fsym_name(b["f"]) if b.get("f") and b.get("e") and b["k"] == "c" else None


def fsym_name(f):
    """name of the function symbol of function id f ('main' keeps its name for MAIN_NAME filters)"""
    return f if f == "main" else "F_" + f


# =============================================================================
# reference listing (tokens)


def tokens_of(spec):
    """section name -> token list of the unedited listing"""
    out = collections.OrderedDict()
    for s in spec["sections"]:
        toks = []
        for b in s["blocks"]:
            f = b.get("f") if (b["k"] == "c" and spec.get("functions", True)) else None
            toks.append({"t": "blk", "b": b["n"], "k": b["k"], "f": f, "al": b.get("al"), "e": bool(b.get("e")) and f is not None})
            for L in start_labels(b):
                toks.append({"t": "lab", "n": L, "own": b["n"], "end": False})
            fl = func_label(b)
            if fl and spec.get("functions", True):
                toks.append({"t": "lab", "n": fl, "own": b["n"], "end": False})
            cfi = b.get("cfi") or {}
            ann = b.get("ann") or {}
            n = len(b["i"])
            off = 0
            isa_ = isamod.TARGETS[spec["target"]][0]
            for k in range(n + 1):
                ds = [T(d) for d in cfi.get(str(k), ())]
                keep = list(itertools.takewhile(lambda d: d[0] != ".cfi_endproc", ds))
                move = ds[len(keep):]
                if keep:
                    toks.append({"t": "cfi", "d": keep, "b": b["n"], "k": k, "part": "keep"})
                toks.append({"t": "slot", "b": b["n"], "k": k})
                if move:
                    toks.append({"t": "cfi", "d": move, "b": b["n"], "k": k, "part": "move"})
                if k < n:
                    ins = T(b["i"][k])
                    sz = isa_.size(ins)
                    a = {}
                    for o in range(sz):
                        if str(off + o) in ann:
                            a[o] = {kk: vv for kk, vv in ann[str(off + o)].items() if kk != "key"}
                    toks.append({"t": "ins", "ins": ins, "uid": ("orig", b["n"], k), "f": f, "bk": b["k"], "ann": a, "blk": b["n"]})
                    off += sz
            for L in b.get("le", ()):
                toks.append({"t": "lab", "n": L, "own": b["n"], "end": True})
        out[s["name"]] = toks
    return out


def patch_tokens(isa_, patch, mid, func, bk, suffix=None):
    """Reference expansion of a patch into listing tokens.  Temp labels (.L*) get the
    caller's unique suffix; which suffix the library picks is checked separately (C13) -
    here the label is matched by a wildcard name '<name>_?' resolved at comparison time."""
    toks = []
    if isinstance(patch, dict):
        for j, v in enumerate(patch["bytes"]):
            toks.append({"t": "ins", "ins": ("d", v), "uid": ("patch", mid, j), "f": None, "bk": "d", "ann": {}, "blk": None})
        return toks
    j = 0

    def tl(name):
        # temporary labels are private to one patch invocation
        return "%s@%d" % (name, mid) if isinstance(name, str) and name.startswith(".L") else name

    for pt in patch:
        pt = T(pt)
        if len(pt) >= 2 and pt[0] in ("jmp", "jcc", "call", "lea", "q", "lab", "leaa", "callplt", "qa", "adrp", "addlo12", "cmpm"):
            pt = (pt[0], tl(pt[1])) + tuple(pt[2:])
        if pt[0] == "lab":
            toks.append({"t": "lab", "n": pt[1], "own": ("patch", mid), "end": False, "patch": mid})
        elif pt[0] == "cfi":
            toks.append({"t": "cfi", "d": [(pt[1], tuple(pt[2]), None)], "b": ("patch", mid), "k": j, "part": "patch"})
        elif pt[0] == "raw":
            raise ValueError("raw patch text has no reference expansion")
        elif pt[0] == "side":
            # contents the patch brings for a section of its own (SIDE_TEXT): no part of the text it is inserted into
            toks.append({"t": "side", "patch": mid})
        else:
            kind = "d" if pt[0] in ("d", "q") else "c"
            toks.append({"t": "ins", "ins": pt, "uid": ("patch", mid, j), "f": func if kind == "c" else None, "bk": kind if bk == "c" else "d", "ann": {}, "blk": None, "patch": mid})
            j += 1
    return toks


REQUIRED_CFI = (".cfi_startproc", ".cfi_endproc", ".cfi_remember_state", ".cfi_restore_state")


class Refusal(Exception):
    """The request set is one the library documents it refuses (DESIGN 3.1)."""


def apply_model(spec, mods):
    """-> (tokens per section after the edits, set of label names expected on a fresh proxy,
           expectation: None | ("refuse", reason))"""
    isa_ = isamod.TARGETS[spec["target"]][0]
    secs = tokens_of(spec)
    expect = None
    if any(m["op"] == "delfunc" for m in mods):
        mods = expand_delfunc(spec, mods)
    binfo = {b["n"]: (s["name"], b) for s, b in all_blocks(spec)}
    order = {b["n"]: i for i, (s, b) in enumerate(all_blocks(spec))}

    # ---- the documented refusal: an insertion registered after a deletion/replacement
    #      that starts at the same offset
    per_block = collections.defaultdict(list)
    for mid, m in expanded_for_refusal(spec, mods):
        per_block[m["b"]].append((m["k"], mid, m))
    for bn, lst in per_block.items():
        lst.sort(key=lambda x: (x[0], x[1]))
        last_end = 0
        for k, mid, m in lst:
            if k < last_end:
                expect = ("refuse", "modifications overlap")
            last_end = k + (m.get("n", 0) if m["op"] in ("rep", "del") else 0)

    # ---- scope registrations (AllBlocksScope ENTRY): one insertion at offset 0 of every code block,
    #      all with the registration id of the scope; invocation j (address order) carries tag base+j
    expanded = []
    for mid, m in enumerate(mods):
        if m["op"] == "scope":
            j = 0
            for s_, b_ in all_blocks(spec):
                if b_["k"] == "c":
                    expanded.append((mid, {"op": "ins", "b": b_["n"], "k": 0, "p": [["p", m["base"] + j]]}))
                    j += 1
        else:
            expanded.append((mid, m))
    # a patch whose get_asm returns None declines: "no insertion takes place".  A declined
    # replacement keeps the range it would have replaced (spec["declined_rep_deletes"] selects the
    # other reading, the statement does not say)
    def _declined(m):
        return m["op"] in ("ins", "rep") and isinstance(m.get("p"), list) and any(T(t)[0] == "none" for t in m["p"])

    mods = [
        ({"op": "del", "b": m["b"], "k": m["k"], "n": m["n"] if (m["op"] == "rep" and spec.get("declined_rep_deletes")) else 0} if _declined(m) else m)
        for m in mods
    ]
    expanded = [(mid, (mods[mid] if m is not None and m.get("op") != "scope" and "b" in m and mods[mid].get("b") == m.get("b") and _was_declined(mods[mid], m) else m)) for mid, m in expanded]
    # ---- insertions: fill slots in registration order
    for mid, m in expanded:
        if m["op"] not in ("ins", "rep"):
            continue
        sname, b = binfo[m["b"]]
        toks = secs[sname]
        f = b.get("f") if (b["k"] == "c" and spec.get("functions", True)) else None
        pt = patch_tokens(isa_, m["p"], mid, f, b["k"])
        nb = len(b["i"])
        noft = b["k"] == "c" and nb > 0 and not isa_.falls(T(b["i"][-1]))
        for t in pt:
            t["slot_end"] = m["k"] == nb
            t["blk_noft"] = noft
            t["slot_blk"] = m["b"]
        for p, t in enumerate(toks):
            if t["t"] == "slot" and t["b"] == m["b"] and t["k"] == m["k"]:
                toks[p:p] = pt
                break
        else:
            raise ValueError("no slot for %r" % (m,))

    # ---- deletions, in address order
    input_empty = {b["n"] for s_ in spec["sections"] for b in s_["blocks"] if not b["i"]}
    proxied = set()
    wholly_deleted = set()
    dels = [(order[m["b"]], m["k"], mid, m) for mid, m in enumerate(mods) if m["op"] in ("rep", "del")]  # scope ops never delete
    dels.sort(key=lambda x: x[:3])
    deleted_count = collections.Counter()
    for _, k, mid, m in dels:
        sname, b = binfo[m["b"]]
        toks = secs[sname]
        n = m["n"]
        if n == 0 and len(b["i"]) != 0:
            continue
        idx = [p for p, t in enumerate(toks) if t["t"] == "ins" and t["uid"][0] == "orig" and t["uid"][1] == m["b"] and k <= t["uid"][2] < k + n]
        idx = [p for p in idx if not toks[p].get("dead")]
        if idx:
            lo, hi = idx[0], idx[-1]
            # CFI directives strictly inside the range and the 'keep' part at its end describe
            # the deleted instructions (property C08); startproc/endproc/remember/restore stay.
            for p in idx:
                toks[p]["dead"] = "proxy" if m.get("proxy") else "del"
            for p in range(lo, len(toks)):
                t = toks[p]
                if t["t"] == "cfi" and t["b"] == m["b"]:
                    inside = k < t["k"] < k + n or (t["k"] == k + n and t["part"] == "keep") or (t["k"] == k and t["part"] == "move")
                    if inside:
                        keep_d = [d for d in t["d"] if d[0] in REQUIRED_CFI]
                        if keep_d:
                            t["d"] = keep_d  # never dropped (statement); they move to a neighbour
                            t["rehomed_by"] = mid
                        else:
                            t["dropped_by"] = mid
                if t["t"] == "slot" and t["b"] == m["b"] and t["k"] == k + n:
                    break
        deleted_count[m["b"]] += n
        whole = deleted_count[m["b"]] == len(b["i"]) and _emptied(toks, m["b"])
        if whole:
            if m.get("proxy"):
                # labels of the block, and labels that slid onto it, go to a fresh proxy
                first = next(p for p, t in enumerate(toks) if t["t"] == "slot" and t["b"] == m["b"] and t["k"] == 0)
                p = first - 1
                take = []
                while p >= 0 and not (toks[p]["t"] == "ins" and not toks[p].get("dead")):
                    t = toks[p]
                    if t["t"] == "lab" and (t["own"] == m["b"] or (_emptied(toks, t["own"]) and t["own"] not in input_empty)):
                        take.append(p)  # (a block that was zero-sized before this rewrite keeps its labels: nothing slid in this apply)
                    p -= 1
                for p2, t in enumerate(toks):
                    if t["t"] == "lab" and t["own"] == m["b"] and t["end"]:
                        take.append(p2)
                for p3 in take:
                    proxied.add(toks[p3]["n"])
                    toks[p3]["proxied"] = True
            wholly_deleted.add(m["b"])
    return secs, proxied, expect


def _emptied(toks, bname):
    """True when block `bname` has no byte left (neither original nor inserted): its labels
    have slid onto whatever follows."""
    inside = False
    for t in toks:
        if t["t"] == "blk":
            if inside:
                return True
            inside = t["b"] == bname
        elif inside and t["t"] == "ins" and not t.get("dead"):
            return False
    return inside


def _was_declined(new, old):
    return new is not old and new.get("op") == "del" and old.get("op") in ("ins", "rep")


def expand_delfunc(spec, mods):
    """RewritingContext.delete_function(f) = every block of f deleted with retarget_to_proxy"""
    out = []
    for m in mods:
        if m["op"] == "delfunc":
            for s_, b_ in all_blocks(spec):
                if b_["k"] == "c" and b_.get("f") == m["f"]:
                    out.append({"op": "del", "b": b_["n"], "k": 0, "n": len(b_["i"]), "proxy": True})
        else:
            out.append(m)
    return out


def expanded_for_refusal(spec, mods):
    for mid, m in enumerate(mods):
        if m["op"] == "scope":
            for s_, b_ in all_blocks(spec):
                if b_["k"] == "c":
                    yield mid, {"op": "ins", "b": b_["n"], "k": 0}
        else:
            yield mid, m


class Listing:
    """Flattened expectation / observation."""

    def __init__(self):
        self.bytes = {}  # section -> bytes
        self.labels = {}  # name -> (section, pos) | "proxy"
        self.insns = {}  # (section,pos) -> dict(ins=..., size, f=func, bk='c'|'d', uid)
        self.edges = set()  # ((sec,pos), type, cond, direct, target) target=(sec,pos)|"proxy"|"proxy:name"
        self.optional_ft = set()  # (sec,pos) whose fallthrough is unspecified
        self.symexprs = {}  # (sec,pos) -> (label, addend, size)
        self.ann = {}  # (sec,pos) -> {"comment":..,"padding":..}
        self.cfi = {}  # (sec,pos) -> [directive tuples]
        self.problems = []
        self.align = {}  # (sec,pos) -> alignment
        self.optional_edges = set()  # edges the listing leaves open (may be present or absent)
        self.func_entries = {}  # function -> {(sec,pos)} entry block positions
        self.func_entries_optional = {}  # ...positions that may or may not carry the entry role
        self.func_names = set()


def flatten(spec, secs, proxied):
    """token lists -> Listing (expected)."""
    isa_ = isamod.TARGETS[spec["target"]][0]
    L = Listing()
    ext = set(spec.get("ext", ()))
    # code blocks that are already zero-sized in the input (left by an earlier rewrite) stay what they are: a position that
    # belongs to a function without being an instruction
    empty_code = {b["n"]: b.get("f") for s in spec["sections"] for b in s["blocks"] if b["k"] == "c" and not b["i"]}
    zero_code = {}
    nside = 0
    for sname, toks in secs.items():
        pos = 0
        data = b""
        in_proc = False
        prev_kind = None
        for ti, t in enumerate(toks):
            if t.get("dead") or t.get("proxied"):
                continue
            if t["t"] == "blk" and t.get("b") in empty_code:
                zero_code[(sname, pos)] = empty_code[t["b"]]
            if t["t"] == "side":
                nside += 1
            if t["t"] == "ins":
                t["_key"] = (sname, pos)
                prev_kind = t["bk"]
            if t["t"] == "lab":
                L.labels[t["n"]] = (sname, pos)
            elif t["t"] == "blk" and t.get("al"):
                if spec.get("model_padding") and pos > 0 and not _emptied(toks, t["b"]):
                    # re-joining the per-block intervals pads with whole nops after code / zeros after
                    # data so that an aligned original block stays aligned (one interval per section)
                    padn = (-(SEC_BASE[sname] + pos)) % t["al"]
                    for _ in range(padn):
                        if prev_kind == "c":
                            L.insns[(sname, pos)] = {"ins": ("nop",), "size": 1, "f": None, "bk": "c", "uid": ("pad", sname, pos), "tok": ti}
                            data += isa_.nop
                            pos += len(isa_.nop)
                        else:
                            L.insns[(sname, pos)] = {"ins": ("d", 0), "size": 1, "f": None, "bk": "d", "uid": ("pad", sname, pos), "tok": ti}
                            data += b"\x00"
                            pos += 1
                L.align[(sname, pos)] = t["al"]
            elif t["t"] == "cfi":
                if t.get("dropped_by") is None:
                    if t.get("part") == "patch" and not in_proc:
                        continue  # a patch outside any CFI procedure cannot carry directives
                    L.cfi.setdefault((sname, pos), []).extend(t["d"])
                    for d in t["d"]:
                        if d[0] == ".cfi_startproc":
                            in_proc = True
                        elif d[0] == ".cfi_endproc":
                            in_proc = False
            elif t["t"] == "ins":
                b, sx = isa_.enc(t["ins"])
                L.insns[(sname, pos)] = {"ins": t["ins"], "size": len(b), "f": t["f"], "bk": t["bk"], "uid": t["uid"], "tok": ti}
                if sx:
                    attrs = tuple(sx[4]) if len(sx) > 4 else ()
                    if not attrs and spec.get("pie") and spec["target"].endswith("-elf") and spec["target"][:3] in ("x64", "ia3") \
                            and t["ins"][0] in ("jmp", "jcc", "call") and t["uid"][0] == "patch" and sx[2] in ext:
                        attrs = ("PLT",)  # what an assembler infers for a branch to an external symbol under PIE
                    size = sx[1]
                    if t["uid"][0] == "patch" and spec["target"].startswith(("arm64", "mips")):
                        size = None  # what the assembler records for a fixed-width fixup is C12's business
                    L.symexprs[(sname, pos + sx[0])] = (sx[2], sx[3] if len(sx) > 3 else 0, size, attrs)
                for o, a in t.get("ann", {}).items():
                    L.ann[(sname, pos + o)] = a
                data += b
                pos += len(b)
        L.bytes[sname] = data
        # ---- function entries: an entry block that lost all its bytes hands the role to the next
        #      block only if that is code of the same function (never when deleted to a proxy)
        regions = []
        p2 = 0
        for t in toks:
            if t["t"] == "blk":
                regions.append({"blk": t, "pos": p2, "live": 0, "proxy": False})
            elif t["t"] == "ins" and regions:
                if t.get("dead"):
                    if t["dead"] == "proxy" and t["uid"][0] == "orig":
                        regions[-1]["proxy"] = True
                else:
                    regions[-1]["live"] += 1
                    p2 += len(isa_.enc(t["ins"])[0])
        for i, r in enumerate(regions):
            f = r["blk"]["f"]
            if f and r["live"]:
                L.func_names.add(f)
            if not (r["blk"].get("e") and f):
                continue
            j = i
            across = False
            while j < len(regions) and not regions[j]["live"]:
                if regions[j]["proxy"]:
                    j = None
                    break
                nxt = regions[j + 1] if j + 1 < len(regions) else None
                # a neighbour that is itself wholly deleted (without proxy) is no part of the edited listing any more:
                # what counts is the first block behind it that still has bytes
                if nxt is not None and not nxt["live"] and not nxt["proxy"]:
                    if nxt["blk"]["k"] != "c" or nxt["blk"]["f"] != f:
                        across = True  # ...reached across deleted data / foreign code: the statement neither demands nor forbids it
                    j += 1
                    continue
                if nxt is None or nxt["blk"]["k"] != "c" or nxt["blk"]["f"] != f:
                    j = None
                    break
                j += 1
            if j is not None and j < len(regions):
                (L.func_entries_optional if across else L.func_entries).setdefault(f, set()).add((sname, regions[j]["pos"]))
    if nside:
        L.bytes[".vfside"] = SIDE_BYTES * nside
    for n in proxied:
        L.labels[n] = "proxy"
    for n in ext:
        L.labels[n] = "proxy"
    # ---- control flow
    order = sorted(L.insns)
    bysec = collections.defaultdict(list)
    for key in order:
        bysec[key[0]].append(key)

    def tgt(lab):
        v = L.labels.get(lab)
        if v == "proxy":
            return "proxy:" + lab
        return v

    func_at = {k: (v["f"], v["bk"]) for k, v in L.insns.items()}
    calls_to = collections.defaultdict(set)  # function -> return sites
    maybe_calls_to = collections.defaultdict(set)
    for sname, keys in bysec.items():
        for i, key in enumerate(keys):
            rec = L.insns[key]
            ins = rec["ins"]
            if rec["bk"] != "c":
                continue
            nxt = keys[i + 1] if i + 1 < len(keys) else None
            nxt_code = nxt is not None and L.insns[nxt]["bk"] == "c"
            if isa_.falls(ins):
                if nxt_code:
                    L.edges.add((key, "Fallthrough", False, True, nxt))
                else:
                    L.optional_ft.add(key)
            k = ins[0]
            if k == "jmp":
                L.edges.add((key, "Branch", False, True, tgt(ins[1])))
            elif k == "jcc":
                L.edges.add((key, "Branch", True, True, tgt(ins[1])))
            elif k == "call" or (k == "icall" and len(ins) > 1):
                # ("icall", L1, L2, ...): an indirect call whose possible callees the CFG knows (one Call edge per callee)
                for lab in ins[1:]:
                    tg = tgt(lab)
                    L.edges.add((key, "Call", False, k == "call", tg))
                    if isinstance(tg, tuple) and tg in zero_code and tg in func_at and func_at[tg][1] == "c":
                        # a zero-sized block of one function sits exactly where code of (possibly) another one starts: the
                        # listing cannot tell which of the two is called, so the returns of that code may or may not come back here
                        if func_at[tg][0] and nxt_code:
                            maybe_calls_to[func_at[tg][0]].add(nxt)
                    elif isinstance(tg, tuple) and tg in func_at and func_at[tg][1] == "c" and func_at[tg][0] and nxt_code:
                        calls_to[func_at[tg][0]].add(nxt)
                    elif isinstance(tg, tuple) and (tg not in func_at or func_at[tg][1] != "c") and zero_code.get(tg) and nxt_code:
                        calls_to[zero_code[tg]].add(nxt)  # the callee is a zero-sized block of that function with data / nothing behind it
            elif k == "ijmp":
                L.edges.add((key, "Branch", False, False, "proxy"))
            elif k == "icall":
                L.edges.add((key, "Call", False, False, "proxy"))
            elif k == "syscall":
                L.edges.add((key, "Syscall", False, False, "proxy"))
    for key in order:
        rec = L.insns[key]
        if rec["bk"] == "c" and rec["ins"][0] == "ret":
            sites = calls_to.get(rec["f"], ()) if rec["f"] else ()
            if sites:
                for s_ in sites:
                    L.edges.add((key, "Return", False, True, s_))
            else:
                L.edges.add((key, "Return", False, True, "proxy"))
            for s_ in (maybe_calls_to.get(rec["f"], ()) if rec["f"] else ()):
                L.optional_edges.add((key, "Return", False, True, s_))
                L.optional_edges.add((key, "Return", False, True, "proxy"))
    return L


def expected(spec, mods):
    secs, proxied, expect = apply_model(spec, mods)
    L = flatten(spec, secs, proxied)
    L.tokens = secs
    return L, expect


# =============================================================================
# building the real IR


class World:
    pass


def build(spec):
    isa_, ff = isamod.TARGETS[spec["target"]]
    w = World()
    w.spec = spec
    w.isa = isa_
    bo = gtirb.Module.ByteOrder.Big if isa_.name == "mips32" else None
    ir, m = create_test_module(ff, isa_.gt_isa, binary_type=["DYN"] if spec.get("pie") else None, byte_order=bo)
    w.ir, w.m = ir, m
    w.blocks = {}
    w.syms = {}
    w.secs = collections.OrderedDict()
    w.intervals = collections.OrderedDict()
    for e in spec.get("ext", ()):
        w.syms[e] = add_symbol(m, e, add_proxy_block(m))
    pending_sx = []
    for s in spec["sections"]:
        base = SEC_BASE[s["name"]]
        sect, bi = add_section(m, s["name"], base, SEC_FLAGS[s["name"]])
        w.secs[s["name"]] = sect
        part = s.get("part", "one")
        ivs = [bi]
        cur = bi
        for idx, b in enumerate(s["blocks"]):
            if part == "each" and idx > 0:
                cur = gtirb.ByteInterval(contents=b"", address=base + idx * EACH_GAP)
                cur.section = sect
                ivs.append(cur)
            elif isinstance(part, list) and idx in part:
                cur = gtirb.ByteInterval(contents=b"", address=base + idx * EACH_GAP)
                cur.section = sect
                ivs.append(cur)
            data = b""
            for ins in b["i"]:
                ins = T(ins)
                bs, sx = isa_.enc(ins)
                if sx:
                    pending_sx.append((cur, cur.size + len(data) + sx[0], sx[1], sx[2], sx[3] if len(sx) > 3 else 0, sx[4] if len(sx) > 4 else ()))
                data += bs
            cls = gtirb.CodeBlock if b["k"] == "c" else gtirb.DataBlock
            blk = cls(offset=cur.size, size=len(data))
            blk.byte_interval = cur
            cur.contents += data
            cur.size += len(data)
            w.blocks[b["n"]] = blk
            for L in start_labels(b):
                w.syms[L] = add_symbol(m, L, blk)
            for L in b.get("le", ()):
                sy = add_symbol(m, L, blk)
                sy.at_end = True
                w.syms[L] = sy
            if b.get("al"):
                m.aux_data["alignment"].data[blk] = b["al"]
            for off, a in (b.get("ann") or {}).items():
                # "key": "bi" -> keyed by byte interval instead of by block
                el, base_off = (cur, blk.offset) if a.get("key") == "bi" else (blk, 0)
                if "comment" in a:
                    m.aux_data["comments"].data[gtirb.Offset(el, base_off + int(off))] = a["comment"]
                if "padding" in a:
                    m.aux_data["padding"].data[gtirb.Offset(el, base_off + int(off))] = a["padding"]
        w.intervals[s["name"]] = ivs
    for bi, off, size, lab, addend, attrs in pending_sx:
        bi.symbolic_expressions[off] = gtirb.SymAddrConst(addend, w.syms[lab], {getattr(gtirb.SymbolicExpression.Attribute, a) for a in attrs})
        m.aux_data["symbolicExpressionSizes"].data[gtirb.Offset(bi, off)] = size
    # ---- functions
    if spec.get("functions", True):
        funcs = collections.OrderedDict()
        for s, b in all_blocks(spec):
            if b.get("f") and b["k"] == "c":
                funcs.setdefault(b["f"], []).append(b)
        for f, bl in funcs.items():
            ents = [b for b in bl if b.get("e")] or [bl[0]]
            u = gtirb.Node().uuid if False else __import__("uuid").uuid4()
            fsym = add_symbol(m, fsym_name(f), w.blocks[ents[0]["n"]])
            w.syms[fsym_name(f)] = fsym
            m.aux_data["functionEntries"].data[u] = {w.blocks[b["n"]] for b in ents}
            m.aux_data["functionBlocks"].data[u] = {w.blocks[b["n"]] for b in bl}
            m.aux_data["functionNames"].data[u] = fsym
    # ---- cfi
    for s, b in all_blocks(spec):
        cfi = b.get("cfi") or {}
        isz = [isa_.size(T(i)) for i in b["i"]]
        # "cfi_desc": the table receives this block's offsets in descending order (aux data need not be written in offset order)
        for k, ds in (sorted(cfi.items(), key=lambda kv: -int(kv[0])) if b.get("cfi_desc") else cfi.items()):
            off = sum(isz[: int(k)])
            lst = []
            for d in ds:
                lst.append((d[0], list(d[1]), w.syms[d[2]] if len(d) > 2 and d[2] else NULL_UUID))
            m.aux_data["cfiDirectives"].data[gtirb.Offset(w.blocks[b["n"]], off)] = lst
    # ---- CFG from the reference control-flow model of the unedited listing
    exp = flatten(spec, tokens_of(spec), set())
    w.input_listing = exp
    pos2blk = {}
    lastins = {}
    for s in spec["sections"]:
        pos = 0
        for b in s["blocks"]:
            pos2blk[(s["name"], pos)] = b["n"]
            sz = [isa_.size(T(i)) for i in b["i"]]
            if b["k"] == "c" and sz:
                lastins[(s["name"], pos + sum(sz[:-1]))] = b["n"]
            pos += sum(sz)
    proxies = {}
    for src, typ, cond, direct, tg in sorted(exp.edges, key=str):
        if src not in lastins:
            continue  # intra-block fallthrough
        sb = w.blocks[lastins[src]]
        if isinstance(tg, tuple):
            if tg not in pos2blk:
                raise ValueError("edge target %r is not a block start" % (tg,))
            tb = w.blocks[pos2blk[tg]]
        elif tg.startswith("proxy:"):
            tb = w.syms[tg[6:]].referent
        elif typ == "Return" and spec.get("share_return_proxy"):
            # legal input shape: all functions without known callers return to ONE shared proxy block
            if "ret" not in proxies:
                proxies["ret"] = add_proxy_block(m)
            tb = proxies["ret"]
        else:
            tb = add_proxy_block(m)
        ir.cfg.add(gtirb.Edge(sb, tb, gtirb.Edge.Label(getattr(ET, typ), cond, direct)))
    w.funcs = gtirb_functions.Function.build_functions(m) if spec.get("functions", True) else []
    # aux tables the module is to come without ("absent") or with nothing in them ("empty": what it must then be)
    for name, mode in (spec.get("tables") or {}).items():
        if mode == "absent":
            m.aux_data.pop(name, None)
        elif mode == "empty" and name in m.aux_data and m.aux_data[name].data:
            raise ValueError("spec asks for an empty %s table but the module has entries" % name)
    return w


NULL_UUID = __import__("uuid").UUID(int=0)


def insn_offsets(isa_, b):
    offs = [0]
    for i in b["i"]:
        offs.append(offs[-1] + isa_.size(T(i)))
    return offs


SIDE_TEXT = '.section .vfside,"a",@progbits\n.byte 1, 2, 3\n.text'
SIDE_BYTES = bytes([1, 2, 3])


def patch_text(isa_, patch):
    lines = []
    for pt in patch:
        pt = T(pt)
        if pt[0] == "cfi":
            lines.append("%s %s" % (pt[1], ", ".join(str(x) for x in pt[2])))
        elif pt[0] == "raw":
            lines.append(pt[1])
        elif pt[0] == "side":
            lines.append(SIDE_TEXT)
        else:
            lines.append(isa_.asm(pt))
    return "\n".join(lines) + "\n"


def make_patch(isa_, patch, log=None, fault=None, constraints=None):
    from gtirb_rewriting import Constraints, Patch

    declined = any(tuple(pt)[0] == "none" for pt in patch)
    text = None if declined else patch_text(isa_, patch)

    class P(Patch):
        def get_asm(self, ctx):
            if log is not None:
                log.append(ctx)
            if fault is not None:
                r = fault()
                if r is not None:
                    return r
            return text

        def __str__(self):
            return "P(%r)" % (text,)

    return P(constraints or Constraints())


def register(w, ctx, mods, log=None, faults=None):
    """Registers the modifications on a RewritingContext, in list order."""
    isa_ = w.isa
    for mid, m in enumerate(mods):
        if m["op"] == "delfunc":
            fn = next(f_ for f_ in w.funcs if f_.get_name() == fsym_name(m["f"]))
            ctx.delete_function(fn)
            continue
        if m["op"] == "newfunc":
            w.new_function_symbols = getattr(w, "new_function_symbols", {})
            w.new_function_symbols[m["name"]] = ctx.register_insert_function(m["name"], make_patch(isa_, m["p"], log, (faults or {}).get(mid)))
            continue
        if m["op"] == "scope":
            from gtirb_rewriting import AllBlocksScope, BlockPosition, Constraints, Patch

            counter = {"n": 0}

            def asm(ctx_, m=m, counter=counter):
                t = m["base"] + counter["n"]
                counter["n"] += 1
                return isa_.asm(("p", t)) + "\n"

            ctx.register_insert(AllBlocksScope(BlockPosition.ENTRY), Patch.from_function(asm, Constraints()))
            continue
        _, b = block_of(w.spec, m["b"])
        offs = insn_offsets(isa_, b)
        blk = w.blocks[m["b"]]
        k = m["k"]
        n = m.get("n", 0)
        if m["op"] in ("ins", "rep"):
            if isinstance(m["p"], dict):
                patch = bytes(m["p"]["bytes"])
            else:
                cons = None
                if m.get("cons"):
                    from gtirb_rewriting import Constraints

                    cons = Constraints(**{k: (set(v) if isinstance(v, list) else v) for k, v in m["cons"].items()})
                patch = make_patch(isa_, m["p"], log, (faults or {}).get(mid), constraints=cons)
            if m["op"] == "ins":
                ctx.insert_at(blk, offs[k], patch)
            else:
                ctx.replace_at(blk, offs[k], offs[k + n] - offs[k], patch)
        else:
            ctx.delete_at(blk, offs[k], offs[k + n] - offs[k], retarget_to_proxy=bool(m.get("proxy")))


def rewrite(spec, mods, prepare=None, **kw):
    """build + register + apply on the real library -> (world, exception | None)"""
    from gtirb_rewriting import RewritingContext

    w = build(spec)
    if prepare is not None:
        prepare(w)
    ctx = RewritingContext(w.m, w.funcs)
    w.ctx = ctx
    try:
        register(w, ctx, mods, **kw)
        ctx.apply()
    except Exception as e:  # the checks decide what an exception means
        return w, e
    return w, None


# =============================================================================
# observation


def section_layout(sect, exclude=()):
    """[(interval, base position)] of a section in address order + concatenated bytes"""
    ivs = sorted((bi for bi in sect.byte_intervals if bi not in exclude), key=lambda bi: (bi.address if bi.address is not None else -1, bi.uuid.int))
    out = []
    pos = 0
    data = b""
    for bi in ivs:
        out.append((bi, pos))
        c = bytes(bi.contents)
        if len(c) < bi.size:
            c = c + b"\x00" * (bi.size - len(c))
        data += c[: bi.size]
        pos += bi.size
    return out, data


def observe(w):
    m = w.m
    isa_ = w.isa
    cs = isamod.cs_for(isa_)
    L = Listing()
    L.blocks = {}
    bipos = {}
    exclude = getattr(w, "exclude_intervals", ())
    for sect in m.sections:
        lay, data = section_layout(sect, exclude)
        L.bytes[sect.name] = data
        for bi, p in lay:
            bipos[bi] = (sect.name, p)
    blockpos = {}

    def bpos(blk):
        bi = blk.byte_interval
        if bi is None or bi not in bipos or blk.module is not m:
            return None
        sn, p = bipos[bi]
        return (sn, p + blk.offset)

    for blk in m.byte_blocks:
        blockpos[blk] = bpos(blk)
    proxynames = collections.defaultdict(list)
    for s in m.symbols:
        r = s.referent
        if isinstance(r, gtirb.ProxyBlock):
            proxynames[r].append(s.name)
    for s in m.symbols:
        r = s.referent
        if isinstance(r, gtirb.ByteBlock):
            p = bpos(r)
            if p is None:
                L.labels[s.name] = "dangling"
                L.problems.append({"kind": "symbol-referent-not-in-module", "sym": s.name})
            else:
                L.labels[s.name] = (p[0], p[1] + (r.size if s.at_end else 0))
        elif isinstance(r, gtirb.ProxyBlock):
            L.labels[s.name] = "proxy"
            if r not in m.proxies:
                L.problems.append({"kind": "symbol-proxy-not-in-module", "sym": s.name})
        else:
            L.labels[s.name] = "none"
    # ---- functions by block
    fnames = m.aux_data["functionNames"].data if "functionNames" in m.aux_data else {}
    fblocks = m.aux_data["functionBlocks"].data if "functionBlocks" in m.aux_data else {}
    func_of = {}
    for u, bs in fblocks.items():
        nm = fnames[u].name if u in fnames else "?" + str(u)
        if nm.startswith("F_"):
            nm = nm[2:]
        for b in bs:
            if b in func_of:
                L.problems.append({"kind": "block-in-two-functions"})
            func_of[b] = nm
    L.func_of_block = func_of
    # ---- function tables: structure + entries
    fentries = m.aux_data["functionEntries"].data if "functionEntries" in m.aux_data else {}
    L.func_entries = {}
    L.func_names = set()
    if set(fblocks) != set(fentries) or set(fblocks) != set(fnames):
        L.problems.append({"kind": "functable-key-sets-differ", "r_blocks_only": len(set(fblocks) - set(fentries) - set(fnames)),
                           "r_detail": "blocks=%d entries=%d names=%d" % (len(fblocks), len(fentries), len(fnames))})
    for u in set(fblocks) | set(fentries):
        nm = fnames[u].name if u in fnames else "?" + str(u)
        if u in fnames and fnames[u] not in m.symbols:
            L.problems.append({"kind": "functable-name-symbol-not-in-module", "r_func": nm})
        short = nm[2:] if nm.startswith("F_") else nm
        bs = fblocks.get(u, set())
        if any(b.size for b in bs if isinstance(b, gtirb.ByteBlock)):
            L.func_names.add(short)
        else:
            # only kept zero-sized blocks (documented leftovers) - the function owns no code any more
            L.func_hollow = getattr(L, "func_hollow", set()) | {short}
        es = fentries.get(u, set())
        if not bs:
            L.problems.append({"kind": "functable-function-without-blocks", "r_func": short})
        if not es <= bs:
            L.problems.append({"kind": "functable-entries-not-subset-of-blocks", "r_func": short})
        for b in bs | es:
            if not isinstance(b, gtirb.CodeBlock):
                L.problems.append({"kind": "functable-non-code-block", "r_func": short})
            elif b.module is not m or b.byte_interval is None:
                L.problems.append({"kind": "functable-block-not-in-module", "r_func": short})
        L.func_entries[short] = {bpos(b) for b in es if isinstance(b, gtirb.ByteBlock) and bpos(b) is not None}
    # ---- instructions + edges
    L.zero_blocks = []
    for blk in sorted(m.byte_blocks, key=lambda b: (str(blockpos[b]), b.size)):
        p = blockpos[blk]
        if p is None:
            L.problems.append({"kind": "block-without-position"})
            continue
        sn, pos = p
        L.blocks.setdefault(sn, []).append((pos, blk.size, "c" if isinstance(blk, gtirb.CodeBlock) else "d"))
        if isinstance(blk, gtirb.DataBlock):
            c = L.bytes[sn][pos : pos + blk.size]
            for o in range(blk.size):
                L.insns[(sn, pos + o)] = {"ins": ("d", c[o]), "size": 1, "f": None, "bk": "d"}
            continue
        if blk.size == 0:
            L.zero_blocks.append((sn, pos))
            continue
        c = L.bytes[sn][pos : pos + blk.size]
        dec = list(cs.disasm(c, 0))
        if sum(i.size for i in dec) != blk.size:
            L.problems.append({"kind": "undecodable-code-block", "at": [sn, pos]})
            continue
        keys = []
        for i in dec:
            key = (sn, pos + i.address)
            keys.append(key)
            L.insns[key] = {"ins": None, "size": i.size, "f": func_of.get(blk), "bk": "c", "mn": i.mnemonic, "cls": isamod.classify(isa_, i)}
        for a, b2 in zip(keys, keys[1:]):
            L.edges.add((a, "Fallthrough", False, True, b2))
            if any(L.insns[a]["cls"]):
                L.problems.append({"kind": "control-transfer-buried-in-block", "at": list(a), "r_mn": L.insns[a]["mn"]})
        last = keys[-1]
        for e in blk.outgoing_edges:
            t = e.target
            if isinstance(t, gtirb.ProxyBlock):
                if t not in m.proxies:
                    L.problems.append({"kind": "edge-proxy-not-in-module", "at": list(last)})
                tt = "proxy:" + sorted(proxynames[t])[0] if t in proxynames else "proxy"
            else:
                tp = bpos(t)
                if tp is None:
                    L.problems.append({"kind": "edge-target-not-in-module", "at": list(last)})
                    tt = "removed"
                else:
                    tt = tp
            lab = e.label
            if lab is None:
                L.problems.append({"kind": "edge-without-label", "at": list(last)})
                continue
            L.edges.add((last, lab.type.name, lab.conditional, lab.direct, tt))
    for e in w.ir.cfg:
        for n_ in (e.source, e.target):
            if isinstance(n_, gtirb.ByteBlock):
                if n_.module is not m or n_.byte_interval is None:
                    L.problems.append({"kind": "cfg-endpoint-not-in-module", "r_type": e.label.type.name if e.label else None})
            elif isinstance(n_, gtirb.ProxyBlock) and n_ not in m.proxies:
                L.problems.append({"kind": "cfg-proxy-not-in-module", "r_type": e.label.type.name if e.label else None})
    # ---- symbolic expressions, sizes, offset aux data
    sizes = m.aux_data["symbolicExpressionSizes"].data if "symbolicExpressionSizes" in m.aux_data else {}
    for bi, (sn, p) in bipos.items():
        for off, ex in bi.symbolic_expressions.items():
            if not (0 <= off < bi.size):
                L.problems.append({"kind": "symexpr-outside-interval", "off": off})
                continue
            if isinstance(ex, gtirb.SymAddrConst):
                sz = sizes.get(gtirb.Offset(bi, off))
                L.symexprs[(sn, p + off)] = (ex.symbol.name, ex.offset, sz, tuple(sorted(a.name for a in ex.attributes)), ex.symbol)
            else:
                L.symexprs[(sn, p + off)] = ("?" + type(ex).__name__, 0, None, (), None)

    def elem_pos(el, disp, tname):
        if isinstance(el, gtirb.ByteInterval):
            if el not in bipos:
                L.problems.append({"kind": "auxdata-offset-element-not-in-module", "r_table": tname})
                return None
            if not (0 <= disp <= el.size):
                L.problems.append({"kind": "auxdata-offset-outside-element", "r_table": tname})
                return None
            return (bipos[el][0], bipos[el][1] + disp)
        if isinstance(el, gtirb.ByteBlock):
            bp = bpos(el)
            if bp is None:
                L.problems.append({"kind": "auxdata-offset-element-not-in-module", "r_table": tname})
                return None
            if not (0 <= disp <= el.size):
                L.problems.append({"kind": "auxdata-offset-outside-element", "r_table": tname})
                return None
            return (bp[0], bp[1] + disp)
        L.problems.append({"kind": "auxdata-offset-element-type", "r_table": tname})
        return None

    for tname, key in (("comments", "comment"), ("padding", "padding")):
        if tname in m.aux_data:
            for off, v in m.aux_data[tname].data.items():
                p = elem_pos(off.element_id, off.displacement, tname)
                if p is not None:
                    L.ann.setdefault(p, {})[key] = v
    for off in sizes:
        p = elem_pos(off.element_id, off.displacement, "symbolicExpressionSizes")
        if p is not None and p not in L.symexprs:
            L.problems.append({"kind": "size-entry-without-expression", "at": list(p)})
    if "cfiDirectives" in m.aux_data:
        tmp = collections.defaultdict(list)
        for off, ds in m.aux_data["cfiDirectives"].data.items():
            p = elem_pos(off.element_id, off.displacement, "cfiDirectives")
            if p is not None:
                el = off.element_id
                # order among several keys at one position: by (block position, displacement)
                tmp[p].append(((bpos(el) if isinstance(el, gtirb.ByteBlock) else p, el.size != 0 if isinstance(el, gtirb.ByteBlock) else True, off.displacement), ds))
        for p, lst in tmp.items():
            lst.sort(key=lambda x: x[0])
            for _, ds in lst:
                for d in ds:
                    sy = d[2]
                    L.cfi.setdefault(p, []).append((d[0], tuple(d[1]), sy.name if isinstance(sy, gtirb.Symbol) else None))
    if "alignment" in m.aux_data:
        for node, al in m.aux_data["alignment"].data.items():
            if isinstance(node, gtirb.ByteBlock) and bpos(node) is not None:
                L.align[bpos(node)] = al
    return L
