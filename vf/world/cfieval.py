"""Per-instruction unwind state of a Listing, computed with the reference CFI interpreter
(vf/cfimodel.py - written from the DWARF rules, independent of gtirb_rewriting)."""
from .. import cfimodel


def states(L, abi="X64-ELF"):
    """-> ({(sec,pos): snapshot|None for every code instruction}, directive multiset, error|None)"""
    out = {}
    counts = {}
    err = None
    for sec in sorted(L.bytes):
        m = cfimodel.Machine(abi)
        ipos = sorted(k for k in L.insns if k[0] == sec)
        cpos = sorted(k for k in L.cfi if k[0] == sec)
        end = (sec, len(L.bytes[sec]))
        allpos = sorted(set(ipos) | set(cpos))
        first = True
        for p in allpos:
            if not first:
                m.next_location(False)
            first = False
            for d in L.cfi.get(p, ()):
                counts[d[0]] = counts.get(d[0], 0) + 1
                if err is None:
                    try:
                        m.directive(d[0], list(d[1]), d[2] if len(d) > 2 else None)
                    except cfimodel.IllFormed as e:
                        err = {"at": list(p), "directive": d[0], "why": e.why}
            if p in L.insns and L.insns[p]["bk"] == "c":
                snap = None if err else m.snapshot()
                out[p] = ("err",) if err else (None if snap is None else _freeze(snap))
        if err is None and m.in_proc:
            err = {"at": list(end), "directive": "<end of section>", "why": "procedure-left-open"}
    return out, counts, err


def _freeze(snap):
    return tuple(sorted((k, repr(v)) for k, v in snap.items()))


def procs(L):
    """-> {(sec,pos): ordinal of the enclosing procedure (count of .cfi_startproc seen so far in the section) | None}
    for every code instruction; purely structural (startproc / endproc), so it is defined even when a value
    directive does not evaluate."""
    out = {}
    for sec in sorted(L.bytes):
        n = 0
        inside = False
        for p in sorted(set(k for k in L.insns if k[0] == sec) | set(k for k in L.cfi if k[0] == sec)):
            for d in L.cfi.get(p, ()):
                if d[0] == ".cfi_startproc":
                    n += 1
                    inside = True
                elif d[0] == ".cfi_endproc":
                    inside = False
            if p in L.insns and L.insns[p]["bk"] == "c":
                out[p] = (sec, n) if inside else None
    return out
