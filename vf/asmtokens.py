"""
Token vocabulary for the assembler checks (C12, C13).

A *token* is one line of assembly together with everything an oracle needs to
know about it without asking gtirb_rewriting.Assembler:

* its text per dialect (X64 AT&T, X64 Intel, IA32 AT&T, ARM64, MIPS32 big endian),
* its kind (ordinary / jmp / jcc / call / ret / ijmp / icall / label / data
  directive / .align / .uleb128 / section switch / CFI directive),
* for instruction tokens the instructions it stands for exactly as capstone
  prints them when the bytes are decoded at address 0 (MIPS control transfers
  stand for two instructions: LLVM's default `.set reorder` fills the delay slot
  with a `nop`, which is an *ordinary* instruction following the transfer),
* where the symbolic operand sits (byte offset inside the token's bytes, size
  in bytes, addend, attributes).

The byte strings and operand positions below were typed in from the ISA
manuals; `validate()` checks every one of them against capstone (never against
the Assembler):  bytes -> (mnemonic, op_str, size), and the operand field is
located by patching it (x86: capstone's imm/disp offset and size; fixed-width
ISAs: field := 1 and field := top bit must decode to the recorded probe
strings).

GTIRB convention used for the fixed-width ISAs: the symbolic expression sits at
the first byte of the instruction and its size is (width of the immediate
field in bits) // 8.
"""
from __future__ import annotations

import dataclasses
import functools
from typing import Dict, List, Optional, Tuple

import capstone
import gtirb

ISA = gtirb.Module.ISA
FF = gtirb.Module.FileFormat

# ----------------------------------------------------------------------------
# dialects


@dataclasses.dataclass(frozen=True)
class Dialect:
    name: str
    isa: str  # gtirb.Module.ISA member name
    syntax: str  # "ATT" | "INTEL" (x86 only)
    ptr: int  # size of the natural data word directive
    word_directive: str
    align_text: str  # a directive that requests 4-byte alignment
    fixed_width: bool
    big_endian: bool = False


DIALECTS: Dict[str, Dialect] = {
    "x64att": Dialect("x64att", "X64", "ATT", 8, ".quad", ".align 4", False),
    "x64intel": Dialect("x64intel", "X64", "INTEL", 8, ".quad", ".align 4", False),
    "ia32": Dialect("ia32", "IA32", "ATT", 4, ".long", ".align 4", False),
    # `.align n` is a power of two on these two targets
    "arm64": Dialect("arm64", "ARM64", "ATT", 8, ".quad", ".align 2", True),
    "mips32": Dialect("mips32", "MIPS32", "ATT", 4, ".long", ".align 2", True, True),
}
ALIGN_VALUE = 4


@functools.lru_cache(None)
def cs_for(dialect: str) -> capstone.Cs:
    d = DIALECTS[dialect]
    if d.isa == "X64":
        cs = capstone.Cs(capstone.CS_ARCH_X86, capstone.CS_MODE_64)
        cs.syntax = capstone.CS_OPT_SYNTAX_ATT
    elif d.isa == "IA32":
        cs = capstone.Cs(capstone.CS_ARCH_X86, capstone.CS_MODE_32)
        cs.syntax = capstone.CS_OPT_SYNTAX_ATT
    elif d.isa == "ARM64":
        cs = capstone.Cs(capstone.CS_ARCH_ARM64, capstone.CS_MODE_ARM)
    elif d.isa == "MIPS32":
        cs = capstone.Cs(capstone.CS_ARCH_MIPS, capstone.CS_MODE_MIPS32 | capstone.CS_MODE_BIG_ENDIAN)
    else:
        raise ValueError(dialect)
    cs.detail = True
    return cs


# ----------------------------------------------------------------------------
# token description

INSN_KINDS = ("ord", "jmp", "jcc", "call", "ret", "ijmp", "icall")
CTI_KINDS = ("jmp", "jcc", "call", "ret", "ijmp", "icall")
DIRECT_CTI = ("jmp", "jcc", "call")
UNCOND_TERMINATORS = ("jmp", "ret", "ijmp")
FALLTHROUGH_CTI = ("jcc", "call", "icall")

# names a token may refer to
OWN_GLOBAL = "A"
OWN_TEMP = ".Lb"
MOD_CODE = "mcode"
MOD_DATA = "mdata"
MOD_EXT = "ext"
UNKNOWN = "nosuch"
MODULE_NAMES = (MOD_CODE, MOD_DATA, MOD_EXT)


@dataclasses.dataclass(frozen=True)
class Insn:
    mnemonic: str
    op_str: str
    hexbytes: str

    @property
    def size(self) -> int:
        return len(self.hexbytes) // 2


@dataclasses.dataclass(frozen=True)
class SymOp:
    off: int  # byte offset of the expression inside the token's bytes
    size: int  # symbolicExpressionSizes entry
    target: str  # symbol name (second name for a difference in `target2`)
    addend: int = 0
    attrs: Tuple[str, ...] = ()
    target2: Optional[str] = None  # set: SymAddrAddr(1, 0, target, target2)
    # validation data for fixed-width ISAs: (lowest bit, width, op_str for field=1, op_str for top bit)
    field: Optional[Tuple[int, int, str, str]] = None
    # validation data for x86: "imm" | "disp"
    x86_field: Optional[str] = None


@dataclasses.dataclass(frozen=True)
class Tok:
    id: str
    kind: str  # one of INSN_KINDS, "label", "data", "align", "section", "cfi"
    text: str
    insns: Tuple[Insn, ...] = ()  # instruction kinds: the cti (if any) is insns[0]
    sym: Optional[SymOp] = None
    data: bytes = b""  # data kinds
    typed: Optional[str] = None  # "string" | "uleb128": must live in a block of its own
    label: Optional[str] = None
    section: Optional[str] = None
    cfi: Optional[str] = None  # "start" | "end" | "off"
    error: Optional[str] = None  # the token itself is unsupported: documented error class

    @property
    def is_insn(self) -> bool:
        return self.kind in INSN_KINDS

    @property
    def is_cti(self) -> bool:
        return self.kind in CTI_KINDS

    @property
    def nbytes(self) -> int:
        if self.is_insn:
            return sum(i.size for i in self.insns)
        return len(self.data)

    @property
    def refs(self) -> Tuple[str, ...]:
        if self.sym is None:
            return ()
        return (self.sym.target,) + ((self.sym.target2,) if self.sym.target2 else ())


def _sym_text(name: str, addend: int) -> str:
    return name if not addend else "%s+%d" % (name, addend)


_MIPS_NOP = Insn("nop", "", "00000000")


def _insn_token(dialect: str, what: str, target: Optional[str] = None, addend: int = 0, tag: int = 7, plt: bool = False) -> Optional[Tok]:
    """The instruction tokens per dialect.  `what` is ord/nop/osym/jmp/jmpb/jcc/call/ret/ijmp/icall."""
    st = _sym_text(target, addend) if target else None
    tid = what if target is None else "%s:%s" % (what, st)
    if what == "ord":
        tid = "ord%d" % tag
    if plt:
        tid += "@PLT"
    assert 0 < tag < 10
    x86 = dialect in ("x64att", "x64intel", "ia32")
    if x86:
        att = dialect != "x64intel"
        q = "q" if dialect != "ia32" else "l"
        ax = "rax" if dialect != "ia32" else "eax"
        if what == "ord":
            return Tok(tid, "ord", ("movb $%d, %%bl" if att else "mov bl, %d") % tag, (Insn("movb", "$%d, %%bl" % tag, "b3%02x" % tag),))
        if what == "nop":
            return Tok(tid, "ord", "nop", (Insn("nop", "", "90"),))
        if what == "osym":
            if dialect == "ia32":
                return Tok(tid, "ord", "movl $%s, %%eax" % st, (Insn("movl", "$0, %eax", "b800000000"),), SymOp(1, 4, target, addend, x86_field="imm"))
            text = "leaq %s(%%rip), %%rax" % st if att else "lea rax, [rip+%s]" % st
            return Tok(tid, "ord", text, (Insn("leaq", "(%rip), %rax", "488d0500000000"),), SymOp(3, 4, target, addend, x86_field="disp"))
        if what in ("jmp", "jcc"):
            mn = "jmp" if what == "jmp" else "je"
            # the streamer sees jumps to symbols before relaxation: short form, 1-byte expression
            return Tok(tid, what, "%s %s" % (mn, st), (Insn(mn, "2", "eb00" if what == "jmp" else "7400"),), SymOp(1, 1, target, addend, x86_field="imm"))
        if what == "call":
            attrs = ("PLT",) if plt else ()
            return Tok(tid, "call", "call %s%s" % (st, "@PLT" if plt else ""), (Insn("call" + q, "5", "e800000000"),), SymOp(1, 4, target, addend, attrs, x86_field="imm"))
        if what in ("icallgot", "ijmpgot", "osymgot"):
            # transfers / loads through the GOT: an explicit relocation variant on a memory operand
            kind = {"icallgot": "icall", "ijmpgot": "ijmp", "osymgot": "ord"}[what]
            if dialect == "ia32":
                text = {"icallgot": "call *%s@GOT(%%ebx)", "ijmpgot": "jmp *%s@GOT(%%ebx)", "osymgot": "movl %s@GOT(%%ebx), %%eax"}[what] % st
                ins = {"icallgot": Insn("calll", "*(%ebx)", "ff9300000000"), "ijmpgot": Insn("jmpl", "*(%ebx)", "ffa300000000"), "osymgot": Insn("movl", "(%ebx), %eax", "8b8300000000")}[what]
                return Tok(tid, kind, text, (ins,), SymOp(2, 4, target, addend, ("GOT",), x86_field="disp"))
            if att:
                text = {"icallgot": "call *%s@GOTPCREL(%%rip)", "ijmpgot": "jmp *%s@GOTPCREL(%%rip)", "osymgot": "movq %s@GOTPCREL(%%rip), %%rax"}[what] % st
            else:
                text = {"icallgot": "call qword ptr [rip + %s@GOTPCREL]", "ijmpgot": "jmp qword ptr [rip + %s@GOTPCREL]", "osymgot": "mov rax, qword ptr [rip + %s@GOTPCREL]"}[what] % st
            ins = {"icallgot": Insn("callq", "*(%rip)", "ff1500000000"), "ijmpgot": Insn("jmpq", "*(%rip)", "ff2500000000"), "osymgot": Insn("movq", "(%rip), %rax", "488b0500000000")}[what]
            return Tok(tid, kind, text, (ins,), SymOp(2 if what != "osymgot" else 3, 4, target, addend, ("GOT", "PCREL"), x86_field="disp"))
        if what == "ret":
            return Tok(tid, "ret", "ret", (Insn("ret" + q, "", "c3"),))
        if what == "ijmp":
            return Tok(tid, "ijmp", ("jmp *%%%s" if att else "jmp %s") % ax, (Insn("jmp" + q, "*%" + ax, "ffe0"),))
        if what == "icall":
            return Tok(tid, "icall", ("call *%%%s" if att else "call %s") % ax, (Insn("call" + q, "*%" + ax, "ffd0"),))
        return None
    if dialect == "arm64":

        def le(word):
            return word.to_bytes(4, "little").hex()

        if what == "ord":
            return Tok(tid, "ord", "movz w3, #%d" % tag, (Insn("mov", "w3, #%d" % tag, le(0x52800003 | (tag << 5))),))
        if what == "nop":
            return Tok(tid, "ord", "nop", (Insn("nop", "", le(0xD503201F)),))
        if what == "osym":
            return Tok(tid, "ord", "add x0, x0, :lo12:%s" % st, (Insn("add", "x0, x0, #0", le(0x91000000)),),
                       SymOp(0, 1, target, addend, ("LO12",), field=(10, 12, "x0, x0, #1", "x0, x0, #0x800")))
        if what == "jmp":
            return Tok(tid, "jmp", "b %s" % st, (Insn("b", "#0", le(0x14000000)),), SymOp(0, 3, target, addend, field=(0, 26, "#4", "#0xfffffffff8000000")))
        if what == "jcc":
            return Tok(tid, "jcc", "b.eq %s" % st, (Insn("b.eq", "#0", le(0x54000000)),), SymOp(0, 2, target, addend, field=(5, 19, "#4", "#0xfffffffffff00000")))
        if what == "call":
            return Tok(tid, "call", "bl %s" % st, (Insn("bl", "#0", le(0x94000000)),), SymOp(0, 3, target, addend, field=(0, 26, "#4", "#0xfffffffff8000000")))
        if what == "ret":
            return Tok(tid, "ret", "ret", (Insn("ret", "", le(0xD65F03C0)),))
        if what == "ijmp":
            return Tok(tid, "ijmp", "br x0", (Insn("br", "x0", le(0xD61F0000)),))
        if what == "icall":
            return Tok(tid, "icall", "blr x0", (Insn("blr", "x0", le(0xD63F0000)),))
        return None
    if dialect == "mips32":

        def be(word):
            return word.to_bytes(4, "big").hex()

        if what == "ord":
            return Tok(tid, "ord", "addiu $t0, $zero, %d" % tag, (Insn("addiu", "$t0, $zero, %d" % tag, be(0x24080000 | tag)),))
        if what == "nop":
            return Tok(tid, "ord", "nop", (_MIPS_NOP,))
        if what == "osym":
            return Tok(tid, "ord", "addiu $t0, $t0, %%lo(%s)" % st, (Insn("addiu", "$t0, $t0, 0", be(0x25080000)),),
                       SymOp(0, 2, target, addend, ("LO",), field=(0, 16, "$t0, $t0, 1", "$t0, $t0, -0x8000")))
        if what == "jmp":
            return Tok(tid, "jmp", "j %s" % st, (Insn("j", "0", be(0x08000000)), _MIPS_NOP), SymOp(0, 3, target, addend, field=(0, 26, "4", "0x8000000")))
        if what == "jmpb":
            # `b label` is an unconditional branch (LLVM encodes it as beq $zero,$zero)
            return Tok(tid, "jmp", "b %s" % st, (Insn("b", "4", be(0x10000000)), _MIPS_NOP), SymOp(0, 2, target, addend, field=(0, 16, "8", "-0x1fffc")))
        if what == "jcc":
            return Tok(tid, "jcc", "beq $t0, $t1, %s" % st, (Insn("beq", "$t0, $t1, 4", be(0x11090000)), _MIPS_NOP),
                       SymOp(0, 2, target, addend, field=(0, 16, "$t0, $t1, 8", "$t0, $t1, -0x1fffc")))
        if what == "call":
            return Tok(tid, "call", "jal %s" % st, (Insn("jal", "0", be(0x0C000000)), _MIPS_NOP), SymOp(0, 3, target, addend, field=(0, 26, "4", "0x8000000")))
        if what == "ret":
            return None  # MIPS has no return instruction; `jr $ra` is an indirect jump for LLVM and for the table
        if what == "ijmp":
            return Tok(tid, "ijmp", "jr $t9", (Insn("jr", "$t9", be(0x03200008)), _MIPS_NOP))
        if what == "icall":
            return Tok(tid, "icall", "jalr $t9", (Insn("jalr", "$t9", be(0x0320F809)), _MIPS_NOP))
        return None
    raise ValueError(dialect)


@functools.lru_cache(None)
def make_token(dialect: str, spec: str, tag: int = 7) -> Tok:
    """
    Token from its id.  Ids:
      ord | nop | osym:<sym>[+n] | jmp:<sym> | jmpb:<sym> | jcc:<sym> | call:<sym>[@PLT] | ret | ijmp | icall
      lab:<name> | byte | word:<sym>[+n] | string | zero | align | uleb:<s1>-<s2> | ulebconst
      sec:<name> | cfi:start | cfi:end | cfi:off
    """
    d = DIALECTS[dialect]
    head, _, arg = spec.partition(":")

    def sym_arg(a):
        name, _, add = a.partition("+")
        return name, int(add or 0)

    if head in ("ord", "nop", "ret", "ijmp", "icall"):
        t = _insn_token(dialect, head, tag=tag)
    elif head in ("osym", "jmp", "jmpb", "jcc", "call", "icallgot", "ijmpgot", "osymgot"):
        plt = arg.endswith("@PLT")
        name, add = sym_arg(arg[:-4] if plt else arg)
        t = _insn_token(dialect, head, name, add, plt=plt)
    elif head == "lab":
        t = Tok(spec, "label", arg + ":", label=arg)
    elif head == "byte":
        t = Tok(spec, "data", ".byte 1", data=b"\x01")
    elif head == "word":
        name, add = sym_arg(arg)
        t = Tok(spec, "data", "%s %s" % (d.word_directive, _sym_text(name, add)), data=bytes(d.ptr), sym=SymOp(0, d.ptr, name, add))
    elif head == "string":
        t = Tok(spec, "data", '.string "hi"', data=b"hi\x00", typed="string")
    elif head == "zero":
        t = Tok(spec, "data", ".zero 2", data=b"\x00\x00")
    elif head == "align":
        t = Tok(spec, "align", d.align_text)
    elif head == "uleb":
        s1, _, s2 = arg.partition("-")
        t = Tok(spec, "data", ".uleb128 %s-%s" % (s1, s2), data=b"\x00", typed="uleb128", sym=SymOp(0, 1, s1, target2=s2))
    elif head == "ulebconst":
        # only symbolic differences are supported
        t = Tok(spec, "data", ".uleb128 5", data=b"\x05", typed="uleb128", error="UnsupportedAssemblyError")
    elif head == "sec":
        t = Tok(spec, "section", arg if arg in (".text", ".data") else ".section %s" % arg, section=arg.split(",")[0])
    elif head == "cfi":
        text = {"start": ".cfi_startproc", "end": ".cfi_endproc", "off": ".cfi_def_cfa_offset 16"}[arg]
        t = Tok(spec, "cfi", text, cfi=arg)
    else:
        raise ValueError(spec)
    if t is None:
        raise KeyError("%s has no token %s" % (dialect, spec))
    return t


def has_token(dialect: str, spec: str) -> bool:
    try:
        make_token(dialect, spec)
        return True
    except KeyError:
        return False


def tokens_of(dialect: str, specs) -> List[Tok]:
    """Tokens of a sequence; the i-th ordinary tagged instruction gets tag i+1."""
    return [make_token(dialect, s, tag=i + 1) for i, s in enumerate(specs)]


def render(toks) -> str:
    return "".join(t.text + "\n" for t in toks)


# ----------------------------------------------------------------------------
# validation of the table against capstone


def _decode_one(dialect: str, raw: bytes):
    ins = list(cs_for(dialect).disasm(raw, 0))
    return ins


def validate(dialect: str) -> List[str]:
    """Returns a list of table errors (empty = the table agrees with capstone)."""
    errs = []
    d = DIALECTS[dialect]
    specs = ["nop", "ret", "ijmp", "icall"] + ["ord"] + [
        "%s:%s" % (k, "mcode+4" if k in ("osym",) else "mcode") for k in ("osym", "jmp", "jmpb", "jcc", "call", "icallgot", "ijmpgot", "osymgot")
    ] + ["call:ext@PLT"]
    for spec in specs:
        for tag in (range(1, 10) if spec == "ord" else (7,)):
            try:
                t = make_token(dialect, spec, tag=tag)
            except KeyError:
                continue
            raw = b"".join(bytes.fromhex(i.hexbytes) for i in t.insns)
            off = 0
            for k, exp in enumerate(t.insns):
                ins = _decode_one(dialect, raw[off : off + exp.size])
                got = [(i.mnemonic, i.op_str, i.size) for i in ins]
                if got != [(exp.mnemonic, exp.op_str, exp.size)]:
                    errs.append("%s %s insn %d: capstone says %r, table says %r" % (dialect, spec, k, got, (exp.mnemonic, exp.op_str, exp.size)))
                off += exp.size
            if t.sym is None:
                continue
            first = t.insns[0]
            fraw = bytes.fromhex(first.hexbytes)
            if not d.fixed_width:
                i = _decode_one(dialect, fraw)[0]
                if t.sym.x86_field == "imm":
                    loc = (i.imm_offset, i.imm_size)
                else:
                    loc = (i.disp_offset, i.disp_size)
                if loc != (t.sym.off, t.sym.size):
                    errs.append("%s %s: capstone puts the %s field at %r, table says %r" % (dialect, spec, t.sym.x86_field, loc, (t.sym.off, t.sym.size)))
                if any(fraw[t.sym.off : t.sym.off + t.sym.size]):
                    errs.append("%s %s: relocation field not zero-filled" % (dialect, spec))
            else:
                lo, width, probe1, probetop = t.sym.field
                word = int.from_bytes(fraw, "big" if d.big_endian else "little")
                if word & (((1 << width) - 1) << lo):
                    errs.append("%s %s: relocation field not zero-filled" % (dialect, spec))
                for val, probe in ((1, probe1), (1 << (width - 1), probetop)):
                    w = word | (val << lo)
                    i = _decode_one(dialect, w.to_bytes(4, "big" if d.big_endian else "little"))
                    got = [(x.mnemonic, x.op_str) for x in i]
                    if got != [(first.mnemonic, probe)]:
                        errs.append("%s %s: field (%d,%d) := %#x decodes to %r, expected op_str %r" % (dialect, spec, lo, width, val, got, probe))
                if t.sym.off != 0 or t.sym.size != width // 8:
                    errs.append("%s %s: expression (offset,size) %r violates the fixed-width convention (0, %d)" % (dialect, spec, (t.sym.off, t.sym.size), width // 8))
    return errs


@functools.lru_cache(None)
def validated(dialect: str) -> bool:
    errs = validate(dialect)
    if errs:
        raise AssertionError("asmtokens table disagrees with capstone:\n" + "\n".join(errs))
    return True


# ----------------------------------------------------------------------------
# the module every assembly targets


MOD_TEMP = ".Lmod"  # a module symbol whose NAME carries the private-label prefix (disassemblers emit such names)


def make_module(dialect: str, fmt: str, binary_type=("EXEC",), temp_named=False):
    """
    A module with a code symbol `mcode`, a data symbol `mdata` and an external
    (proxy-backed) symbol `ext`.  Returns (module, {name: symbol}).
    The Assembler never mutates its target, so one module serves many assemblies.
    """
    d = DIALECTS[dialect]
    ir = gtirb.IR()
    m = gtirb.Module(name="m", isa=getattr(ISA, d.isa), file_format=getattr(FF, fmt))
    m.ir = ir
    m.aux_data["binaryType"] = gtirb.AuxData(type_name="sequence<string>", data=list(binary_type))
    text = gtirb.Section(name=".text", flags={gtirb.Section.Flag.Readable, gtirb.Section.Flag.Executable, gtirb.Section.Flag.Loaded, gtirb.Section.Flag.Initialized})
    text.module = m
    bi = gtirb.ByteInterval(contents=b"\x00" * 8, address=0x1000)
    bi.section = text
    cb = gtirb.CodeBlock(offset=0, size=8)
    cb.byte_interval = bi
    data = gtirb.Section(name=".data", flags={gtirb.Section.Flag.Readable, gtirb.Section.Flag.Writable, gtirb.Section.Flag.Loaded, gtirb.Section.Flag.Initialized})
    data.module = m
    dbi = gtirb.ByteInterval(contents=b"\x00" * 8, address=0x2000)
    dbi.section = data
    db = gtirb.DataBlock(offset=0, size=8)
    db.byte_interval = dbi
    px = gtirb.ProxyBlock()
    m.proxies.add(px)
    syms = {}
    for name, ref in ((MOD_CODE, cb), (MOD_DATA, db), (MOD_EXT, px)) + (((MOD_TEMP, cb),) if temp_named else ()):
        s = gtirb.Symbol(name, payload=ref)
        s.module = m
        syms[name] = s
    return m, syms


def x86_syntax_of(dialect: str):
    from gtirb_rewriting.assembly import X86Syntax

    return X86Syntax.INTEL if DIALECTS[dialect].syntax == "INTEL" else X86Syntax.ATT


# ----------------------------------------------------------------------------
# canonical, UUID-free dump of an Assembler.Result (C13 chunked == whole)


def canon_result(result, mod_syms) -> dict:
    """
    Everything observable in an Assembler.Result with object identities replaced
    by positions: blocks by (section, index), module blocks / symbols by the
    module symbol's name, result proxies by the sorted list of roles they play.
    CFI is dumped through the public `create_cfi_directives()` table (the list of
    CFIProcedure objects is an implementation detail: one implicit procedure is
    opened per assemble() call).
    """
    bname = {}
    for sname, sec in result.sections.items():
        for i, b in enumerate(sec.blocks):
            bname[id(b)] = "%s#%d" % (sname, i)
    modref = {id(s.referent): "mod:" + n for n, s in mod_syms.items() if s.referent is not None}
    modsym = {id(s): "mod:" + n for n, s in mod_syms.items()}
    own_sym = {id(s): "own:" + s.name for s in result.symbols}

    def node(x):
        if id(x) in bname:
            return bname[id(x)]
        if id(x) in modref:
            return modref[id(x)]
        if isinstance(x, gtirb.ProxyBlock):
            return "proxy" if x in result.proxies else "proxy?foreign"
        return "?" + type(x).__name__

    def sym(s):
        return own_sym.get(id(s)) or modsym.get(id(s)) or "?sym:" + s.name

    def expr(e):
        if isinstance(e, gtirb.SymAddrConst):
            return ["SymAddrConst", e.offset, sym(e.symbol), sorted(a.name for a in e.attributes)]
        if isinstance(e, gtirb.SymAddrAddr):
            return ["SymAddrAddr", e.scale, e.offset, sym(e.symbol1), sym(e.symbol2), sorted(a.name for a in e.attributes)]
        return [type(e).__name__]

    secs = []
    for sname, sec in result.sections.items():
        secs.append(
            {
                "name": sname,
                "flags": sorted(f.name for f in sec.flags),
                "image": [sec.image_type, sec.image_flags],
                "data": sec.data.hex(),
                "blocks": [[type(b).__name__, b.offset, b.size] for b in sec.blocks],
                "exprs": sorted([o, expr(e)] for o, e in sec.symbolic_expressions.items()),
                "sizes": sorted([o, s] for o, s in sec.symbolic_expression_sizes.items()),
                "alignment": sorted([node(b), a] for b, a in sec.alignment.items()),
                "block_types": sorted([node(b), str(t.value)] for b, t in sec.block_types.items()),
                "line_map_keys": sorted([node(o.element_id), o.displacement] for o in sec.line_map),
            }
        )
    # a proxy is characterised by what points at it
    proxy_roles = {}
    for e in result.cfg:
        if isinstance(e.target, gtirb.ProxyBlock) and id(e.target) not in modref:
            proxy_roles.setdefault(id(e.target), []).append("edge:%s:%s" % (node(e.source), e.label.type.name))
    for s in result.symbols:
        if isinstance(s.referent, gtirb.ProxyBlock):
            proxy_roles.setdefault(id(s.referent), []).append("sym:" + s.name)
    for p in result.proxies:
        proxy_roles.setdefault(id(p), [])
    cfi = []
    for off, directives in result.create_cfi_directives().items():
        cfi.append([node(off.element_id), off.displacement, [[d[0], list(d[1]), str(d[2]) if not isinstance(d[2], gtirb.Symbol) else sym(d[2])] for d in directives]])
    return {
        "sections": secs,
        "edges": sorted(
            [node(e.source), node(e.target), e.label.type.name, bool(e.label.conditional), bool(e.label.direct)] for e in result.cfg
        ),
        "symbols": sorted([s.name, node(s.referent) if s.referent is not None else None, bool(s.at_end)] for s in result.symbols),
        "proxies": sorted(sorted(v) for v in proxy_roles.values()),
        "cfi": sorted(cfi, key=lambda x: (x[0], x[1])),
        "elf_attrs": sorted([sym(s), a.type, a.binding, a.visibility] for s, a in result.elf_symbol_attributes.items()),
    }


if __name__ == "__main__":
    bad = 0
    for dn in DIALECTS:
        e = validate(dn)
        bad += len(e)
        for x in e:
            print("TABLE-ERROR", x)
        print(dn, "ok" if not e else "%d errors" % len(e))
    raise SystemExit(1 if bad else 0)
