"""
Independent DWARF v4 expression / call-frame-instruction codec (reference for C14).

Written from the DWARF Debugging Information Format, Version 4 (June 10, 2010):

* section 7.6     "Variable Length Data"  (unsigned / signed LEB128, Figures 22/23
                   and the algorithms of Appendix C),
* section 7.7.1   "DWARF Expressions", Figure 24 "DWARF operation encodings",
* section 2.5     (what each operation does - only the literal encodings are
                   evaluated here),
* section 6.4.2   "Call Frame Instructions" (operand kinds),
* section 7.23    "Call Frame Information", Figure 40 "Call frame instruction
                   encodings".

Nothing in this file imports gtirb_rewriting or the `leb128` package.

Neutral object form
-------------------
An operation / instruction is a tuple ``(name, operand, ...)``; names are the
standard's names, except that the operations with an embedded operand are
called by their family name and carry the embedded operand first:

    ("DW_OP_lit", 5)          DW_OP_lit5
    ("DW_OP_reg", 3)          DW_OP_reg3
    ("DW_OP_breg", 7, -8)     DW_OP_breg7 -8
    ("DW_CFA_offset", 6, 2)   DW_CFA_offset r6, 2
    ("DW_CFA_restore", 6)
    ("DW_CFA_advance_loc", 4)

A DWARF expression (operand form "block" = DW_FORM_block/exprloc: ULEB128
length followed by that many bytes of operations) is a list of such tuples.
"""

# ---------------------------------------------------------------------------
# errors


class RefError(Exception):
    """Base class of everything this reference raises on purpose."""


class RangeError(RefError):
    """An operand value is not representable in its operand form."""


class Malformed(RefError):
    """Bytes that are not a well-formed encoding (unknown opcode, truncated
    operand, operation crossing the end of its block)."""


# ---------------------------------------------------------------------------
# 7.6  LEB128 (Appendix C, Figures 44-47)


def uleb_encode(value):
    if value < 0:
        raise RangeError("ULEB128 of a negative number")
    out = bytearray()
    while True:
        byte = value & 0x7F
        value >>= 7
        if value != 0:
            byte |= 0x80
        out.append(byte)
        if value == 0:
            return bytes(out)


def sleb_encode(value):
    out = bytearray()
    more = True
    while more:
        byte = value & 0x7F
        value >>= 7  # arithmetic shift: python ints are two's complement, infinite sign extension
        sign_bit = byte & 0x40
        if (value == 0 and not sign_bit) or (value == -1 and sign_bit):
            more = False
        else:
            byte |= 0x80
        out.append(byte)
    return bytes(out)


def uleb_decode(buf, pos):
    result = 0
    shift = 0
    while True:
        if pos >= len(buf):
            raise Malformed("truncated ULEB128")
        byte = buf[pos]
        pos += 1
        result |= (byte & 0x7F) << shift
        shift += 7
        if not byte & 0x80:
            return result, pos


def sleb_decode(buf, pos):
    result = 0
    shift = 0
    while True:
        if pos >= len(buf):
            raise Malformed("truncated SLEB128")
        byte = buf[pos]
        pos += 1
        result |= (byte & 0x7F) << shift
        shift += 7
        if not byte & 0x80:
            break
    if byte & 0x40:
        result -= 1 << shift
    return result, pos


def uleb_len(value):
    n = 1
    while value >= 0x80:
        value >>= 7
        n += 1
    return n


def sleb_len(value):
    # smallest n with -2^(7n-1) <= value < 2^(7n-1)
    n = 1
    while not (-(1 << (7 * n - 1)) <= value < (1 << (7 * n - 1))):
        n += 1
    return n


# ---------------------------------------------------------------------------
# operand forms

FIXED = {
    "u1": (1, False),
    "s1": (1, True),
    "u2": (2, False),
    "s2": (2, True),
    "u4": (4, False),
    "s4": (4, True),
    "u8": (8, False),
    "s8": (8, True),
}
# other forms: "addr" (unsigned, size of an address on the target),
#              "uleb", "sleb",
#              "block"  (ULEB128 length + DWARF expression; decoded to a list of ops),
#              "bytes"  (ULEB128 length + raw bytes; DW_OP_implicit_value),
#              "ref"    (4-byte offset in 32-bit DWARF; DW_OP_call_ref)


def form_range(form, ptr_size):
    """(lo, hi) inclusive; None = unbounded on that side."""
    if form in FIXED:
        size, signed = FIXED[form]
        if signed:
            return -(1 << (8 * size - 1)), (1 << (8 * size - 1)) - 1
        return 0, (1 << (8 * size)) - 1
    if form == "addr":
        return 0, (1 << (8 * ptr_size)) - 1
    if form == "ref":
        return 0, (1 << 32) - 1
    if form == "uleb":
        return 0, None
    if form == "sleb":
        return None, None
    raise KeyError(form)


def in_range(form, value, ptr_size):
    lo, hi = form_range(form, ptr_size)
    return (lo is None or value >= lo) and (hi is None or value <= hi)


def _fixed_bytes(value, size, signed, byteorder):
    lo = -(1 << (8 * size - 1)) if signed else 0
    hi = (1 << (8 * size - 1)) - 1 if signed else (1 << (8 * size)) - 1
    if not lo <= value <= hi:
        raise RangeError("%d does not fit %s%d" % (value, "s" if signed else "u", size))
    if value < 0:
        value += 1 << (8 * size)  # two's complement
    little = [(value >> (8 * i)) & 0xFF for i in range(size)]
    if byteorder == "little":
        return bytes(little)
    if byteorder == "big":
        return bytes(reversed(little))
    raise ValueError(byteorder)


def _fixed_value(raw, signed, byteorder):
    if byteorder == "big":
        raw = bytes(reversed(raw))
    elif byteorder != "little":
        raise ValueError(byteorder)
    v = 0
    for i, b in enumerate(raw):
        v |= b << (8 * i)
    if signed and raw[-1] & 0x80:
        v -= 1 << (8 * len(raw))
    return v


def operand_encode(form, value, byteorder, ptr_size):
    if form in FIXED:
        size, signed = FIXED[form]
        return _fixed_bytes(value, size, signed, byteorder)
    if form == "addr":
        return _fixed_bytes(value, ptr_size, False, byteorder)
    if form == "ref":
        return _fixed_bytes(value, 4, False, byteorder)
    if form == "uleb":
        return uleb_encode(value)
    if form == "sleb":
        return sleb_encode(value)
    if form == "block":
        body = expr_encode(value, byteorder, ptr_size)
        return uleb_encode(len(body)) + body
    if form == "bytes":
        return uleb_encode(len(value)) + bytes(value)
    raise KeyError(form)


def operand_decode(form, buf, pos, byteorder, ptr_size):
    if form in FIXED or form in ("addr", "ref"):
        if form == "addr":
            size, signed = ptr_size, False
        elif form == "ref":
            size, signed = 4, False
        else:
            size, signed = FIXED[form]
        if pos + size > len(buf):
            raise Malformed("truncated %s operand" % form)
        return _fixed_value(buf[pos:pos + size], signed, byteorder), pos + size
    if form == "uleb":
        return uleb_decode(buf, pos)
    if form == "sleb":
        return sleb_decode(buf, pos)
    if form in ("block", "bytes"):
        length, pos = uleb_decode(buf, pos)
        if pos + length > len(buf):
            raise Malformed("block longer than the data")
        body = bytes(buf[pos:pos + length])
        if form == "bytes":
            return body, pos + length
        return expr_decode(body, byteorder, ptr_size), pos + length
    raise KeyError(form)


# ---------------------------------------------------------------------------
# 7.7.1  Figure 24: DWARF operation encodings
#        name, code, operand forms     (typed in row by row)

_DW_OP_ROWS = [
    ("DW_OP_addr", 0x03, ("addr",)),  # constant address (size target specific)
    ("DW_OP_deref", 0x06, ()),
    ("DW_OP_const1u", 0x08, ("u1",)),  # 1-byte constant
    ("DW_OP_const1s", 0x09, ("s1",)),
    ("DW_OP_const2u", 0x0A, ("u2",)),  # 2-byte constant
    ("DW_OP_const2s", 0x0B, ("s2",)),
    ("DW_OP_const4u", 0x0C, ("u4",)),  # 4-byte constant
    ("DW_OP_const4s", 0x0D, ("s4",)),
    ("DW_OP_const8u", 0x0E, ("u8",)),  # 8-byte constant
    ("DW_OP_const8s", 0x0F, ("s8",)),
    ("DW_OP_constu", 0x10, ("uleb",)),  # ULEB128 constant
    ("DW_OP_consts", 0x11, ("sleb",)),  # SLEB128 constant
    ("DW_OP_dup", 0x12, ()),
    ("DW_OP_drop", 0x13, ()),
    ("DW_OP_over", 0x14, ()),
    ("DW_OP_pick", 0x15, ("u1",)),  # 1-byte stack index
    ("DW_OP_swap", 0x16, ()),
    ("DW_OP_rot", 0x17, ()),
    ("DW_OP_xderef", 0x18, ()),
    ("DW_OP_abs", 0x19, ()),
    ("DW_OP_and", 0x1A, ()),
    ("DW_OP_div", 0x1B, ()),
    ("DW_OP_minus", 0x1C, ()),
    ("DW_OP_mod", 0x1D, ()),
    ("DW_OP_mul", 0x1E, ()),
    ("DW_OP_neg", 0x1F, ()),
    ("DW_OP_not", 0x20, ()),
    ("DW_OP_or", 0x21, ()),
    ("DW_OP_plus", 0x22, ()),
    ("DW_OP_plus_uconst", 0x23, ("uleb",)),  # ULEB128 addend
    ("DW_OP_shl", 0x24, ()),
    ("DW_OP_shr", 0x25, ()),
    ("DW_OP_shra", 0x26, ()),
    ("DW_OP_xor", 0x27, ()),
    ("DW_OP_skip", 0x2F, ("s2",)),  # signed 2-byte constant
    ("DW_OP_bra", 0x28, ("s2",)),  # signed 2-byte constant
    ("DW_OP_eq", 0x29, ()),
    ("DW_OP_ge", 0x2A, ()),
    ("DW_OP_gt", 0x2B, ()),
    ("DW_OP_le", 0x2C, ()),
    ("DW_OP_lt", 0x2D, ()),
    ("DW_OP_ne", 0x2E, ()),
    # DW_OP_lit0 .. DW_OP_lit31   0x30 .. 0x4f   literals 0..31 = (DW_OP_lit0 + literal)
    # DW_OP_reg0 .. DW_OP_reg31   0x50 .. 0x6f   reg 0..31 = (DW_OP_reg0 + regnum)
    # DW_OP_breg0 .. DW_OP_breg31 0x70 .. 0x8f   SLEB128 offset; base register 0..31 = (DW_OP_breg0 + regnum)
    ("DW_OP_regx", 0x90, ("uleb",)),  # ULEB128 register
    ("DW_OP_fbreg", 0x91, ("sleb",)),  # SLEB128 offset
    ("DW_OP_bregx", 0x92, ("uleb", "sleb")),  # ULEB128 register followed by SLEB128 offset
    ("DW_OP_piece", 0x93, ("uleb",)),  # ULEB128 size of piece addressed
    ("DW_OP_deref_size", 0x94, ("u1",)),  # 1-byte size of data retrieved
    ("DW_OP_xderef_size", 0x95, ("u1",)),  # 1-byte size of data retrieved
    ("DW_OP_nop", 0x96, ()),
    ("DW_OP_push_object_address", 0x97, ()),
    ("DW_OP_call2", 0x98, ("u2",)),  # 2-byte offset of DIE
    ("DW_OP_call4", 0x99, ("u4",)),  # 4-byte offset of DIE
    ("DW_OP_call_ref", 0x9A, ("ref",)),  # 4- or 8-byte offset of DIE
    ("DW_OP_form_tls_address", 0x9B, ()),
    ("DW_OP_call_frame_cfa", 0x9C, ()),
    ("DW_OP_bit_piece", 0x9D, ("uleb", "uleb")),  # ULEB128 size followed by ULEB128 offset
    ("DW_OP_implicit_value", 0x9E, ("bytes",)),  # ULEB128 size followed by block of that size
    ("DW_OP_stack_value", 0x9F, ()),
]
# families with the operand embedded in the opcode: name, first code, count, further operand forms
_DW_OP_FAMILIES = [
    ("DW_OP_lit", 0x30, 32, ()),
    ("DW_OP_reg", 0x50, 32, ()),
    ("DW_OP_breg", 0x70, 32, ("sleb",)),
]
DW_OP_lo_user = 0xE0
DW_OP_hi_user = 0xFF

# name -> (code, forms, embedded_count or None)
DW_OP = {}
# code byte -> (name, embedded operand or None, forms)
DW_OP_BY_CODE = {}
for _name, _code, _forms in _DW_OP_ROWS:
    assert _name not in DW_OP and _code not in DW_OP_BY_CODE
    DW_OP[_name] = (_code, _forms, None)
    DW_OP_BY_CODE[_code] = (_name, None, _forms)
for _name, _code, _count, _forms in _DW_OP_FAMILIES:
    DW_OP[_name] = (_code, _forms, _count)
    for _i in range(_count):
        assert _code + _i not in DW_OP_BY_CODE
        DW_OP_BY_CODE[_code + _i] = (_name, _i, _forms)


def op_forms(name):
    """Operand forms of an operation in neutral-tuple order ('embedded' first)."""
    code, forms, count = DW_OP[name]
    return (("embedded",) if count else ()) + tuple(forms)


def op_encode(op, byteorder, ptr_size):
    name = op[0]
    code, forms, count = DW_OP[name]
    args = list(op[1:])
    if count is not None:
        if not args:
            raise RangeError("missing embedded operand")
        n = args.pop(0)
        if not 0 <= n < count:
            raise RangeError("%s%d does not exist" % (name, n))
        code += n
    if len(args) != len(forms):
        raise RefError("operand count")
    out = bytes([code])
    for form, value in zip(forms, args):
        out += operand_encode(form, value, byteorder, ptr_size)
    return out


def expr_encode(ops, byteorder, ptr_size):
    return b"".join(op_encode(op, byteorder, ptr_size) for op in ops)


def op_decode(buf, pos, byteorder, ptr_size):
    if pos >= len(buf):
        raise Malformed("no opcode")
    code = buf[pos]
    pos += 1
    ent = DW_OP_BY_CODE.get(code)
    if ent is None:
        raise Malformed("0x%02x is not a DWARF v4 operation" % code)
    name, embedded, forms = ent
    args = [] if embedded is None else [embedded]
    for form in forms:
        v, pos = operand_decode(form, buf, pos, byteorder, ptr_size)
        args.append(v)
    return (name,) + tuple(args), pos


def expr_decode(buf, byteorder, ptr_size):
    """Decode a buffer that must consist of whole operations."""
    ops = []
    pos = 0
    while pos < len(buf):
        op, pos = op_decode(buf, pos, byteorder, ptr_size)
        ops.append(op)
    return ops


# ---------------------------------------------------------------------------
# 7.23  Figure 40: Call frame instruction encodings
#       instruction, high 2 bits, low 6 bits, operand 1, operand 2

_DW_CFA_PRIMARY_ROWS = [
    # name, high 2 bits, (low 6 bits carry:), further operands
    ("DW_CFA_advance_loc", 0x1, ()),  # delta
    ("DW_CFA_offset", 0x2, ("uleb",)),  # register; ULEB128 offset
    ("DW_CFA_restore", 0x3, ()),  # register
]
_DW_CFA_EXT_ROWS = [
    # name, low 6 bits (high 2 bits are 0), operands
    ("DW_CFA_nop", 0x00, ()),
    ("DW_CFA_set_loc", 0x01, ("addr",)),  # address
    ("DW_CFA_advance_loc1", 0x02, ("u1",)),  # 1-byte delta
    ("DW_CFA_advance_loc2", 0x03, ("u2",)),  # 2-byte delta
    ("DW_CFA_advance_loc4", 0x04, ("u4",)),  # 4-byte delta
    ("DW_CFA_offset_extended", 0x05, ("uleb", "uleb")),  # ULEB128 register, ULEB128 offset
    ("DW_CFA_restore_extended", 0x06, ("uleb",)),  # ULEB128 register
    ("DW_CFA_undefined", 0x07, ("uleb",)),  # ULEB128 register
    ("DW_CFA_same_value", 0x08, ("uleb",)),  # ULEB128 register
    ("DW_CFA_register", 0x09, ("uleb", "uleb")),  # ULEB128 register, ULEB128 register
    ("DW_CFA_remember_state", 0x0A, ()),
    ("DW_CFA_restore_state", 0x0B, ()),
    ("DW_CFA_def_cfa", 0x0C, ("uleb", "uleb")),  # ULEB128 register, ULEB128 offset
    ("DW_CFA_def_cfa_register", 0x0D, ("uleb",)),  # ULEB128 register
    ("DW_CFA_def_cfa_offset", 0x0E, ("uleb",)),  # ULEB128 offset
    ("DW_CFA_def_cfa_expression", 0x0F, ("block",)),  # BLOCK
    ("DW_CFA_expression", 0x10, ("uleb", "block")),  # ULEB128 register, BLOCK
    ("DW_CFA_offset_extended_sf", 0x11, ("uleb", "sleb")),  # ULEB128 register, SLEB128 offset
    ("DW_CFA_def_cfa_sf", 0x12, ("uleb", "sleb")),  # ULEB128 register, SLEB128 offset
    ("DW_CFA_def_cfa_offset_sf", 0x13, ("sleb",)),  # SLEB128 offset
    ("DW_CFA_val_offset", 0x14, ("uleb", "uleb")),  # ULEB128, ULEB128
    ("DW_CFA_val_offset_sf", 0x15, ("uleb", "sleb")),  # ULEB128, SLEB128
    ("DW_CFA_val_expression", 0x16, ("uleb", "block")),  # ULEB128, BLOCK
]
DW_CFA_lo_user = 0x1C
DW_CFA_hi_user = 0x3F

# name -> (code byte with embedded operand 0, forms, embedded_count or None)
DW_CFA = {}
DW_CFA_BY_CODE = {}
for _name, _hi, _forms in _DW_CFA_PRIMARY_ROWS:
    DW_CFA[_name] = (_hi << 6, _forms, 64)
    for _i in range(64):
        DW_CFA_BY_CODE[(_hi << 6) | _i] = (_name, _i, _forms)
for _name, _lo, _forms in _DW_CFA_EXT_ROWS:
    assert _name not in DW_CFA and _lo not in DW_CFA_BY_CODE and _lo < 0x40
    DW_CFA[_name] = (_lo, _forms, None)
    DW_CFA_BY_CODE[_lo] = (_name, None, _forms)


def cfa_forms(name):
    code, forms, count = DW_CFA[name]
    return (("embedded",) if count else ()) + tuple(forms)


def cfa_encode(inst, byteorder, ptr_size):
    name = inst[0]
    code, forms, count = DW_CFA[name]
    args = list(inst[1:])
    if count is not None:
        if not args:
            raise RangeError("missing embedded operand")
        n = args.pop(0)
        if not 0 <= n < count:
            raise RangeError("%d does not fit the low 6 bits" % n)
        code |= n
    if len(args) != len(forms):
        raise RefError("operand count")
    out = bytes([code])
    for form, value in zip(forms, args):
        out += operand_encode(form, value, byteorder, ptr_size)
    return out


def cfa_decode(buf, pos, byteorder, ptr_size):
    if pos >= len(buf):
        raise Malformed("no opcode")
    code = buf[pos]
    pos += 1
    ent = DW_CFA_BY_CODE.get(code)
    if ent is None:
        raise Malformed("0x%02x is not a DWARF v4 call frame instruction" % code)
    name, embedded, forms = ent
    args = [] if embedded is None else [embedded]
    for form in forms:
        v, pos = operand_decode(form, buf, pos, byteorder, ptr_size)
        args.append(v)
    return (name,) + tuple(args), pos


def cfa_decode_all(buf, byteorder, ptr_size):
    out = []
    pos = 0
    while pos < len(buf):
        inst, pos = cfa_decode(buf, pos, byteorder, ptr_size)
        out.append(inst)
    return out


def operands_in_range(forms, args, ptr_size, embedded_count=None):
    """Are all operand values representable?  `forms` as returned by op_forms/cfa_forms.
    Blocks are in range iff every contained operation is."""
    for form, v in zip(forms, args):
        if form == "embedded":
            if not 0 <= v < embedded_count:
                return False
        elif form == "block":
            for op in v:
                _c, _f, cnt = DW_OP[op[0]]
                if not operands_in_range(op_forms(op[0]), op[1:], ptr_size, cnt):
                    return False
        elif form == "bytes":
            pass
        elif not in_range(form, v, ptr_size):
            return False
    return True


# ---------------------------------------------------------------------------
# 2.5.1.1  Literal encodings: a tiny evaluator, and the shortest literal

_CONST_OPS = (
    "DW_OP_lit", "DW_OP_addr",
    "DW_OP_const1u", "DW_OP_const1s", "DW_OP_const2u", "DW_OP_const2s",
    "DW_OP_const4u", "DW_OP_const4s", "DW_OP_const8u", "DW_OP_const8s",
    "DW_OP_constu", "DW_OP_consts",
)


def eval_expr(ops, stack=()):
    """Evaluate the literal encodings (and a few stack/arithmetic operations that need
    no target) on a stack of unbounded mathematical integers.  Returns the stack, top last."""
    st = list(stack)
    for op in ops:
        name = op[0]
        if name in _CONST_OPS:
            # "push the (un)signed value of the operand / the literal embedded in the opcode"
            st.append(op[1])
        elif name == "DW_OP_dup":
            st.append(st[-1])
        elif name == "DW_OP_drop":
            st.pop()
        elif name == "DW_OP_swap":
            st[-1], st[-2] = st[-2], st[-1]
        elif name == "DW_OP_plus":
            b = st.pop()
            a = st.pop()
            st.append(a + b)
        elif name == "DW_OP_plus_uconst":
            st.append(st.pop() + op[1])
        elif name == "DW_OP_neg":
            st.append(-st.pop())
        elif name == "DW_OP_nop":
            pass
        else:
            raise RefError("eval_expr does not model " + name)
    return st


def const_encodings(value, ptr_size, offered=_CONST_OPS):
    """All single literal operations (restricted to the names in `offered`) that push
    `value`, as {name: encoded length in bytes}."""
    out = {}
    # A stack entry is at most 64 bits wide on every target considered: a "constant" is either a
    # signed or an unsigned 64-bit number.  The LEB128 forms themselves are unbounded, so this
    # domain restriction is stated here and not derived from the operand forms.
    if not -(1 << 63) <= value < (1 << 64):
        return out
    for name in offered:
        code, forms, count = DW_OP[name]
        if count is not None:
            if 0 <= value < count:
                out[name] = 1
            continue
        (form,) = forms
        if not in_range(form, value, ptr_size):
            continue
        if form == "uleb":
            n = uleb_len(value)
        elif form == "sleb":
            n = sleb_len(value)
        elif form == "addr":
            n = ptr_size
        else:
            n = FIXED[form][0]
        out[name] = 1 + n
    return out


def const_min_len(value, ptr_size, offered=_CONST_OPS):
    enc = const_encodings(value, ptr_size, offered)
    return min(enc.values()) if enc else None


# ---------------------------------------------------------------------------
# assembler CFI directives -> call frame instruction bytes (GNU as / LLVM MC behaviour for the
# operand-free and register/offset directives; data-alignment-factored directives are not
# supported on purpose: their bytes depend on the CIE)


class UnknownDirective(RefError):
    pass


def directive_encode(directive, operands, byteorder, ptr_size):
    ops = list(operands)

    def need(n):
        if len(ops) != n:
            raise RefError("%s takes %d operand(s)" % (directive, n))

    if directive == ".cfi_escape":
        for b in ops:
            if not (isinstance(b, int) and not isinstance(b, bool) and 0 <= b <= 0xFF):
                raise RangeError(".cfi_escape operand is not a byte: %r" % (b,))
        return bytes(ops)
    if directive == ".cfi_def_cfa":
        need(2)
        return cfa_encode(("DW_CFA_def_cfa", ops[0], ops[1]), byteorder, ptr_size)
    if directive == ".cfi_def_cfa_register":
        need(1)
        return cfa_encode(("DW_CFA_def_cfa_register", ops[0]), byteorder, ptr_size)
    if directive == ".cfi_def_cfa_offset":
        need(1)
        return cfa_encode(("DW_CFA_def_cfa_offset", ops[0]), byteorder, ptr_size)
    if directive == ".cfi_undefined":
        need(1)
        return cfa_encode(("DW_CFA_undefined", ops[0]), byteorder, ptr_size)
    if directive == ".cfi_same_value":
        need(1)
        return cfa_encode(("DW_CFA_same_value", ops[0]), byteorder, ptr_size)
    if directive == ".cfi_register":
        need(2)
        return cfa_encode(("DW_CFA_register", ops[0], ops[1]), byteorder, ptr_size)
    if directive == ".cfi_restore":
        need(1)
        if 0 <= ops[0] < 64:
            return cfa_encode(("DW_CFA_restore", ops[0]), byteorder, ptr_size)
        return cfa_encode(("DW_CFA_restore_extended", ops[0]), byteorder, ptr_size)
    if directive == ".cfi_remember_state":
        need(0)
        return cfa_encode(("DW_CFA_remember_state",), byteorder, ptr_size)
    if directive == ".cfi_restore_state":
        need(0)
        return cfa_encode(("DW_CFA_restore_state",), byteorder, ptr_size)
    raise UnknownDirective(directive)


def parse_directive_text(text):
    """'.cfi_x 1, 2' -> ('.cfi_x', [1, 2])"""
    parts = text.split(None, 1)
    if len(parts) == 1:
        return parts[0], []
    return parts[0], [int(tok.strip(), 0) for tok in parts[1].split(",")]


# ---------------------------------------------------------------------------
# self test: worked examples printed in the standard / produced by binutils


def selftest():
    # DWARF v4 Figure 22 / 23
    for v, enc in [(2, "02"), (127, "7f"), (128, "8001"), (129, "8101"), (130, "8201"), (12857, "b964")]:
        assert uleb_encode(v).hex() == enc, (v, uleb_encode(v).hex())
        assert uleb_decode(bytes.fromhex(enc), 0) == (v, len(enc) // 2)
        assert uleb_len(v) == len(enc) // 2
    for v, enc in [(2, "02"), (-2, "7e"), (127, "ff00"), (-127, "817f"), (128, "8001"), (-128, "807f"),
                   (129, "8101"), (-129, "ff7e")]:
        assert sleb_encode(v).hex() == enc, (v, sleb_encode(v).hex())
        assert sleb_decode(bytes.fromhex(enc), 0) == (v, len(enc) // 2)
        assert sleb_len(v) == len(enc) // 2
    for k in range(0, 80):
        for d in (-2, -1, 0, 1, 2):
            for s in (1, -1):
                v = s * (1 << k) + d
                e = sleb_encode(v)
                assert sleb_decode(e, 0) == (v, len(e)) and sleb_len(v) == len(e)
                if len(e) > 1:  # minimal: one byte fewer does not represent v
                    assert not (-(1 << (7 * (len(e) - 1) - 1)) <= v < (1 << (7 * (len(e) - 1) - 1)))
                if v >= 0:
                    e = uleb_encode(v)
                    assert uleb_decode(e, 0) == (v, len(e)) and uleb_len(v) == len(e)
                    assert len(e) == max(1, -(-v.bit_length() // 7))
    # non-canonical (padded) LEB128 is legal input
    assert uleb_decode(b"\x80\x00", 0) == (0, 2) and sleb_decode(b"\xff\x7f", 0) == (-1, 2)
    # known encodings (readelf/objdump output for x86-64 gcc objects)
    assert cfa_encode(("DW_CFA_def_cfa", 7, 8), "little", 8) == bytes.fromhex("0c0708")
    assert cfa_encode(("DW_CFA_offset", 16, 1), "little", 8) == bytes.fromhex("9001")
    assert cfa_encode(("DW_CFA_def_cfa_offset", 16), "little", 8) == bytes.fromhex("0e10")
    assert cfa_encode(("DW_CFA_advance_loc", 1), "little", 8) == bytes.fromhex("41")
    assert cfa_encode(("DW_CFA_restore", 6), "little", 8) == bytes.fromhex("c6")
    # the PLT CFI of glibc: DW_CFA_def_cfa_expression (DW_OP_breg7 8; DW_OP_breg16 0; DW_OP_lit15; DW_OP_and;
    # DW_OP_lit11; DW_OP_ge; DW_OP_lit3; DW_OP_shl; DW_OP_plus)
    plt = [("DW_OP_breg", 7, 8), ("DW_OP_breg", 16, 0), ("DW_OP_lit", 15), ("DW_OP_and",), ("DW_OP_lit", 11),
           ("DW_OP_ge",), ("DW_OP_lit", 3), ("DW_OP_shl",), ("DW_OP_plus",)]
    raw = bytes.fromhex("0f0b77088000" "3f1a3b2a332422")
    assert cfa_encode(("DW_CFA_def_cfa_expression", plt), "little", 8) == raw
    assert cfa_decode(raw, 0, "little", 8) == (("DW_CFA_def_cfa_expression", plt), len(raw))
    assert op_encode(("DW_OP_const2s", -2), "big", 4) == b"\x0b\xff\xfe"
    assert op_encode(("DW_OP_const2s", -2), "little", 4) == b"\x0b\xfe\xff"
    assert op_encode(("DW_OP_addr", 0x01020304), "big", 4) == b"\x03\x01\x02\x03\x04"
    assert op_encode(("DW_OP_addr", 0x01020304), "little", 8) == b"\x03\x04\x03\x02\x01\0\0\0\0"
    assert op_decode(b"\x0d\xff\xff\xff\x7f", 0, "little", 8) == (("DW_OP_const4s", 0x7FFFFFFF), 5)
    assert op_decode(b"\x0d\xff\xff\xff\x7f", 0, "big", 8) == (("DW_OP_const4s", -129), 5)
    try:
        expr_decode(b"\x08", "little", 8)
        raise AssertionError("truncated operand accepted")
    except Malformed:
        pass
    try:
        cfa_decode(b"\x0f\x01\x08\x05", 0, "little", 8)
        raise AssertionError("operation crossing the end of its block accepted")
    except Malformed:
        pass
    assert len(DW_OP_BY_CODE) == len(_DW_OP_ROWS) + 96 and len(DW_CFA_BY_CODE) == len(_DW_CFA_EXT_ROWS) + 192
    assert eval_expr([("DW_OP_const1s", -1)]) == [-1] and eval_expr([("DW_OP_lit", 31)]) == [31]
    assert const_min_len(0, 8) == 1 and const_min_len(32, 8) == 2 and const_min_len(-1, 8) == 2
    assert const_min_len(256, 8) == 3 and const_min_len(65536, 8) == 4 and const_min_len(-65536, 8) == 4
    assert const_min_len(1 << 63, 8) == 9 and const_min_len(1 << 64, 8) is None and const_min_len(-(1 << 63) - 1, 8) is None
    assert directive_encode(".cfi_restore", [64], "little", 8) == b"\x06\x40"
    assert parse_directive_text(".cfi_def_cfa 7, 8") == (".cfi_def_cfa", [7, 8])
    assert parse_directive_text(".cfi_remember_state") == (".cfi_remember_state", [])
    return True


if __name__ == "__main__":
    selftest()
    print("dwarfref selftest ok")
