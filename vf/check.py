"""CLI: python -m vf.check C07 --tier quick|thorough [--replay file]"""
import argparse
import os
import sys


def main():
    ap = argparse.ArgumentParser()
    ap.add_argument("prop")
    ap.add_argument("--tier", default=os.environ.get("VERIF_TIER") or "quick", choices=["quick", "thorough"])
    ap.add_argument("--replay")
    ap.add_argument("--jobs", type=int)
    a = ap.parse_args()
    sys.path.insert(0, os.path.dirname(os.path.dirname(os.path.abspath(__file__))))
    from vf import core

    rc = core.run_check("vf.props." + a.prop.lower(), a.tier, a.replay, a.jobs)
    sys.exit(rc)


if __name__ == "__main__":
    main()
