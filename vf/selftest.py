"""setup_cmd: nothing to build; check that the working tree is what gets imported and that
the framework's own tables are sane."""
import os
import sys

sys.path.insert(0, os.path.dirname(os.path.dirname(os.path.abspath(__file__))))


def main():
    os.environ["GTIRB_REWRITING_VERIF"] = "1"
    import gtirb_rewriting

    p = os.path.realpath(gtirb_rewriting.__file__)
    assert p.startswith("/repo/src/"), p
    try:
        from vf.world import isa

        isa.selfcheck()
        print("selftest: instruction tables decode with capstone")
    except ImportError:
        pass
    os.makedirs("/verif/evidence", exist_ok=True)
    os.makedirs("/verif/replays", exist_ok=True)
    print("selftest ok: gtirb_rewriting from", p)


if __name__ == "__main__":
    main()
