"""
Run seeded changes against the current checks WITHOUT touching /repo, several at a time:
    python -m vf.seedpar [--par 3] [--jobs 5] [--checks C01,C10] [--missed-only] ids...
Each change is applied in a scratch worktree of /repo under /tmp/vw/<id> (removed afterwards); the checks import
gtirb_rewriting from there (PYTHONPATH + VERIF_ALLOW_TREE) and write evidence / replays to a scratch directory, so
nothing registered in MANIFEST.json is disturbed.  Updates seeded/<id>/meta.json (checks_run, detected_by).
`python -m vf.seedpar --table` only regenerates seeded/RESULTS.md from the meta files.
"""
import concurrent.futures
import json
import os
import shutil
import subprocess
import sys
import time

ROOT = os.path.dirname(os.path.dirname(os.path.abspath(__file__)))
SEEDED = os.path.join(ROOT, "seeded")
SCR = "/tmp/vw"


def sh(cmd, **kw):
    return subprocess.run(cmd, shell=True, capture_output=True, text=True, **kw)


def run_seed(sid, checks, jobs, patch=None):
    wt = os.path.join(SCR, sid)
    out = os.path.join(SCR, "out_" + sid)
    sh("git -C /repo worktree remove --force %s" % wt)
    shutil.rmtree(wt, ignore_errors=True)
    shutil.rmtree(out, ignore_errors=True)
    os.makedirs(out, exist_ok=True)
    a = sh("git -C /repo worktree add --detach %s HEAD" % wt)
    if a.returncode:
        return sid, {"error": a.stderr[-300:]}
    res = {}
    try:
        v = wt + "/src/gtirb_rewriting/version.py"
        if not os.path.exists(v):
            shutil.copy("/repo/src/gtirb_rewriting/version.py", v)
        ap = sh("git -C %s apply --whitespace=nowarn %s" % (wt, patch or os.path.join(SEEDED, sid, "patch.diff")))
        if ap.returncode:
            return sid, {"error": "patch does not apply: " + ap.stderr[-300:]}
        env = dict(os.environ)
        env.pop("PYTHONHASHSEED", None)
        env.update(PYTHONPATH=wt + "/src", VERIF_ALLOW_TREE=wt, VERIF_EVIDENCE_DIR=out + "/evidence", VERIF_REPLAY_DIR=out + "/replays",
                   VERIF_JOBS=str(jobs), PYTHONDONTWRITEBYTECODE="1")
        env.setdefault("VERIF_CAP_S", "3000")
        for p in checks:
            t0 = time.time()
            r = subprocess.run([sys.executable, "-m", "vf.check", p, "--tier", "quick"], cwd=ROOT, capture_output=True, text=True, env=env)
            lines = r.stdout.splitlines()
            vio = [l for l in lines if l.startswith("VIOLATION")]
            kinds = sorted({l.split('"kind": "')[1].split('"')[0] for l in lines if l.strip().startswith("diff:") and '"kind": "' in l})
            res[p] = {"exit": r.returncode, "violations": len(vio), "kinds": kinds[:8], "wall": round(time.time() - t0, 1)}
            if "NOTE: running against scratch tree" not in r.stdout:
                res[p]["error"] = "did not run against the scratch tree: " + (r.stdout[-200:] + r.stderr[-200:])
            if r.returncode == 2:
                res[p]["tail"] = "\n".join(lines[-6:]) + r.stderr[-300:]
            with open(os.path.join(out, p + ".log"), "w") as f:
                f.write(r.stdout + "\n--- stderr\n" + r.stderr)
    finally:
        sh("git -C /repo worktree remove --force %s" % wt)
        shutil.rmtree(wt, ignore_errors=True)
    return sid, res


def table():
    rows = []
    for d in sorted(os.listdir(SEEDED)):
        mp = os.path.join(SEEDED, d, "meta.json")
        if os.path.exists(mp):
            rows.append(json.load(open(mp)))
    with open(os.path.join(SEEDED, "RESULTS.md"), "w") as f:
        f.write("# Seeded property-breaking changes and which checks catch them\n\n")
        f.write("Every change keeps the repository's 331 tests green (confirmed in a scratch worktree) and comes with a demonstration\n"
                "that fails with the change and passes without it. `detected by` = quick tiers that exit 1 with a VIOLATION line when the\n"
                "change is applied (`python -m vf.seedrun <patch> <checks>` on /repo, or `python -m vf.seedpar <id>` in a scratch worktree);\n"
                "all of them exit 0 on the unchanged tree.\n\n")
        f.write("| id | breaks | origin | what it needs to manifest | detected by (quick) | signatures |\n|---|---|---|---|---|---|\n")
        for m in rows:
            needs = " ".join(str(m.get("needs", "")).split())[:260].replace("|", "/")
            kinds = sorted({k for v in m.get("checks_run", {}).values() for k in v.get("kinds", [])})
            f.write("| %s | %s | %s | %s | %s | %s |\n" % (m["id"], m["breaks"], "sub-agent" if "sub-agent" in m.get("origin", "") else "own", needs, ", ".join(m.get("detected_by", [])) or "**none**", ", ".join(kinds[:5])))
        miss = [m["id"] for m in rows if not m.get("detected_by")]
        f.write("\n%d seeded changes, %d detected by at least one check%s.\n" % (len(rows), len(rows) - len(miss), ("; not detected: " + ", ".join(miss)) if miss else ""))
    print("wrote RESULTS.md (%d rows)" % len(rows))


def main():
    args = sys.argv[1:]
    par, jobs, checks, missed = 3, 5, None, False
    ids = []
    while args:
        a = args.pop(0)
        if a == "--par":
            par = int(args.pop(0))
        elif a == "--jobs":
            jobs = int(args.pop(0))
        elif a == "--checks":
            checks = args.pop(0).split(",")
        elif a == "--missed-only":
            missed = True
        elif a == "--table":
            table()
            return 0
        else:
            ids.append(a)
    metas = {}
    for d in sorted(os.listdir(SEEDED)):
        mp = os.path.join(SEEDED, d, "meta.json")
        if os.path.exists(mp) and (not ids or d in ids):
            m = json.load(open(mp))
            if missed and m.get("detected_by"):
                continue
            metas[d] = m
    os.makedirs(SCR, exist_ok=True)
    with concurrent.futures.ThreadPoolExecutor(par) as ex:
        futs = []
        for d, m in metas.items():
            cs = checks or sorted({m["breaks"]} | set(m.get("detected_by", [])) | set(m.get("also_run", [])))
            futs.append(ex.submit(run_seed, d, cs, jobs))
        for fu in concurrent.futures.as_completed(futs):
            d, res = fu.result()
            m = metas[d]
            if "error" in res:
                print(d, "ERROR", res["error"], flush=True)
                continue
            cr = dict(m.get("checks_run") or {})
            cr.update(res)
            m["checks_run"] = cr
            m["detected_by"] = sorted(k for k, v in cr.items() if v.get("exit") == 1)
            json.dump(m, open(os.path.join(SEEDED, d, "meta.json"), "w"), indent=1)
            print(d, {k: (v["exit"], v["kinds"][:3], v["wall"]) for k, v in res.items()}, [v.get("error") or v.get("tail") for v in res.values() if v.get("error") or v.get("tail")] or "", flush=True)
    table()
    return 0


if __name__ == "__main__":
    sys.exit(main())
