"""
Run checks against a seeded change:  python -m vf.seedrun <patch.diff> C01 C02 ...
Applies the patch to /repo (git apply), runs the quick tier of the given checks, reverts
(git checkout -- .) whatever happens, and prints one line per check.
Also:  python -m vf.seedrun --baseline-tests <patch.diff>   runs the repository's own suite with the patch.
"""
import json
import os
import subprocess
import sys
import time

ROOT = os.path.dirname(os.path.dirname(os.path.abspath(__file__)))


def sh(cmd, **kw):
    return subprocess.run(cmd, shell=True, capture_output=True, text=True, **kw)


def main():
    args = sys.argv[1:]
    tests = False
    if args and args[0] == "--baseline-tests":
        tests = True
        args = args[1:]
    patch = os.path.abspath(args[0])
    props = args[1:]
    st = sh("git -C /repo status --porcelain")
    if st.stdout.strip():
        print("refusing: /repo has uncommitted changes:\n" + st.stdout)
        return 2
    ap = sh("git -C /repo apply --whitespace=nowarn %s" % patch)
    if ap.returncode != 0:
        print("patch does not apply: " + ap.stderr[-400:])
        return 2
    results = {}
    try:
        if tests:
            t = sh("cd /repo && /venv/bin/python -m pytest -q -p no:cacheprovider -x --deselect tests/test_e2e.py 2>&1 | tail -3")
            print("repository tests with the patch: " + t.stdout.strip().splitlines()[-1])
        env = dict(os.environ)
        env.pop("PYTHONHASHSEED", None)
        # whether a change is detected must not depend on how busy the machine is: no time cap while measuring detection
        env.setdefault("VERIF_CAP_S", "3000")
        for p in props:
            t0 = time.time()
            r = subprocess.run(
                [sys.executable, "-m", "vf.check", p, "--tier", "quick"], cwd=ROOT, capture_output=True, text=True, env=env
            )
            vio = [l for l in r.stdout.splitlines() if l.startswith("VIOLATION")]
            kinds = sorted({l.split('"kind": "')[1].split('"')[0] for l in r.stdout.splitlines() if l.strip().startswith("diff:") and '"kind": "' in l})
            summ = [l for l in r.stdout.splitlines() if l.startswith(p + " tier=")]
            results[p] = {"exit": r.returncode, "violations": len(vio), "kinds": kinds[:8], "wall": round(time.time() - t0, 1)}
            print("%s exit=%d VIOLATION-lines=%d kinds=%s wall=%.0fs" % (p, r.returncode, len(vio), kinds[:6], time.time() - t0))
            if r.returncode == 2:
                print("   harness problem: " + "\n".join(r.stdout.splitlines()[-5:]) + r.stderr[-300:])
    finally:
        sh("git -C /repo checkout -- .")
        sh("git -C /repo clean -fdq src tests")
    print("RESULT " + json.dumps(results))
    return 0


if __name__ == "__main__":
    sys.exit(main())
