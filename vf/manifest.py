"""Regenerates /verif/MANIFEST.json from the table below:  python -m vf.manifest"""
import json
import os

ROOT = os.path.dirname(os.path.dirname(os.path.abspath(__file__)))
PY = "/venv/bin/python"

ALL = ["C%02d" % i for i in range(1, 21)]

# property -> (category, technique, text, note, design_ref)
LISTING_NOTE = (
    "Trusted: gtirb, gtirb_layout, gtirb_functions, capstone, mcasm/LLVM as single-instruction encoders, Python. "
    "Bounded: module shapes, patch templates and modification-set sizes as stated in the evidence file; nothing is "
    "claimed beyond them. Known findings (known_findings.json) are matched by discrepancy signature, never by property."
)

CLAIMED = {
    "C01": (
        "exploration",
        "bounded exhaustive enumeration of (module shape x non-overlapping modification sets x registration orders) executed on the real RewritingContext, compared with a listing-edit reference model",
        "Every module shape of the alphabet (2-3 code/data blocks, two interval partitions, 5 ISA/format targets) x every "
        "non-overlapping set of <= N edit atoms at every instruction boundary x registration orders is applied with the real "
        "RewritingContext; section bytes must equal the bytes of the listing edited by plain list surgery, with expected patch "
        "bytes taken from an instruction table validated against capstone (not from the Assembler). Raw layouts the listing cannot "
        "express - blocks that overlap, intervals with an uninitialized tail - are checked against a section image spliced by absolute "
        "address. Complete for the stated bound.",
        LISTING_NOTE,
        "DESIGN.md 3, 6/C01, 12",
    ),
    "C02": (
        "model_checking",
        "bounded exhaustive scenario enumeration plus explicit-state BFS over chains of rewrites on the evolving real IR (state = canonical abstraction of the IR), both against the listing-edit reference model",
        "Label placements (start, at_end, several per block, patch-defined) x non-overlapping modification sets with emphasis on whole-block "
        "deletions and every chain of them (with/without retarget_to_proxy) are applied with the real RewritingContext and every symbol's "
        "resolved position is compared with the position of its label in the edited listing; a history explorer then chains single-"
        "modification rewrites on the IR the previous rewrite left (abstracted back to a listing before each step), so later rewrites start "
        "from split/joined/zero-sized leftovers. Complete for the stated bounds.",
        LISTING_NOTE,
        "DESIGN.md 3, 6/C02",
    ),
    "C03": (
        "exploration",
        "bounded exhaustive enumeration of (block ending x edit position x patch ending x follower x callers x function tables) products through the real RewritingContext, CFG flattened per instruction and compared with the control flow of the edited listing; plus chain BFS",
        "Both the expected and the observed CFG are flattened to per-instruction edges (observed side decoded with capstone): fallthrough exactly "
        "where the instruction can fall through and code follows, branch/call edges to the target label's position or proxy with the right flags, "
        "return edges to the return sites of the calls into the function, no endpoint outside the module, no buried control transfer. "
        "Known deviations are matched by cause roles computed from the request (K1/K2/RA..RG), never by property.",
        LISTING_NOTE,
        "DESIGN.md 3, 6/C03",
    ),
    "C04": (
        "exploration",
        "bounded exhaustive enumeration of annotation placements (every byte offset, block- and interval-keyed) x modification sets x expression-creating patches through the real RewritingContext against the listing-edit model",
        "Comments, padding entries, symbolic expressions and their size entries are re-keyed to (section, position) and compared with the model; "
        "expressions created by patches (existing code/data/external symbol, own label, addend, @PLT, PIE inference) must sit at patch position + "
        "inner offset, refer by identity to the module's symbol, and no duplicate symbol names or out-of-range keys may exist.",
        LISTING_NOTE,
        "DESIGN.md 3, 6/C04",
    ),
    "C06": (
        "exploration",
        "bounded exhaustive enumeration of function layouts x modification sets x whole-function deletions through the real RewritingContext, per-instruction function attribution and table structure compared with the listing model; plus chain BFS",
        "Per instruction tag the observed function (via functionBlocks/functionNames) must equal the model's (survivors keep theirs, patch code gets "
        "the function of the block it was inserted into, data none); tables must be disjoint, entries a subset of blocks, key sets equal; entry "
        "promotion only within the same function; vanished functions absent from all three tables.",
        LISTING_NOTE,
        "DESIGN.md 3, 6/C06",
    ),
    "C08": (
        "exploration",
        "bounded exhaustive enumeration of CFI-annotated modules x modification sets through the real RewritingContext; unwind state per instruction computed with an independent reference CFI interpreter before and after",
        "The directive table before and after the rewrite is evaluated with vf/cfimodel.py (written from DWARF 6.4): clean evaluation is preserved, "
        "startproc/endproc/remember/restore are neither lost nor duplicated (whole procedures without survivors may vanish), every surviving "
        "instruction stays inside/outside a procedure, and without deletions the unwind state at every original and patch instruction equals "
        "the state of the edited listing (state at the insertion point plus the patch's own directives); procedures must partition survivors and patch "
        "code the way they do in the edited listing. Tables are also fed in descending offset order. The library's evaluator must accept the result too.",
        LISTING_NOTE,
        "DESIGN.md 3, 6/C08",
    ),
    "C10": (
        "exploration",
        "exhaustive enumeration of small byte-interval layouts through split_byte_interval/join_byte_intervals, of every module shape through an empty apply(), and of aligned modules x single modifications",
        "All intervals of size <= S with <= 3 blocks (zero-sized, overlapping, gaps) x initialized sizes x annotation offsets x alignment x nop sizes "
        "x argument styles are split and re-joined: blocks keep bytes/addresses/annotations, groups get their own interval, a fully initialized "
        "interval is restored exactly, otherwise only whole-nop/zero padding appears; an empty apply() must leave a canonical UUID-free dump of "
        "every module shape used by the other checks unchanged; aligned blocks stay aligned after single modifications and the bytes differ from "
        "the model only by padding in front of aligned blocks; one module object is taken through every history of <= H events {empty apply, "
        "split+join, annotate, tables replaced, tables dropped} and its annotations are read back by absolute address after every event.",
        LISTING_NOTE,
        "DESIGN.md 6/C10, 12",
    ),
    "C05": (
        "fault_enumeration",
        "bounded exhaustive enumeration of (module, modification set) x every patch callback k x 3 fault kinds, each run through the real apply() and a whole-IR validator incl. protobuf round trip",
        "For every scenario the resulting IR is validated (closure of CFG, symbols, expressions and every aux table scanned generically; blocks inside "
        "intervals; new blocks never overlap; zero-sized blocks only with a reason; addresses; canonical dump unchanged by a protobuf round trip). "
        "Then for each patch callback k and each fault kind (exception, invalid assembly, undefined symbol) the run is repeated with the fault "
        "injected and the left-behind IR must satisfy: ir.cfg is the caller's object holding every live edge, no symbol lost its referent, "
        "closure and serializability.",
        LISTING_NOTE,
        "DESIGN.md 6/C05",
    ),
    "C07": (
        "exploration",
        "bounded exhaustive enumeration of modules x scope kinds x positions x filters x 1-3 registrations over 1-2 passes through the real PassManager against a designation model",
        "The designated block set is computed from the listing (exit blocks from the input control flow); per registration the multiset of patch "
        "invocations, the InsertionContext (block, offset, function), UnresolvableScopeError and the resulting bytes (each invocation tag exactly "
        "once at the designated boundary, registration order at equal positions, across passes) are compared.",
        LISTING_NOTE,
        "DESIGN.md 6/C07",
    ),
    "C09": (
        "model_checking",
        "differential bounded exhaustive enumeration (batch apply vs one-at-a-time in address order, canonical dumps incl. block boundaries) plus invariant checking of the real caches at every hook event (intermediate state) of the batch run",
        "Every modification set of the bound - in particular patches naming, branching to or calling labels of blocks an earlier modification "
        "moved, split, joined or deleted - is applied in one context with cache-vs-IR invariants evaluated at every before_modify / after_modify "
        "/ before_teardown event (block ordering vs positions, functions_by_block vs functionBlocks, return-edge indices vs a CFG scan, the "
        "reference forest walked without mutation), and one modification per context in address order; the final canonical dumps must agree.",
        LISTING_NOTE + " Needs the GTIRB_REWRITING_VERIF hook commit in /repo.",
        "DESIGN.md 2, 6/C09",
    ),
    "C11": (
        "model_checking",
        "stateless exploration of iteration-order schedules with a deviation bound (gtirb's unordered views wrapped from the harness), exhaustive registration-order permutations, and hash-seed/UUID sub-process runs; oracle = identical canonical dump",
        "For every scenario every execution in which one answer of gtirb's unordered views is reversed/rotated is run and must give the "
        "canonical dump of the default schedule (prefix divergence is a hard error); every permutation of the registration order of sets at "
        "different locations must give one dump; fresh processes with different PYTHONHASHSEED and uuid4 generators must agree.",
        LISTING_NOTE + " Python-internal set orders not reachable through gtirb accessors are only varied by seeds (sampled).",
        "DESIGN.md 6/C11",
    ),
    "C12": (
        "exploration",
        "bounded exhaustive enumeration of token sequences (5 dialects, ELF/PE, trivially_unreachable on/off) through the real Assembler against a declarative position-based reference model and capstone",
        "Every token sequence up to the stated length over the vocabulary is assembled; capstone decoding, block tiling, per-kind edge sets, "
        "label placement, data-block classification and symbolic expressions are compared with a reference model derived from the token list "
        "(the token table itself is validated against capstone, never against the Assembler).",
        "Trusted: capstone, mcasm/LLVM as instruction encoders. Behaviour on unsupported text is recorded, not judged.",
        "DESIGN.md 6/C12",
    ),
    "C13": (
        "exploration",
        "bounded exhaustive enumeration of binding vocabularies, copy multisets through real rewrites, and every legal split of every short text into chunks, against identity/uniqueness/position oracles and a whole-vs-chunked differential",
        "Binding: names resolve to the module's Symbol by identity, unknown names raise or create exactly one proxy symbol, redefinitions raise. "
        "Copies: the same temp-label patch inserted at 1..4 sites (with prologue/epilogue chunks) yields unique names and each copy's branch and "
        "expression target its own label (located by tagged instructions). Chunking: every (text, legal split) pair gives the same canonical "
        "Assembler.Result as the whole text.",
        "Trusted: mcasm/LLVM. Two chunking deviations outside the way RewritingContext drives the assembler are known findings.",
        "DESIGN.md 6/C13",
    ),
    "C14": (
        "exploration",
        "bounded exhaustive enumeration of operation/instruction classes x operand boundary vectors x byte orders x pointer sizes, all 256 opcodes in both spaces, concatenations, and constant windows, against an independent DWARF v4 codec",
        "Every Operation/Instruction class x cartesian boundary operand vectors x 4 (byte order, pointer size) configurations is encoded "
        "by the library and by an independent codec typed in from DWARF v4 (vf/dwarfref.py); decode(encode(x)) == x with exact "
        "consumption; out-of-range -> ValueError; all 256 first bytes in both opcode spaces; parse_cfi_instructions on all "
        "concatenations of <= 3 instructions; directive form re-encoded independently; make_const_op on the full 18-bit window "
        "and every 64-bit length/validity boundary window, value and minimal length checked by a reference stack evaluator.",
        "Trusted: the reference codec (self-tested against the standard's worked LEB128 examples). The 64-bit range is covered by boundary windows, not value by value (evidence: subspace_exhaustive).",
        "DESIGN.md 6/C14",
    ),
    "C15": (
        "model_checking",
        "explicit-state BFS over directive histories (35 events per ABI incl. location events); every transition runs the real evaluate_cfi_directives on a fresh module and is compared with an independent reference interpreter",
        "The reachable state graph of the reference CFI interpreter (vf/cfimodel.py, written from DWARF 6.4) is explored breadth-first to the depth "
        "bound; for every history the real evaluator must yield the same (block, offset, state) sequence, raise CFIStateError/ValueError at the "
        "same step for ill-formed histories and nothing else, and copies taken at yield time must stay equal to their snapshot. The canonical "
        "state keeps the closing state of the previous procedure as a ghost component, so two-procedure histories are not merged. X64, ARM64 and "
        "big-endian MIPS32 ELF.",
        "Trusted: the reference interpreter. PE ABIs define no DWARF return column and are out of scope; ARM64/MIPS32 are searched one event shallower than X64.",
        "DESIGN.md 6/C15",
    ),
    "C16": (
        "exploration",
        "bounded exhaustive enumeration of Constraints configurations per ABI; the prologue/epilogue produced by the real rewriting path is executed on a tiny concrete CPU with havoc at the patch body",
        "For 5 ABIs x clobber subsets x flags x align_stack x preserve_caller_saved x scratch counts x reads x leaf/non-leaf x initial SP alignments the code "
        "is generated through a real RewritingContext.insert_at/apply, decoded with capstone and run on vf/machine (any instruction outside the modelled "
        "subset is a hard error); at the marker every declared resource is poisoned; afterwards registers, flags and SP must be restored, no write at or "
        "above SP or into the red zone, every read slot written by this code, scratch registers well-formed, stack_adjustment exact, body SP aligned. "
        "Every ordered pair (thorough: triple) of ABIs is additionally run in one fresh interpreter (process history).",
        "Trusted: capstone, the machine models (self-checked on hand-encoded snippets). Register power sets by representatives in quick, 2^14 x86-64 subsets in thorough.",
        "DESIGN.md 6/C16",
    ),
    "C17": (
        "exploration",
        "bounded exhaustive enumeration of argument lists x conventions x prologue profiles; the real CallPatch inside the real prologue/epilogue is executed on the concrete CPU up to and across the call",
        "0..16 arguments over 17 value classes (full product for n <= 2, every position x every class otherwise), default and custom conventions, "
        "align_stack on/off, every prologue adjustment; at the call the i-th argument must be in the i-th register / stack slot above the shadow space with "
        "its exact value (symbols = address token), SP aligned, and after the callee returns (popping under callee cleanup) SP is restored.",
        "Trusted: capstone, the machine models. F8/F9/F35 are known findings matched by signature.",
        "DESIGN.md 6/C17",
    ),
    "C18": (
        "exploration",
        "bounded exhaustive enumeration of hand-built modules (symbol kinds x use-place subsets x PIE x ABIs x retarget sets x one modification) through RewritingContext.retarget_symbol_uses + apply(), against a by-value snapshot oracle",
        "All 512 subsets of the nine places a symbol can be used x kinds of A/B/C x PIE x retarget sets (single, two-to-one, chain) x one "
        "neighbouring modification, on x86-64 ELF, ARM64 ELF and x64 PE, are run through the real API; expressions, CFI, symbolForwarding, "
        "operand edges, return edges, bystanders and refusals are compared with an oracle written from the statement and a hand-typed "
        "attribute rule table.",
        "Trusted: gtirb, capstone (table self-check). F11 (return edges do not follow a retargeted call) is a known finding matched by its own discrepancy kind.",
        "DESIGN.md 6/C18",
    ),
    "C19": (
        "exploration",
        "bounded exhaustive lattice enumeration (place subsets x sharing x version configurations x force flags) through RewritingContext.delete_symbol + apply(), against an independent full-scan oracle",
        "Every subset of the 11 (ELF) / 10 (PE) places a symbol can be mentioned, private or shared with a kept symbol, x force-request modes, plus "
        "pairs of deleted symbols over grouped places and 2 304 symbol-version configurations, is run through the real API; afterwards every aux table "
        "is scanned generically for the deleted symbols, version definitions/requirements are compared with an oracle computed from the statement, "
        "kept entries must be unchanged and the IR must survive a protobuf round trip.",
        "Trusted: gtirb protobuf codec. For two deleted symbols the subset quantifier is covered over grouped places.",
        "DESIGN.md 6/C19",
    ),
    "C20": (
        "model_checking",
        "explicit-state BFS over operation histories of the real containers against reference models (fixpoint for 4 universes, depth-bounded for ReferenceCache)",
        "Every history of public operations up to the bound is executed on the real ReferenceCache / ReturnEdgeCache / "
        "make_return_cache / BlockOrdering / LinkedListNode / OffsetMapping / IdentitySet with a dict/list/set model in "
        "lockstep; returned values and a non-mutating structural invariant are compared in every reached state. "
        "ReturnEdgeCache (256 edge sets), BlockOrdering (5 blocks), OffsetMapping (2x2x2) and IdentitySet reach a "
        "fixpoint, i.e. the check is complete for those universes; ReferenceCache is depth-bounded.",
        "Trusted: gtirb, Python. Universe sizes as stated in evidence.assumptions; canonical state = model + internal shape.",
        "DESIGN.md 6/C20",
    ),
}

PENDING_REASON = "check not built yet in this round (designed in DESIGN.md section 6); not claimed until its machinery exists"


def main():
    checks = []
    for p in ALL:
        if p not in CLAIMED:
            continue
        cat, tech, text, note, ref = CLAIMED[p]
        checks.append(
            {
                "property_id": p,
                "quick_cmd": "%s -m vf.check %s --tier quick" % (PY, p),
                "thorough_cmd": "%s -m vf.check %s --tier thorough" % (PY, p),
                "evidence_file": "/verif/evidence/%s.json" % p,
                "replay_cmd_template": "%s -m vf.check %s --replay {path}" % (PY, p),
                "engine": "vf",
                "level_claimed": {"category": cat, "text": text, "design_ref": ref},
                "level_note": note,
                "technique": tech,
            }
        )
    hooks_commits = []
    hc = os.path.join(ROOT, "hook_commits.txt")
    if os.path.exists(hc):
        hooks_commits = [l.split()[0] for l in open(hc) if l.strip()]
    man = {
        "version": 1,
        "setup_cmd": "%s -m vf.selftest" % PY,
        "hooks": {
            "guard": "GTIRB_REWRITING_VERIF",
            "enable": "checks export GTIRB_REWRITING_VERIF=1 for themselves and their worker processes; /repo is installed editable in /venv so the working tree is what runs (no build step)",
            "baseline_off_cmd": "cd /repo && env -u GTIRB_REWRITING_VERIF /venv/bin/python -m pytest -ra -q -p no:cacheprovider --timeout=900 --continue-on-collection-errors",
            "source_commits": hooks_commits,
            "add_only": True,
        },
        "engines": [
            {
                "name": "vf",
                "path": "/verif/vf",
                "serves_properties": sorted(CLAIMED),
                "kind_free_text": "hand-written Python explorers: bounded exhaustive scenario enumeration and explicit-state BFS, both executing the real implementation, compared against reference models",
            }
        ],
        "checks": checks,
        "not_applicable": [{"property_id": p, "reason": PENDING_REASON} for p in ALL if p not in CLAIMED],
        "notes": "See DESIGN.md. Known findings: /verif/known_findings.json. Seeded property-breaking changes: /verif/seeded/.",
    }
    with open(os.path.join(ROOT, "MANIFEST.json"), "w") as f:
        json.dump(man, f, indent=1)
    print("MANIFEST.json: %d checks, %d not claimed" % (len(checks), len(man["not_applicable"])))


if __name__ == "__main__":
    main()
