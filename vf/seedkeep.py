"""
Confirm and keep a seeded change produced by a sub-agent:
    python -m vf.seedkeep C07 A [extra checks...]
Looks in /tmp/mut/out_C07/{patchA.diff,demoA.py,notesA.txt} and the scratch worktree /tmp/mut/C07.
1. worktree clean -> demo must PASS; 2. apply patch -> repository tests must pass (331), demo must FAIL;
3. revert; 4. run the property's quick check (and extras) against a scratch worktree with the patch (vf.seedpar.run_seed);
5. write /verif/seeded/C07_A/{patch.diff,demo.py,notes.txt,meta.json}.
"""
import json
import os
import shutil
import subprocess
import sys

ROOT = os.path.dirname(os.path.dirname(os.path.abspath(__file__)))


def sh(cmd):
    return subprocess.run(cmd, shell=True, capture_output=True, text=True)


def main():
    wname, which = sys.argv[1], sys.argv[2]
    extras = sys.argv[3:]
    wt = "/tmp/mut/%s" % wname
    out = "/tmp/mut/out_%s" % wname
    pid = wname[:3]  # "C03b" = second round for C03
    rnd = wname[3:]  # "" first round, "b" second, "c" third
    keep_as = {"": {"A": "A", "B": "B"}, "b": {"A": "C", "B": "D"}, "c": {"A": "E", "B": "F"}, "d": {"A": "G", "B": "H"}, "e": {"A": "I", "B": "J"}, "f": {"A": "I", "B": "J"}}[rnd][which]
    patch = "%s/patch%s.diff" % (out, which)
    demo = "%s/demo%s.py" % (out, which)
    notes = "%s/notes%s.txt" % (out, which)
    if not os.path.exists(wt + "/src/gtirb_rewriting/version.py"):
        shutil.copy("/repo/src/gtirb_rewriting/version.py", wt + "/src/gtirb_rewriting/version.py")
    sh("git -C %s checkout -- ." % wt)
    env = "cd %s && PYTHONPATH=%s/src" % (wt, wt)
    r0 = sh("%s /venv/bin/python %s" % (env, demo))
    ap = sh("git -C %s apply --whitespace=nowarn %s" % (wt, patch))
    if ap.returncode:
        print("patch does not apply:", ap.stderr[-300:])
        return 2
    t = sh("%s /venv/bin/python -m pytest -q -p no:cacheprovider --deselect tests/test_e2e.py tests 2>&1 | tail -1" % env)
    r1 = sh("%s /venv/bin/python %s" % (env, demo))
    sh("git -C %s checkout -- ." % wt)
    tests_line = t.stdout.strip()
    ok = r0.returncode == 0 and r1.returncode != 0 and "331 passed" in tests_line and "failed" not in tests_line
    print("demo clean: exit %d | tests with change: %s | demo with change: exit %d  => %s" % (r0.returncode, tests_line, r1.returncode, "CONFIRMED" if ok else "REJECTED"))
    if not ok:
        print(r0.stdout[-300:], r1.stdout[-300:])
        return 1
    checks = [pid] + extras
    from vf import seedpar

    _, res = seedpar.run_seed("%s_%s" % (pid, keep_as), checks, int(os.environ.get("SEED_JOBS", "6")), patch=patch)
    for k, v in res.items():
        print("   ", k, v if isinstance(v, str) else {a: b for a, b in v.items() if a != "tail"})
    if "error" in res:
        return 2
    dst = os.path.join(ROOT, "seeded", "%s_%s" % (pid, keep_as))
    os.makedirs(dst, exist_ok=True)
    shutil.copy(patch, dst + "/patch.diff")
    shutil.copy(demo, dst + "/demo.py")
    if os.path.exists(notes):
        shutil.copy(notes, dst + "/notes.txt")
    meta = {
        "id": "%s_%s" % (pid, keep_as),
        "breaks": pid,
        "origin": "fresh sub-agent given only the property text and a scratch worktree",
        "needs": open(notes).read()[:1500] if os.path.exists(notes) else "",
        "confirmed": {"repository_tests_with_change": tests_line, "demo_exit_clean": r0.returncode, "demo_exit_with_change": r1.returncode,
                      "how": "git apply in scratch worktree /tmp/mut/%s; PYTHONPATH=<wt>/src pytest tests (e2e deselected); demo run with and without the change" % wname},
        "checks_run": res,
        "detected_by": sorted(k for k, v in res.items() if v.get("exit") == 1),
    }
    json.dump(meta, open(dst + "/meta.json", "w"), indent=1)
    print("kept in", dst, "detected_by", meta["detected_by"])
    return 0


if __name__ == "__main__":
    sys.exit(main())
