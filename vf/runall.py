"""Run every claimed check's quick (or thorough) tier in turn and print a summary table."""
import json
import os
import subprocess
import sys
import time

ROOT = os.path.dirname(os.path.dirname(os.path.abspath(__file__)))


def main():
    tier = sys.argv[1] if len(sys.argv) > 1 else "quick"
    only = sys.argv[2:]
    man = json.load(open(os.path.join(ROOT, "MANIFEST.json")))
    rows = []
    for c in man["checks"]:
        pid = c["property_id"]
        if only and pid not in only:
            continue
        cmd = c["quick_cmd"] if tier == "quick" else c["thorough_cmd"]
        t0 = time.time()
        r = subprocess.run(cmd, shell=True, cwd=ROOT, capture_output=True, text=True)
        summ = [l for l in r.stdout.splitlines() if l.startswith(pid + " tier=")]
        known = sum(1 for l in r.stdout.splitlines() if l.startswith("KNOWN-FINDING"))
        vio = sum(1 for l in r.stdout.splitlines() if l.startswith("VIOLATION"))
        rows.append((pid, r.returncode, round(time.time() - t0, 1), vio, known, summ[-1][:160] if summ else r.stdout[-200:] + r.stderr[-200:]))
        print("%s exit=%d wall=%.0fs VIOLATION=%d KNOWN=%d | %s" % rows[-1], flush=True)
    bad = [r for r in rows if r[1] != 0]
    print("ALL OK" if not bad else "NOT OK: %s" % [r[0] for r in bad])
    return 1 if bad else 0


if __name__ == "__main__":
    sys.exit(main())
