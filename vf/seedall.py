"""Re-run every kept seeded change against the current checks and regenerate seeded/RESULTS.md:
    python -m vf.seedall [ids...]
For each /verif/seeded/<id>/ the property it breaks plus every check that ever detected it are run."""
import json
import os
import subprocess
import sys

ROOT = os.path.dirname(os.path.dirname(os.path.abspath(__file__)))
SEEDED = os.path.join(ROOT, "seeded")


def main():
    only = sys.argv[1:]
    rows = []
    for d in sorted(os.listdir(SEEDED)):
        mp = os.path.join(SEEDED, d, "meta.json")
        if not os.path.exists(mp):
            continue
        meta = json.load(open(mp))
        if not only or d in only:
            checks = sorted({meta["breaks"]} | set(meta.get("detected_by", [])) | set(meta.get("also_run", [])))
            r = subprocess.run([sys.executable, "-m", "vf.seedrun", os.path.join(SEEDED, d, "patch.diff")] + checks, cwd=ROOT, capture_output=True, text=True)
            res = {}
            for l in r.stdout.splitlines():
                if l.startswith("RESULT "):
                    res = json.loads(l[7:])
            if res:
                meta["checks_run"] = res
                meta["detected_by"] = sorted(k for k, v in res.items() if v.get("exit") == 1)
                json.dump(meta, open(mp, "w"), indent=1)
            print(d, meta.get("detected_by"), flush=True)
        rows.append(meta)
    with open(os.path.join(SEEDED, "RESULTS.md"), "w") as f:
        f.write("# Seeded property-breaking changes and which checks catch them\n\n")
        f.write("Every change keeps the repository's 331 tests green (confirmed in a scratch worktree) and comes with a demonstration\n"
                "that fails with the change and passes without it. `detected by` = quick tiers that exit 1 with a VIOLATION line when the\n"
                "patch is applied to /repo (`python -m vf.seedrun <patch> <checks>`); all of them exit 0 on the unchanged tree.\n\n")
        f.write("| id | breaks | origin | what it needs to manifest | detected by (quick) | signatures |\n|---|---|---|---|---|---|\n")
        for m in rows:
            needs = " ".join(str(m.get("needs", "")).split())[:260].replace("|", "/")
            kinds = sorted({k for v in m.get("checks_run", {}).values() for k in v.get("kinds", [])})
            f.write("| %s | %s | %s | %s | %s | %s |\n" % (m["id"], m["breaks"], "sub-agent" if "sub-agent" in m.get("origin", "") else "own", needs, ", ".join(m.get("detected_by", [])) or "**none**", ", ".join(kinds[:5])))
        miss = [m["id"] for m in rows if not m.get("detected_by")]
        f.write("\n%d seeded changes, %d detected by at least one check%s.\n" % (len(rows), len(rows) - len(miss), ("; not detected: " + ", ".join(miss)) if miss else ""))
    print("wrote RESULTS.md")


if __name__ == "__main__":
    main()
