"""
Shared by C16 / C17: ABI facts written down independently of gtirb_rewriting.abi,
a small GTIRB module with blocks in a leaf function / a non-leaf function / no
function, and extraction of the code a real RewritingContext inserted.
"""
import logging

import gtirb
import gtirb_functions
from gtirb_test_helpers import (
    add_code_block,
    add_data_block,
    add_data_section,
    add_edge,
    add_function,
    add_proxy_block,
    add_symbol,
    add_text_section,
    create_test_module,
)

import gtirb_rewriting

ISA = gtirb.Module.ISA
FF = gtirb.Module.FileFormat

WHERES = ("leaf", "nonleaf", "nofunc", "tail")

_X64_ALL = ["rax", "rbx", "rcx", "rdx", "rsi", "rdi", "r8", "r9", "r10", "r11", "r12", "r13", "r14", "r15"]

# Facts taken from the psABI documents (System V AMD64, Microsoft x64, Win32
# cdecl/stdcall, AAPCS64, MIPS o32), NOT from the code under test.
ABIS = {
    "x64-elf": dict(
        isa=ISA.X64, ff=FF.ELF, machine="x64", ptr=8, sp="rsp", stack_align=16, red_zone=128,
        caller_saved=["rax", "rcx", "rdx", "rsi", "rdi", "r8", "r9", "r10", "r11"],
        reserved=["rsp", "rbp", "rip"],
        allocatable=_X64_ALL,
        rep_clobbers=["rax", "rcx", "rbx", "r11", "r15"], reads_pair=["rdx", "rsi"], reads_overlap=["rax"], reads_never=[],
        wide_clobbers=_X64_ALL,
        ret=b"\xc3", call=(b"\xe8\0\0\0\0", 1), jmp=(b"\xe9\0\0\0\0", 1),
    ),
    "x64-pe": dict(
        isa=ISA.X64, ff=FF.PE, machine="x64", ptr=8, sp="rsp", stack_align=16, red_zone=0,
        caller_saved=["rax", "rcx", "rdx", "r8", "r9", "r10", "r11"],
        reserved=["rsp", "rbp", "rip"],
        allocatable=_X64_ALL,
        rep_clobbers=["rax", "rcx", "rbx", "r11", "r15"], reads_pair=["rdx", "rsi"], reads_overlap=["rax"], reads_never=[],
        wide_clobbers=_X64_ALL,
        ret=b"\xc3", call=(b"\xe8\0\0\0\0", 1), jmp=(b"\xe9\0\0\0\0", 1),
    ),
    "ia32-pe": dict(
        isa=ISA.IA32, ff=FF.PE, machine="ia32", ptr=4, sp="esp", stack_align=4, red_zone=0,
        caller_saved=["eax", "ecx", "edx"],
        reserved=["esp", "ebp", "eip"],
        allocatable=["eax", "ebx", "ecx", "edx", "esi", "edi"],
        rep_clobbers=["eax", "ebx", "ecx", "edx", "esi", "edi"], reads_pair=["eax", "edx"], reads_overlap=[], reads_never=[],
        wide_clobbers=["eax", "ebx", "ecx", "edx", "esi", "edi"],
        ret=b"\xc3", call=(b"\xe8\0\0\0\0", 1), jmp=(b"\xe9\0\0\0\0", 1),
    ),
    "arm64-elf": dict(
        isa=ISA.ARM64, ff=FF.ELF, machine="arm64", ptr=8, sp="sp", stack_align=16, red_zone=0,
        # AAPCS64: r0-r7 arguments, r8 indirect result, r9-r15 temporaries, r16/r17 IP0/IP1
        # (corruptible by veneers/PLT stubs at any call and allocated by compilers as temporaries),
        # r30 link register; r18 (platform register) is left out
        # x16/x17 (IP0/IP1) are left out of the oracle set: the statement does not define the
        # caller-saved set and the library's own list stops at x15 - the oracle only demands what
        # every reading of "caller-saved" includes (observation recorded in notes/findings_C16.md)
        caller_saved=["x%d" % i for i in range(16)] + ["x30"],
        reserved=["x16", "x17", "x18", "x29", "x30", "sp", "xzr"],
        allocatable=["x%d" % i for i in range(31) if i not in (16, 17, 18, 29, 30)],
        rep_clobbers=["x0", "x1", "x19", "x29", "x30"], reads_pair=["x2", "x3"], reads_overlap=["x0"], reads_never=["x29"],
        wide_clobbers=["x0", "x1", "x8", "x15", "x16", "x18", "x19", "x28", "x29", "x30"],
        ret=bytes.fromhex("c0035fd6"), call=(bytes.fromhex("00000094"), 0), jmp=(bytes.fromhex("00000014"), 0),
    ),
    "mips32-elf": dict(
        isa=ISA.MIPS32, ff=FF.ELF, machine="mips32", ptr=4, sp="sp", stack_align=8, red_zone=0,
        # o32: $v0-$v1, $a0-$a3, $t0-$t9 are not preserved across calls.  ($at is not preserved either but
        # is reserved for the assembler, and the psABI table lists $ra as "n/a"; both are left out so that
        # the oracle only demands what every reading of "caller-saved" includes.)
        caller_saved=["v0", "v1", "a0", "a1", "a2", "a3"] + ["t%d" % i for i in range(10)],
        has_flags=False,
        reserved=["t8", "t9", "gp", "sp", "fp", "s8", "ra", "k0", "k1", "at", "zero"],
        allocatable=["t%d" % i for i in range(8)] + ["a0", "a1", "a2", "a3", "v0", "v1"] + ["s%d" % i for i in range(8)],
        rep_clobbers=["t0", "t8", "a0", "s0"], reads_pair=["t1", "t2"], reads_overlap=["t0"], reads_never=["a0"],
        wide_clobbers=["t0", "t7", "t8", "t9", "a0", "s0", "v0", "ra"],
        ret=bytes.fromhex("03e00008") + b"\0\0\0\0", call=(bytes.fromhex("0c000000") + b"\0\0\0\0", 0), jmp=(bytes.fromhex("08000000") + b"\0\0\0\0", 0),
    ),
}


class HarnessError(Exception):
    """The harness itself is inconsistent (never a property verdict)."""


def quiet():
    logging.getLogger("gtirb_rewriting").setLevel(logging.CRITICAL)
    logging.getLogger("gtirb_rewriting.abi").setLevel(logging.CRITICAL)


class World:
    """One fresh GTIRB module with `n_each` single-instruction target blocks per
    position kind, each in a byte interval of its own (so that whatever gets
    inserted at offset 0 of a block is exactly the interval contents minus the
    original instruction)."""

    def __init__(self, abi_key, n_each=1, with_arg_symbols=False, order=None):
        A = ABIS[abi_key]
        self.abi_key = abi_key
        self.A = A
        bo = gtirb.Module.ByteOrder.Big if A["isa"] == ISA.MIPS32 else None
        self.ir, self.m = create_test_module(A["ff"], A["isa"], byte_order=bo)
        m = self.m
        self.text, bi0 = add_text_section(m, 0x1000)
        self.ret = A["ret"]
        callee_block = add_code_block(bi0, self.ret)
        self.callee_local = add_symbol(m, "local_callee", callee_block)
        add_function(m, self.callee_local, callee_block)
        self.blocks = {w: [] for w in WHERES}
        addr = 0x10000
        for w in (order or WHERES):  # address order of the three kinds of target blocks
            for _ in range(n_each):
                bi = gtirb.ByteInterval(contents=b"", address=addr)
                bi.section = self.text
                addr += 0x1000
                self.blocks[w].append(add_code_block(bi, self.ret))
        # non-leaf function: a block that really calls, falling through to the targets
        bi = gtirb.ByteInterval(contents=b"", address=addr)
        bi.section = self.text
        code, off = A["call"]
        callblock = add_code_block(bi, code, {off: gtirb.SymAddrConst(0, self.callee_local)})
        add_edge(self.ir.cfg, callblock, callee_block, gtirb.Edge.Type.Call)
        add_edge(self.ir.cfg, callblock, self.blocks["nonleaf"][0], gtirb.Edge.Type.Fallthrough)
        # function without any call that leaves through a jump to another function (sibling/tail call): it never pushes a
        # return address, so as far as anyone can tell from the CFG it "may be a leaf"
        bi = gtirb.ByteInterval(contents=b"", address=addr + 0x1000)
        bi.section = self.text
        jcode, joff = A["jmp"]
        jmpblock = add_code_block(bi, jcode, {joff: gtirb.SymAddrConst(0, self.callee_local)})
        add_edge(self.ir.cfg, jmpblock, callee_block, gtirb.Edge.Type.Branch)
        add_function(m, "tail_fn", self.blocks["tail"][0], set(self.blocks["tail"][1:]) | {jmpblock})
        add_function(m, "leaf_fn", self.blocks["leaf"][0], set(self.blocks["leaf"][1:]))
        add_function(m, "nonleaf_fn", callblock, set(self.blocks["nonleaf"]))
        self.syms = {}
        if with_arg_symbols:
            self.syms["foo"] = add_symbol(m, "foo", add_proxy_block(m))
            self.syms["esym"] = add_symbol(m, "esym", add_proxy_block(m))
            _, dbi = add_data_section(m, 0x80000)
            self.syms["dsym"] = add_symbol(m, "dsym", add_data_block(dbi, b"\0" * 8))
        self.functions = gtirb_functions.Function.build_functions(m)
        self.ctx = gtirb_rewriting.RewritingContext(m, self.functions)

    def leaf_table(self):
        """What the library decided about leafness, by function name."""
        names = {f.uuid: f.get_name() for f in self.functions}
        tbl = self.m.aux_data["leafFunctions"].data
        return {names[u]: v for u, v in tbl.items() if u in names}

    def inserted(self, block):
        """(code bytes, relocations) the rewriting put in front of the block's
        original instruction."""
        bi = block.byte_interval
        data = bytes(bi.contents)
        if not data.endswith(self.ret) or bi.section is not self.text:
            raise HarnessError("target interval lost its original instruction: %s" % data.hex())
        code = data[: len(data) - len(self.ret)]
        relocs = {}
        for off, e in bi.symbolic_expressions.items():
            if not isinstance(e, gtirb.SymAddrConst):
                raise HarnessError("unexpected symbolic expression %r" % (e,))
            relocs[off] = (e.symbol.name, e.offset, tuple(sorted(a.name for a in e.attributes)))
        return code, relocs
