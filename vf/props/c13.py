"""
C13  Assembler symbol discipline and incremental assembly.

Three bounded exhaustive families, all on the real code:

  bind    every token sequence over {define, jump to, call, take the address of} x
          {module code / data / proxy symbol, unknown names, own global, own temp label},
          allow_undef_symbols on/off, temp suffix none / "_9"  -> direct Assembler
  copies  the same temp-label patch inserted at every multiset of 1..4 sites of ONE real
          RewritingContext.apply(), with and without prologue/epilogue chunks
  chunk   every text over the vocabulary, every split into consecutive chunks that never
          uses a label defined in a later chunk: chunked Assembler.Result == whole
"""
from __future__ import annotations

import collections
import itertools

import gtirb

from .. import asmtokens as T
from ..core import TaskResult

PROPERTY = "C13"
LEVEL = "exploration"
RULE = (
    "bind: all token sequences up to the stated length over the binding vocabulary x allow_undef x suffix; "
    "copies: all multisets of insertion sites (6 sites, 1..4 insertions) x patch template x constraints x insert/replace; "
    "chunk: all texts up to the stated number of lines (labels defined at most once, own labels only used when defined) x all "
    "2^(n-1) splits that keep every label use at or after the chunk defining it; a case = one (text, split) pair / one rewrite / one "
    "assembly; non-trivial = no exception expected (bind), >= 2 copies (copies), >= 2 chunks (chunk)"
)
ASSUMPTIONS = [
    "module symbol names are unique and do not look like <temp label><suffix>",
    "X64 AT&T ELF only (symbol handling is ISA independent); temp labels are LLVM-temporary names (.L prefix)",
    "bind: when several documented errors apply to one text (e.g. a redefinition and an unknown name) any of them is accepted",
    "copies: copies are told apart by uniquely tagged `movb $tag, %bl` instructions; only the relation between a copy's own labels, "
    "branches and expressions is judged (other CFG aspects belong to C03)",
    "chunk: the result is compared through a canonical dump in which CFI is taken from the public create_cfi_directives() table "
    "(one implicit CFIProcedure object per assemble() call is an implementation detail)",
    "chunk: the main family keeps to the .text section and the implicit CFI procedure; section switches and explicit "
    ".cfi_startproc/.cfi_endproc frames split across chunks are enumerated as separate small families",
]
CAP_S = {"quick": 400, "thorough": 3000}

BIND_NAMES = [T.MOD_CODE, T.MOD_DATA, T.MOD_EXT, "u1", "u2", "G", ".Lt", T.MOD_TEMP]
BIND_VOCAB = (
    ["ord"]
    + ["lab:%s" % n for n in BIND_NAMES]
    + ["jmp:%s" % n for n in BIND_NAMES]
    + ["word:%s" % n for n in BIND_NAMES]
    + ["call:%s" % n for n in (T.MOD_EXT, "u1")]
)
BIND_SMALL = ["ord", "lab:u1", "lab:.Lt", "lab:mcode", "jmp:u1", "jmp:.Lt", "jmp:mcode", "word:u1", "word:u2", "word:.Lt", "call:ext"]

CHUNK_V7 = ["ord", "jcc:.Lb", "jmp:.Lb", "lab:.Lb", "byte", "string", "align"]
CHUNK_V8 = CHUNK_V7 + ["call:ext"]
CHUNK_V12 = CHUNK_V8 + ["ret", "lab:A", "word:A", "cfi:off"]
CHUNK_V14 = CHUNK_V12 + ["uleb:mcode-mdata", "zero"]
CHUNK_SEC = ["ord", "byte", "sec:.data", "sec:.text", "lab:A", "jmp:A"]
CHUNK_CFI = ["cfi:start", "cfi:end", "cfi:off", "ord", "ret"]
CHUNK_FAMILIES = {
    # name: (vocabulary, implicit_cfi_procedure)
    "v7": (CHUNK_V7, True),
    "v8": (CHUNK_V8, True),
    "v12": (CHUNK_V12, True),
    "v14": (CHUNK_V14, True),
    "sections": (CHUNK_SEC, True),
    "explicit-cfi": (CHUNK_CFI, False),
}

CHUNK_VOCABULARIES = {k: v[0] for k, v in CHUNK_FAMILIES.items()}
BOUNDS = {
    "quick": {
        "chunk_vocabularies": CHUNK_VOCABULARIES,
        "bind": {"vocabulary": len(BIND_VOCAB), "max_len": 3},
        "copies": {"sites": 6, "insert": "multisets of <= 3 sites + sets of 4", "replace": "sets of <= 3 sites", "templates": 4, "constraints": 2},
        # (family, min lines, max lines, trivially_unreachable); v7 < v8 < v12 < v14 are nested vocabularies
        "chunk": [["v7", 5, 5, False], ["v12", 1, 4, False], ["sections", 1, 4, False], ["explicit-cfi", 1, 4, False]],
    },
    "thorough": {
        "bind": {"vocabulary": len(BIND_VOCAB), "max_len": 3, "small_vocabulary": len(BIND_SMALL), "small_max_len": 5},
        "copies": {"sites": 6, "insert": "multisets of <= 4 sites", "replace": "sets of <= 4 sites", "templates": 4, "constraints": 2},
        "chunk": [["v7", 6, 6, False], ["v12", 1, 5, False], ["v14", 1, 4, False], ["v7", 5, 5, True], ["v12", 1, 4, True], ["sections", 1, 5, False], ["explicit-cfi", 1, 5, False]],
    },
}

DIALECT = "x64att"
FMT = "ELF"


def D(kind, **kw):
    d = {"kind": kind}
    d.update(kw)
    return d


# ============================================================================
# family 1: binding


def bind_case(module, mod_syms, specs, allow, suffix):
    from gtirb_rewriting.assembler import Assembler

    toks = T.tokens_of(DIALECT, specs)
    defs = [t.label for t in toks if t.kind == "label"]
    own = set(defs)
    errors = set()
    if len(defs) != len(own) or own & set(mod_syms):
        errors.add("MultipleDefinitionsError")
    unknown = []
    for t in toks:
        for n in t.refs:
            if n not in own and n not in mod_syms:
                if n not in unknown:
                    unknown.append(n)
        if t.kind in T.DIRECT_CTI and t.sym.target == T.MOD_DATA:
            errors.add("UnsupportedAssemblyError")
    if unknown and not allow:
        errors.add("UndefSymbolError")

    n_mod_syms = len(module.symbols)
    a = Assembler(module, temp_symbol_suffix=suffix, allow_undef_symbols=allow)
    try:
        a.assemble(T.render(toks))
        res = a.finalize()
        exc = None
    except Exception as ex:  # noqa
        res, exc = None, ex
    diffs = []
    if len(module.symbols) != n_mod_syms:
        diffs.append(D("bind-module-mutated"))
    if errors:
        role = "redefinition" if "MultipleDefinitionsError" in errors else "unknown-name" if "UndefSymbolError" in errors else "branch-to-data"
        if exc is None:
            diffs.append(D("bind-exception-missing", r_expected="|".join(sorted(errors)), r_case=role))
        elif type(exc).__name__ not in errors:
            diffs.append(D("bind-exception-wrong-class", r_exc=type(exc).__name__, r_expected="|".join(sorted(errors)), r_case=role))
        return diffs, "error:" + (type(exc).__name__ if exc else "none"), False
    if exc is not None:
        diffs.append(D("bind-exception-unexpected", r_exc=type(exc).__name__, r_allow_undef=allow, msg=str(exc)[:120]))
        return diffs, "unexpected:" + type(exc).__name__, True

    def final_name(n):
        return n + suffix if (suffix is not None and n.startswith(".L") and n in own) else n

    want_names = sorted([final_name(n) for n in own] + unknown)
    got_names = sorted(s.name for s in res.symbols)
    if got_names != want_names:
        diffs.append(D("bind-result-symbols", r_what="names", got=got_names, expected=want_names))
        return diffs, "ok", True
    by_name = {s.name: s for s in res.symbols}
    for s in res.symbols:
        if any(s is ms for ms in mod_syms.values()) or s.module is not None:
            diffs.append(D("bind-result-symbols", r_what="module-symbol-listed-as-defined"))
    proxies_seen = []
    for n in unknown:
        s = by_name[n]
        p = s.referent
        if not isinstance(p, gtirb.ProxyBlock) or p not in res.proxies or p in module.proxies or any(p is q for q in proxies_seen):
            diffs.append(D("bind-undef-proxy", r_what="not-a-fresh-result-proxy", name=n))
        proxies_seen.append(p)

    def expected_symbol(n):
        if n in own:
            return by_name[final_name(n)]
        if n in mod_syms:
            return mod_syms[n]
        return by_name[n]

    sec = res.text_section
    off = 0
    for t in toks:
        if t.sym is not None:
            e = sec.symbolic_expressions.get(off + t.sym.off)
            want = expected_symbol(t.sym.target)
            where = "own" if t.sym.target in own else "module" if t.sym.target in mod_syms else "undefined"
            if not isinstance(e, gtirb.SymAddrConst) or e.symbol is not want:
                diffs.append(D("bind-expression-symbol", r_target=where, r_token=t.kind, got=getattr(getattr(e, "symbol", None), "name", None), expected=want.name,
                               same_name=getattr(getattr(e, "symbol", None), "name", None) == want.name))
            if t.kind in T.DIRECT_CTI:
                blk = [b for b in sec.blocks if b.offset <= off < b.offset + b.size]
                outs = [x for b in blk for x in res.cfg.out_edges(b) if x.label.type in (gtirb.Edge.Type.Branch, gtirb.Edge.Type.Call)]
                if len(outs) != 1 or outs[0].target is not want.referent:
                    diffs.append(D("bind-edge-target", r_target=where, r_token=t.kind, n_edges=len(outs)))
        off += t.nbytes
    return diffs, "ok:own=%d,undef=%d" % (len(own), len(unknown)), True


# ============================================================================
# family 2: N copies of one patch in one rewrite

SITES = [(0, 0), (0, 2), (0, 4), (1, 0), (1, 2), (1, 5)]  # (block index, offset); (1,5) is after the `ret`
TEMPLATES = ("fwd-back", "data", "global", "module-refs")


def _template_asm(name, k, reg):
    a, b, c = 0x40 + k, 0x50 + k, 0x60 + k
    if name == "fwd-back":
        return f"""
        .Lback:
            movb ${a}, %bl
            jne .Lfwd
            leaq .Lback(%rip), %{reg}
            movb ${b}, %bl
        .Lfwd:
            movb ${c}, %bl
            jne .Lback
        """
    if name == "data":
        return f"""
            movb ${a}, %bl
            jmp .Lend
        .Ldat:
            .quad .Lend
        .Lend:
            movb ${c}, %bl
            leaq .Ldat(%rip), %{reg}
            movb ${b}, %bl
        """
    if name == "global":
        return f"""
        Gcopy:
            movb ${a}, %bl
            jne Gcopy
        """
    if name == "module-refs":
        return f"""
        .Lx:
            movb ${a}, %bl
            call ext
            jne .Lx
            leaq f(%rip), %{reg}
            movb ${b}, %bl
        """
    raise ValueError(name)


def copies_case(case):
    import capstone
    import gtirb_functions
    import gtirb_rewriting
    from gtirb_rewriting.assembler.assembler import MultipleDefinitionsError
    from gtirb_test_helpers import add_code_block, add_edge, add_function, add_proxy_block, add_symbol, add_text_section, create_test_module

    template, sites, use_constraints, kind = case["template"], case["sites"], case["constraints"], case["op"]
    ir, m = create_test_module(gtirb.Module.FileFormat.ELF, gtirb.Module.ISA.X64)
    _, bi = add_text_section(m, address=0x1000)
    b0 = add_code_block(bi, bytes.fromhex("b001b002b003"))
    b1 = add_code_block(bi, bytes.fromhex("b004b005c3"))
    add_edge(ir.cfg, b0, b1, gtirb.Edge.Type.Fallthrough)
    add_edge(ir.cfg, b1, add_proxy_block(m), gtirb.Edge.Type.Return)
    ext = add_symbol(m, "ext", add_proxy_block(m))
    fid = add_function(m, "f", b0, {b1})
    fsym = m.aux_data["functionNames"].data[fid]
    func = gtirb_functions.Function(fid, {b0}, {b0, b1}, [fsym])
    blocks = [b0, b1]
    counter = [0]
    cons = gtirb_rewriting.Constraints(clobbers_flags=True, scratch_registers=1) if use_constraints else gtirb_rewriting.Constraints()

    def get_asm(ictx):
        counter[0] += 1
        reg = ictx.scratch_registers[0] if use_constraints else "rcx"
        return _template_asm(template, counter[0], "{}".format(reg).lower())

    patch = gtirb_rewriting.Patch.from_function(get_asm, cons)
    ctx = gtirb_rewriting.RewritingContext(m, [func])
    for bidx, off in sites:
        if kind == "insert":
            ctx.insert_at(blocks[bidx], off, patch)
        else:
            ctx.replace_at(blocks[bidx], off, 2, patch)
    n = len(sites)
    diffs = []
    expect_mde = template == "global" and n >= 2
    try:
        ctx.apply()
        exc = None
    except Exception as ex:  # noqa
        exc = ex
    if expect_mde:
        if not isinstance(exc, MultipleDefinitionsError):
            diffs.append(D("copies-global-label-twice-not-refused", r_exc=type(exc).__name__ if exc else "none"))
        return diffs, "refused"
    if exc is not None:
        diffs.append(D("copies-exception", r_exc=type(exc).__name__, r_template=template, msg=str(exc)[:160]))
        return diffs, "exception"

    # ---- observation: every instruction of every code block, by position
    names = collections.Counter(s.name for s in m.symbols)
    dup = sorted(nm for nm, c in names.items() if c > 1)
    if dup:
        diffs.append(D("copies-duplicate-symbol-name", r_template=template, names=dup))
    cs = capstone.Cs(capstone.CS_ARCH_X86, capstone.CS_MODE_64)
    cs.syntax = capstone.CS_OPT_SYNTAX_ATT
    tag_at = {}  # tag -> list of (bi, offset in bi, block, offset in block)
    for blk in m.code_blocks:
        ival = blk.byte_interval
        raw = bytes(ival.contents[blk.offset : blk.offset + blk.size])
        for insn in cs.disasm(raw, 0):
            if insn.mnemonic == "movb" and insn.op_str.endswith(", %bl"):
                tag = int(insn.op_str.split(",")[0][1:], 0)
                tag_at.setdefault(tag, []).append((ival, blk.offset + insn.address, blk, insn.address))

    def one(tag, what):
        locs = tag_at.get(tag, [])
        if len(locs) != 1:
            diffs.append(D("copies-patch-instance-count", r_template=template, tag=hex(tag), got=len(locs)))
            return None
        return locs[0]

    def label_on(blk, prefix, copy):
        syms = [s for s in blk.references if s.name.startswith(prefix) and not s.at_end]
        if len(syms) != 1:
            diffs.append(D("copies-label-not-on-own-block", r_template=template, r_label=prefix, copy=copy, got=sorted(s.name for s in blk.references)))
            return None
        return syms[0]

    def expr_at(ival, off):
        return ival.symbolic_expressions.get(off)

    def branch_targets(blk):
        return [e.target for e in blk.outgoing_edges if e.label.type == gtirb.Edge.Type.Branch]

    def check_expr(ival, off, want_sym, what, copy):
        e = expr_at(ival, off)
        if not isinstance(e, gtirb.SymAddrConst) or e.symbol is not want_sym:
            diffs.append(D("copies-expression-captured", r_template=template, r_operand=what, copy=copy,
                           got=getattr(getattr(e, "symbol", None), "name", None), expected=getattr(want_sym, "name", None)))

    def check_branch(blk, want_blk, what, copy):
        t = branch_targets(blk)
        if len(t) != 1 or t[0] is not want_blk:
            diffs.append(D("copies-branch-captured", r_template=template, r_branch=what, copy=copy, n_branch_edges=len(t)))

    suffixes = []
    for k in range(1, n + 1):
        la = one(0x40 + k, "a")
        if la is None:
            continue
        iv, pos_a, blk_a, in_a = la
        if template == "fwd-back":
            lb, lc = one(0x50 + k, "b"), one(0x60 + k, "c")
            if lb is None or lc is None:
                continue
            if in_a != 0 or lc[3] != 0:
                diffs.append(D("copies-label-not-at-block-start", r_template=template, copy=k))
                continue
            s_back, s_fwd = label_on(blk_a, ".Lback", k), label_on(lc[2], ".Lfwd", k)
            if s_back is None or s_fwd is None:
                continue
            if s_back.name[len(".Lback") :] != s_fwd.name[len(".Lfwd") :]:
                diffs.append(D("copies-suffix-mismatch-within-copy", r_template=template, got=[s_back.name, s_fwd.name]))
            suffixes.append(s_back.name[len(".Lback") :])
            check_branch(blk_a, lc[2], "forward", k)
            check_branch(lc[2], blk_a, "backward", k)
            check_expr(iv, pos_a + 2 + 1, s_fwd, "jne-forward", k)
            check_expr(lb[0], lb[1] - 7 + 3, s_back, "lea-backward", k)
            check_expr(lc[0], lc[1] + 2 + 1, s_back, "jne-backward", k)
        elif template == "data":
            lb, lc = one(0x50 + k, "b"), one(0x60 + k, "c")
            if lb is None or lc is None:
                continue
            if lc[3] != 0:
                diffs.append(D("copies-label-not-at-block-start", r_template=template, copy=k))
                continue
            s_end = label_on(lc[2], ".Lend", k)
            dat = [d for d in m.data_blocks if d.byte_interval is iv and d.offset == pos_a + 4 and d.size == 8]
            if len(dat) != 1:
                diffs.append(D("copies-data-block-missing", r_template=template, copy=k))
                continue
            s_dat = label_on(dat[0], ".Ldat", k)
            if s_end is None or s_dat is None:
                continue
            if s_end.name[len(".Lend") :] != s_dat.name[len(".Ldat") :]:
                diffs.append(D("copies-suffix-mismatch-within-copy", r_template=template, got=[s_end.name, s_dat.name]))
            suffixes.append(s_end.name[len(".Lend") :])
            check_branch(blk_a, lc[2], "forward", k)
            check_expr(iv, pos_a + 2 + 1, s_end, "jmp-forward", k)
            check_expr(iv, pos_a + 4, s_end, "quad-forward", k)
            check_expr(lb[0], lb[1] - 7 + 3, s_dat, "lea-backward", k)
        elif template == "global":
            s_g = label_on(blk_a, "Gcopy", k)
            if s_g is not None:
                check_branch(blk_a, blk_a, "backward", k)
                check_expr(iv, pos_a + 2 + 1, s_g, "jne-backward", k)
        elif template == "module-refs":
            lb = one(0x50 + k, "b")
            if lb is None:
                continue
            if in_a != 0:
                diffs.append(D("copies-label-not-at-block-start", r_template=template, copy=k))
                continue
            s_x = label_on(blk_a, ".Lx", k)
            if s_x is None:
                continue
            suffixes.append(s_x.name[len(".Lx") :])
            # call ext: 5 bytes after the tagged movb; jne .Lx follows in the next block
            check_expr(iv, pos_a + 2 + 1, ext, "call-module-proxy", k)
            calls = [e.target for e in blk_a.outgoing_edges if e.label.type == gtirb.Edge.Type.Call]
            if len(calls) != 1 or calls[0] is not ext.referent:
                diffs.append(D("copies-call-edge-not-module-proxy", r_template=template, copy=k))
            jne_blk = [b for b in m.code_blocks if b.byte_interval is iv and b.offset == pos_a + 7]
            if len(jne_blk) != 1:
                diffs.append(D("copies-block-after-call-missing", r_template=template, copy=k))
            else:
                check_branch(jne_blk[0], blk_a, "backward", k)
            check_expr(iv, pos_a + 7 + 1, s_x, "jne-backward", k)
            check_expr(lb[0], lb[1] - 7 + 3, fsym, "lea-module-symbol", k)
    if len(set(suffixes)) != len(suffixes):
        diffs.append(D("copies-suffix-reused", r_template=template, got=suffixes))
    if names["ext"] != 1 or names["f"] != 1:
        diffs.append(D("copies-module-symbol-duplicated", r_template=template))
    return diffs, "ok:copies=%d" % n


def copies_cases(tier):
    out = []
    max_multi = 3 if tier == "quick" else 4
    for template in TEMPLATES:
        for cons in (False, True):
            seen = set()
            for n in range(1, 5):
                combos = itertools.combinations_with_replacement(range(len(SITES)), n) if n <= max_multi else itertools.combinations(range(len(SITES)), n)
                for c in combos:
                    if c in seen:
                        continue
                    seen.add(c)
                    out.append({"fam": "copies", "template": template, "constraints": cons, "op": "insert", "sites": [list(SITES[i]) for i in c]})
            if not cons:
                # replacing the instruction at the site (distinct sites only; the site after `ret` cannot be replaced)
                for n in range(1, (3 if tier == "quick" else 4) + 1):
                    for c in itertools.combinations(range(len(SITES) - 1), n):
                        out.append({"fam": "copies", "template": template, "constraints": cons, "op": "replace", "sites": [list(SITES[i]) for i in c]})
    return out


# ============================================================================
# family 2b: the same temp-label body inserted as several FUNCTIONS (register_insert_function),
# optionally next to ordinary insertions of the same text, in one rewrite
FUNC_BODIES = {
    "loop": ".Lloop:\nmovb $1, %bl\nje .Lloop\nret\n",
    "fwd": "je .Lskip\nmovb $2, %bl\n.Lskip:\nret\n",
    "data": "leaq .Lconst(%rip), %rax\nret\n.Lconst:\n.byte 7\n",
}


def funcs_case(case):
    import gtirb
    from gtirb_test_helpers import add_code_block, add_edge, add_function, add_proxy_block, add_text_section, create_test_module

    from gtirb_rewriting import Constraints, Patch, RewritingContext

    ir, m = create_test_module(gtirb.Module.FileFormat.ELF, gtirb.Module.ISA.X64)
    _, bi = add_text_section(m, 0x1000)
    b = add_code_block(bi, b"\x90\xc3")
    add_edge(ir.cfg, b, add_proxy_block(m), gtirb.Edge.Type.Return)
    add_function(m, "old", b)
    import gtirb_functions

    ctx = RewritingContext(m, gtirb_functions.Function.build_functions(m))
    body = FUNC_BODIES[case["body"]]
    syms = []
    diffs = []
    try:
        for i in range(case["n"]):
            syms.append(ctx.register_insert_function("newfn%d" % i, Patch.from_function(lambda c, body=body: body, Constraints())))
        for _ in range(case["inserts"]):
            if case["body"] != "data":
                ctx.insert_at(b, 0, Patch.from_function(lambda c, body=body: body.replace("ret\n", ""), Constraints()))
        ctx.apply()
    except Exception as e:
        return [D("funcs-exception", r_exc=type(e).__name__, r_body=case["body"], msg=str(e)[:120])], "raised"
    names = [s.name for s in m.symbols]
    dup = sorted({n for n in names if names.count(n) > 1})
    if dup:
        diffs.append(D("funcs-duplicate-symbol-name", r_body=case["body"], names=dup))
    # every inserted function refers only to labels of its own byte interval
    for sym in syms:
        blk = sym.referent
        fbi = blk.byte_interval if isinstance(blk, gtirb.ByteBlock) else None
        if fbi is None:
            diffs.append(D("funcs-symbol-without-block", r_body=case["body"]))
            continue
        for off, ex in fbi.symbolic_expressions.items():
            for s2 in ex.symbols:
                r = s2.referent
                if s2.name.startswith(".L") and not (isinstance(r, gtirb.ByteBlock) and r.byte_interval is fbi):
                    diffs.append(D("funcs-expression-captured-by-another-copy", r_body=case["body"], label=s2.name))
        for cb in fbi.blocks:
            if isinstance(cb, gtirb.CodeBlock):
                for e in cb.outgoing_edges:
                    if e.label and e.label.type == gtirb.Edge.Type.Branch and isinstance(e.target, gtirb.CodeBlock) and e.target.byte_interval is not fbi:
                        diffs.append(D("funcs-branch-captured-by-another-copy", r_body=case["body"]))
    return diffs, "ok:funcs=%d" % case["n"]


ASSIGN_BODIES = {
    "set": ".set .Lmagic, 42\nmovb $1, %bl\n",
    "equals": ".Lmask = 7\nmovb $2, %bl\n",
    "set+label": ".set .Lmagic, 42\n.Lhere:\nmovb $3, %bl\nje .Lhere\n",
}


def assign_case(case):
    """the same patch with a temporary-name assignment (.set / =) inserted at n sites of one rewrite"""
    import gtirb
    from gtirb_test_helpers import add_code_block, add_edge, add_function, add_proxy_block, add_text_section, create_test_module

    from gtirb_rewriting import Constraints, Patch, RewritingContext

    ir, m = create_test_module(gtirb.Module.FileFormat.ELF, gtirb.Module.ISA.X64)
    _, bi = add_text_section(m, 0x1000)
    blocks = [add_code_block(bi, b"\x90\x90") for _ in range(3)]
    last = add_code_block(bi, b"\xc3")
    for a, b2 in zip(blocks + [last], (blocks + [last])[1:]):
        add_edge(ir.cfg, a, b2, gtirb.Edge.Type.Fallthrough)
    add_edge(ir.cfg, last, add_proxy_block(m), gtirb.Edge.Type.Return)
    ctx = RewritingContext(m, [])
    body = ASSIGN_BODIES[case["body"]]
    try:
        for i in range(case["n"]):
            ctx.insert_at(blocks[i % 3], (i // 3) % 2, Patch.from_function(lambda c, body=body: body, Constraints()))
        ctx.apply()
    except Exception as e:
        return [D("assign-exception", r_exc=type(e).__name__, r_body=case["body"], r_copies="one" if case["n"] == 1 else "several", msg=str(e)[:120])], "raised"
    diffs = []
    names = [s.name for s in m.symbols]
    dup = sorted({n for n in names if names.count(n) > 1})
    if dup:
        diffs.append(D("assign-duplicate-symbol-name", r_body=case["body"], names=dup))
    raw = sorted(n for n in names if n in (".Lmagic", ".Lmask", ".Lhere"))
    if raw:
        diffs.append(D("assign-temporary-name-without-suffix", r_body=case["body"], names=raw))
    return diffs, "ok:assign=%d" % case["n"]


def extern_case(case):
    """get_or_insert_extern_symbol for a name that is (a) defined in the module, (b) being inserted as a function by the same
    context, (c) already an extern of the module, (d) new - with a patch that calls the name"""
    import gtirb
    import gtirb_functions
    from gtirb_test_helpers import add_code_block, add_edge, add_function, add_proxy_block, add_symbol, add_text_section, create_test_module

    from gtirb_rewriting import Constraints, Patch, RewritingContext

    ir, m = create_test_module(gtirb.Module.FileFormat.ELF, gtirb.Module.ISA.X64)
    _, bi = add_text_section(m, 0x1000)
    b = add_code_block(bi, b"\x90\xc3")
    add_edge(ir.cfg, b, add_proxy_block(m), gtirb.Edge.Type.Return)
    add_function(m, "old", b)
    h = add_code_block(bi, b"\xc3")
    add_edge(ir.cfg, h, add_proxy_block(m), gtirb.Edge.Type.Return)
    fsym = add_function(m, "helper_defined", h)
    known_ext = add_symbol(m, "known_ext", add_proxy_block(m))
    ctx = RewritingContext(m, gtirb_functions.Function.build_functions(m))
    kind = case["kind"]
    name = {"defined": "helper_defined", "inserted": "helper_new", "extern": "known_ext", "new": "brand_new"}[kind]
    role = dict(r_name=kind, r_order=case["order"], r_call=case["call"])
    want = None
    diffs = []
    try:
        steps = ["ins", "get"] if case["order"] == "insert-first" else ["get", "ins"]
        got = None
        for st in steps:
            if st == "ins" and kind == "inserted":
                want = ctx.register_insert_function(name, Patch.from_function(lambda c: "movb $9, %bl\nret\n", Constraints()))
            if st == "get":
                got = ctx.get_or_insert_extern_symbol(name, "libx.so")
        if case["call"]:
            ctx.insert_at(b, 0, Patch.from_function(lambda c: "call %s\n" % name, Constraints()))
        ctx.apply()
    except Exception as e:
        return [D("extern-exception", r_exc=type(e).__name__, msg=str(e)[:120], **role)], "raised"
    if kind == "defined":
        want = next(s_ for s_ in m.symbols if s_.name == name and s_.referent is h) if any(s_.referent is h for s_ in m.symbols) else None
    elif kind == "extern":
        want = known_ext
    names = [s_.name for s_ in m.symbols]
    dup = sorted({n for n in names if names.count(n) > 1})
    if dup:
        diffs.append(D("extern-duplicate-symbol-name", names=dup, **role))
    if got is None or got.module is not m:
        diffs.append(D("extern-symbol-not-in-module", **role))
    if want is not None and got is not want and not (kind == "inserted" and case["order"] == "get-first"):
        # (asked before the function was registered the name was still unknown: a fresh extern is a correct answer then,
        #  the duplicate-name check above still applies)
        diffs.append(D("extern-not-the-modules-symbol", **role))
    if case["call"] and not diffs:
        exprs = [e for e in bi.symbolic_expressions.values() if isinstance(e, gtirb.SymAddrConst) and e.symbol.name == name]
        target = want if want is not None else got
        if len(exprs) != 1 or exprs[0].symbol is not target:
            diffs.append(D("extern-call-binds-to-another-symbol", n=len(exprs), **role))
    return diffs, "ok:" + kind


def funcs_cases(tier):
    out = []
    for kind in ("defined", "inserted", "extern", "new"):
        for order in ("insert-first", "get-first"):
            for call in (0, 1):
                if kind == "inserted" and order == "get-first":
                    continue  # registering a function under a name that already exists is a documented TODO of register_insert_function
                out.append({"fam": "extern", "kind": kind, "order": order, "call": call})
    for body in FUNC_BODIES:
        for n in (1, 2, 3):
            for ins in (0, 1, 2):
                out.append({"fam": "funcs", "body": body, "n": n, "inserts": ins})
    for body in ASSIGN_BODIES:
        for n in (1, 2, 3, 4):
            out.append({"fam": "assign", "body": body, "n": n})
    return out


# ============================================================================
# family 3: chunked == whole


def _splits(n):
    for mask in range(1, 2 ** (n - 1)):
        cuts = [i + 1 for i in range(n - 1) if mask >> i & 1]
        yield mask, cuts


def _legal(toks, cuts):
    """No chunk uses an own label that is defined in a later chunk."""
    bounds = [0] + cuts + [len(toks)]
    defined = set()
    for a, b in zip(bounds, bounds[1:]):
        for t in toks[a:b]:
            if t.kind == "label":
                defined.add(t.label)
        for t in toks[a:b]:
            for r in t.refs:
                if r in (T.OWN_GLOBAL, T.OWN_TEMP) and r not in defined:
                    return False
    return True


def _run_chunks(module, mod_syms, toks, cuts, implicit, tu):
    from gtirb_rewriting.assembler import Assembler

    a = Assembler(module, temp_symbol_suffix="_7", trivially_unreachable=tu, implicit_cfi_procedure=implicit)
    bounds = [0] + cuts + [len(toks)]
    try:
        for x, y in zip(bounds, bounds[1:]):
            a.assemble(T.render(toks[x:y]))
        return T.canon_result(a.finalize(), mod_syms)
    except Exception as ex:  # noqa
        return {"exception": type(ex).__name__}


def _split_state(toks, cuts, implicit):
    """What is 'open' at the split points (explains a difference, used as a signature role)."""
    states = set()
    sec = ".text"
    frame = False
    for i, t in enumerate(toks):
        if i in cuts:
            if sec != ".text":
                states.add("in-nontext-section")
            if frame:
                states.add("open-cfi-frame")
        if t.kind == "section":
            sec = t.section
        if t.kind == "cfi" and not implicit:
            frame = t.cfi == "start" or (frame and t.cfi != "end")
    return "+".join(sorted(states)) or "plain"


def chunk_diff(whole, got, toks, cuts, implicit):
    if whole == got:
        return []
    if "exception" in whole or "exception" in got:
        what = "exception:%s-vs-%s" % (whole.get("exception", "ok"), got.get("exception", "ok"))
    else:
        keys = [k for k in whole if whole[k] != got[k]]
        if keys == ["sections"] and len(whole["sections"]) == len(got["sections"]):
            sub = set()
            for a, b in zip(whole["sections"], got["sections"]):
                sub.update(k for k in a if a[k] != b[k])
            keys = ["sections." + k for k in sorted(sub)]
        what = ",".join(sorted(keys))
    return [D("chunked-differs", r_what=what, r_split_state=_split_state(toks, cuts, implicit), cuts=cuts)]


def chunk_admissible(specs, implicit):
    defs = []
    refs = set()
    for s in specs:
        head, _, arg = s.partition(":")
        if head == "lab":
            defs.append(arg)
        else:
            for own in (T.OWN_GLOBAL, T.OWN_TEMP):
                if arg.split("+")[0] == own:
                    refs.add(own)
    return len(defs) == len(set(defs)) and refs <= set(defs)


def chunk_text(module, mod_syms, res, fam, specs, implicit, tu):
    toks = T.tokens_of(DIALECT, specs)
    whole = _run_chunks(module, mod_syms, toks, [], implicit, tu)
    res.case(("chunk", fam, tu, specs, 0), nontrivial=False, outcome="whole:" + whole.get("exception", "ok"))
    for mask, cuts in _splits(len(toks)):
        if not _legal(toks, cuts):
            continue
        got = _run_chunks(module, mod_syms, toks, cuts, implicit, tu)
        diffs = chunk_diff(whole, got, toks, cuts, implicit)
        res.case(("chunk", fam, tu, specs, mask), nontrivial=True, outcome="chunks=%d:%s" % (len(cuts) + 1, "same" if not diffs else "differs"))
        if diffs:
            res.bad({"fam": "chunk", "family": fam, "tu": tu, "toks": list(specs), "cuts": cuts}, diffs)
        elif len(cuts) >= 2:
            res.sample({"fam": "chunk", "family": fam, "tu": tu, "toks": list(specs), "cuts": cuts, "chunks": [T.render(toks[a:b]) for a, b in zip([0] + cuts, cuts + [len(toks)])]}, cap=1)


# ============================================================================
# runner interface


def tasks(tier):
    out = []
    # bind: split by first token
    for allow in (False, True):
        for suffix in (None, "_9"):
            for i in range(len(BIND_VOCAB)):
                out.append({"fam": "bind", "allow": allow, "suffix": suffix, "voc": "full", "L": 3, "first": i})
            if tier == "thorough":
                for i in range(len(BIND_SMALL)):
                    out.append({"fam": "bind", "allow": allow, "suffix": suffix, "voc": "small", "L": 5, "first": i})
    out.append({"fam": "funcs", "tier": tier})
    # copies: chunks of 25 rewrites
    cc = copies_cases(tier)
    for i in range(0, len(cc), 25):
        out.append({"fam": "copies", "tier": tier, "lo": i, "hi": min(i + 25, len(cc))})
    # chunk: split by the first two lines
    for fam, minlen, maxlen, tu in BOUNDS[tier]["chunk"]:
        voc = CHUNK_FAMILIES[fam][0]
        if minlen <= 2:
            out.append({"fam": "chunk", "family": fam, "tu": tu, "L": 2, "prefix": []})
        for L in range(max(3, minlen), maxlen + 1):
            for i in range(len(voc)):
                if L <= 4:
                    out.append({"fam": "chunk", "family": fam, "tu": tu, "L": L, "prefix": [i]})
                else:
                    for j in range(len(voc)):
                        out.append({"fam": "chunk", "family": fam, "tu": tu, "L": L, "prefix": [i, j]})
    # the cheap families first (they still report if a wall-clock cap cuts the run short), then the long texts
    out.sort(key=lambda t: (0, 0) if t["fam"] in ("copies", "funcs") else (1, 0) if t["fam"] == "bind" else (2, -t["L"]))
    return out


def task_group(task):
    return task["fam"] if task["fam"] != "chunk" else "chunk/" + task["family"]


def run_task(task):
    res = TaskResult()
    T.validated(DIALECT)
    fam = task["fam"]
    if fam == "bind":
        module, mod_syms = T.make_module(DIALECT, FMT, temp_named=True)
        voc = BIND_VOCAB if task["voc"] == "full" else BIND_SMALL
        first = voc[task["first"]]
        lengths = range(1, task["L"] + 1)
        for L in lengths:
            for rest in itertools.product(voc, repeat=L - 1):
                specs = (first,) + rest
                diffs, outcome, nontrivial = bind_case(module, mod_syms, specs, task["allow"], task["suffix"])
                res.case(("bind", task["allow"], task["suffix"], specs), nontrivial=nontrivial, outcome=outcome)
                case = {"fam": "bind", "allow": task["allow"], "suffix": task["suffix"], "toks": list(specs)}
                if diffs:
                    res.bad(case, diffs)
                elif nontrivial and L == 3:
                    res.sample(case, cap=1)
        return res
    if fam == "funcs":
        for case in funcs_cases(task["tier"]):
            if case["fam"] == "extern":
                diffs, outcome = extern_case(case)
                res.case(("extern", case["kind"], case["order"], case["call"]), nontrivial=True, outcome=outcome)
                if diffs:
                    res.bad(case, diffs)
                continue
            if case["fam"] == "assign":
                diffs, outcome = assign_case(case)
                res.case(("assign", case["body"], case["n"]), nontrivial=case["n"] > 1, outcome=outcome)
                if diffs:
                    res.bad(case, diffs)
                continue
            diffs, outcome = funcs_case(case)
            res.case(("funcs", case["body"], case["n"], case["inserts"]), nontrivial=case["n"] + case["inserts"] > 1, outcome=outcome)
            if diffs:
                res.bad(case, diffs)
            elif case["n"] == 2:
                res.sample(case, cap=1)
        return res
    if fam == "copies":
        for case in _copies_slice(task):
            diffs, outcome = copies_case(case)
            res.case(("copies", case["template"], case["constraints"], case["op"], tuple(map(tuple, case["sites"]))), nontrivial=len(case["sites"]) >= 2, outcome=outcome)
            if diffs:
                res.bad(case, diffs)
            elif len(case["sites"]) == 3:
                res.sample(case, cap=1)
        return res
    if fam == "chunk":
        module, mod_syms = T.make_module(DIALECT, FMT)
        voc, implicit = CHUNK_FAMILIES[task["family"]]
        prefix = tuple(voc[i] for i in task["prefix"])
        L = task["L"]
        lengths = (1, 2) if L == 2 else (L,)
        for n in lengths:
            for rest in itertools.product(voc, repeat=n - len(prefix)):
                specs = prefix + rest
                if not chunk_admissible(specs, implicit):
                    continue
                chunk_text(module, mod_syms, res, task["family"], specs, implicit, task["tu"])
        return res
    raise ValueError(fam)


_COPIES_CACHE = {}


def _copies_slice(task):
    tier = task["tier"]
    if tier not in _COPIES_CACHE:
        _COPIES_CACHE[tier] = copies_cases(tier)
    return _COPIES_CACHE[tier][task["lo"] : task["hi"]]


def replay(case):
    T.validated(DIALECT)
    fam = case["fam"]
    if fam == "bind":
        module, mod_syms = T.make_module(DIALECT, FMT, temp_named=True)
        return bind_case(module, mod_syms, tuple(case["toks"]), case["allow"], case["suffix"])[0]
    if fam == "copies":
        return copies_case(case)[0]
    if fam == "funcs":
        return funcs_case(case)[0]
    if fam == "assign":
        return assign_case(case)[0]
    if fam == "extern":
        return extern_case(case)[0]
    if fam == "chunk":
        module, mod_syms = T.make_module(DIALECT, FMT)
        voc, implicit = CHUNK_FAMILIES[case["family"]]
        toks = T.tokens_of(DIALECT, tuple(case["toks"]))
        whole = _run_chunks(module, mod_syms, toks, [], implicit, case["tu"])
        got = _run_chunks(module, mod_syms, toks, list(case["cuts"]), implicit, case["tu"])
        return chunk_diff(whole, got, toks, list(case["cuts"]), implicit)
    raise ValueError(fam)
