"""
C16  Patch prologue/epilogue make the patch transparent.

For every Constraints value of a bounded product the code is produced by the
real path (RewritingContext.insert_at + apply -> _invoke_patch ->
ABI._allocate_patch_registers / _create_prologue_and_epilogue -> Assembler)
around a marker instruction, decoded with capstone and executed on a tiny
concrete CPU (vf.machine) from every initial stack pointer; at the marker the
machine havocs everything the patch declared.  The oracle is the property
statement, evaluated on the machine's final state and its memory log.
"""
import collections
import itertools

from gtirb_rewriting import Constraints, Patch

from .. import machine as mach
from ..machine import selfcheck
from ..core import TaskResult
from ..patchrun import ABIS, WHERES, HarnessError, World, quiet

PROPERTY = "C16"
LEVEL = "exploration"
RULE = (
    "every point of (ABI x clobber subset x clobbers_flags x align_stack x preserve_caller_saved x scratch count x "
    "reads_registers subset x leaf / non-leaf / no function / function without calls that leaves through a jump to another function) is generated through a real RewritingContext and executed on a "
    "concrete CPU from every initial SP (pointer-size multiples mod 32); a case is one (configuration, initial SP) pair; "
    "it is non-trivial when code was generated and ran to the end with the marker hit exactly once"
)
ASSUMPTIONS = [
    "the patch body is stack-neutral (leaves SP where it found it) but may overwrite any stack memory below its own SP "
    "(256 bytes are poisoned at the marker) and everything it declared (clobbered, scratch, caller-saved when asked, flags)",
    "trusted: capstone decoding, the machines in vf/machine (any instruction outside their subset is a harness error)",
    "caller-saved sets, red zone (only System V x86-64: 128 bytes), stack alignment (x86-64 16, IA32/PE 4, AArch64 16, "
    "MIPS o32 8) and reserved registers are written down from the psABI documents in vf/patchrun.py, not read from the library",
    "ValueError is accepted only when the scratch request cannot be met from allocatable registers that are neither "
    "clobbered nor read; NotImplementedError('Align_stack for MIPS not supported') is accepted as an explicit refusal",
    "the statement is silent about resources the patch did not declare: flags destroyed by the align_stack snippet when "
    "clobbers_flags is False, and undeclared registers changed by the prologue, are only counted (counters obs:*), not failed",
    "ARM64: an initial SP that is not 16-byte aligned cannot occur on hardware with SP alignment checking; such starts "
    "are still executed for the restoration checks but the align_stack requirement is waived for them",
    "clobber power set: representative registers per ABI (x86-64 rax rcx rbx r11 r15; ARM64 x0 x1 x19 x29 x30; MIPS t0 t8 a0 s0; "
    "IA32 all six); thorough adds all 2^14 x86-64 subsets for 24 combinations of the other dimensions and wider ARM64/MIPS sets",
    "leafFunctions aux data is absent at the start (first rewrite of the module)",
]
BOUNDS = {
    "quick": {
        "abis": sorted(ABIS),
        "clobber_sets": "all subsets of the representative set (32/32/64/32/16)",
        "flags_align_pcs": "2x2x2",
        "scratch": [0, 1, 2, 3],
        "reads": "all subsets of a 2-register set, plus one register of the clobber alphabet, plus (ARM64/MIPS) one register that is never a scratch candidate",
        "where": list(WHERES),
        "initial_sp": "every pointer-size multiple mod 32",
    },
    "thorough": {
        "quick": "everything in quick, plus",
        "x64": "all 2^14 clobber subsets x where(3) x flags x align x (pcs,scratch) in {(0,0),(1,3)} on x64-elf and x64-pe",
        "arm64": "all 2^10 subsets of x0 x1 x8 x15 x16 x18 x19 x28 x29 x30 x full product of the other dimensions (5 reads options)",
        "mips32": "all 2^8 subsets of t0 t7 t8 t9 a0 s0 v0 ra x full product of the other dimensions (5 reads options)",
    },
}
CAP_S = {"quick": 900, "thorough": 3600}

FLAGS0 = 0x0F1A6500
POISON_REG = 0x0BADBAD0
BODY_STACK = 256


def D(kind, **kw):
    d = {"kind": kind}
    d.update(kw)
    return d


# --------------------------------------------------------------------------- enumeration
def _reads_options(A):
    a, b = A["reads_pair"]
    return [[], [a], [b], [a, b]] + [[x] for x in A["reads_overlap"] + A["reads_never"]]


def _full_rest():
    """(flags, align, pcs, where) - the part of a group that shares one allocation."""
    return [(f, al, p, w) for f in (0, 1) for al in (0, 1) for p in (0, 1) for w in WHERES]


def tasks(tier):
    selfcheck.run()  # the CPUs must pass their own pinned snippets first
    t = []
    for abi in sorted(ABIS):
        n = len(ABIS[abi]["rep_clobbers"])
        for i in range(2 ** n):
            t.append(["rep", abi, i])
    # process histories: modules of several ABIs rewritten one after the other in one fresh interpreter
    for first in sorted(ABIS):
        t.append(["history", first, 3 if tier == "thorough" else 2])
    if tier == "thorough":
        for abi in ("x64-elf", "x64-pe"):
            for chunk in range(128):  # 128 chunks of 128 subsets
                t.append(["x64wide", abi, chunk])
        for chunk in range(128):  # 1024 subsets, 8 per chunk
            t.append(["wide", "arm64-elf", chunk])
        for chunk in range(64):  # 256 subsets, 4 per chunk
            t.append(["wide", "mips32-elf", chunk])
    return t


def task_group(task):
    return "%s:%s" % (task[0], task[1])


def _mask_subset(regs, i):
    return [r for k, r in enumerate(regs) if i >> k & 1]


def _groups(task):
    """Yield (abi, clob, scratch, reads, rest-list)."""
    kind, abi, i = task
    A = ABIS[abi]
    if kind == "rep":
        clob = _mask_subset(A["rep_clobbers"], i)
        for s in (0, 1, 2, 3):
            for reads in _reads_options(A):
                yield abi, clob, s, reads, _full_rest()
    elif kind == "x64wide":
        for j in range(i * 128, (i + 1) * 128):
            clob = _mask_subset(A["wide_clobbers"], j)
            for pcs, s in ((0, 0), (1, 3)):
                yield abi, clob, s, [], [(f, al, pcs, w) for f in (0, 1) for al in (0, 1) for w in WHERES]
    elif kind == "wide":
        per = 8 if abi == "arm64-elf" else 4
        for j in range(i * per, (i + 1) * per):
            clob = _mask_subset(A["wide_clobbers"], j)
            for s in (0, 1, 2, 3):
                for reads in _reads_options(A)[:5]:  # without the never-a-scratch register (covered by "rep")
                    yield abi, clob, s, reads, _full_rest()
    else:
        raise ValueError(task)


# --------------------------------------------------------------------------- driving the real code
class MarkerPatch(Patch):
    """get_asm returns the marker and records the InsertionContext."""

    def __init__(self, constraints):
        super().__init__(constraints)
        self.seen = {}  # id(block) -> InsertionContext: one Patch object may be inserted at several sites

    def get_asm(self, insertion_context, *args):
        self.seen[id(insertion_context.block)] = insertion_context
        self.extra_args = args
        return "nop"


def _constraints(cfg):
    return Constraints(
        clobbers_flags=bool(cfg["flags"]),
        clobbers_registers=set(cfg["clob"]),
        scratch_registers=cfg["scratch"],
        reads_registers=set(cfg["reads"]),
        align_stack=bool(cfg["align"]),
        preserve_caller_saved_registers=bool(cfg["pcs"]),
    )


def _generate(cfgs):
    """Run ONE real rewriting with one patch per configuration (all of the same ABI).
    Returns a list of (code, relocs, reported stack_adjustment, [scratch names])."""
    abi = cfgs[0]["abi"]
    per = {w: sum(1 for c in cfgs if c["where"] == w) for w in WHERES}
    # the non-leaf targets come first in address order and configurations that differ only in the
    # position share ONE Patch object: whatever the rewriter derives per patch must still be right
    # for every site the patch is inserted at
    world = World(abi, n_each=max(1, max(per.values())), order=("nonleaf", "leaf", "nofunc", "tail"))
    used = {w: 0 for w in WHERES}
    patches = []
    shared = {}
    for c in cfgs:
        b = world.blocks[c["where"]][used[c["where"]]]
        used[c["where"]] += 1
        key = (c["flags"], c["align"], c["pcs"], c["scratch"], tuple(c["clob"]), tuple(c["reads"]))
        p = shared.get(key)
        if p is None:
            p = shared[key] = MarkerPatch(_constraints(c))
        world.ctx.insert_at(b, 0, p)
        patches.append((p, b))
    world.ctx.apply()
    leaf = world.leaf_table()
    leaf.pop("tail_fn", None)  # what the library makes of a function that only jumps away is for the red-zone oracle to judge
    if leaf != {"leaf_fn": 1, "nonleaf_fn": 0, "local_callee": 1}:
        raise HarnessError("unexpected leafFunctions table %r" % leaf)
    out = []
    for (p, b), c in zip(patches, cfgs):
        seen = p.seen.get(id(b))
        if seen is None:
            raise HarnessError("patch was not invoked")
        fn = seen.function.get_name() if seen.function else None
        if fn != {"leaf": "leaf_fn", "nonleaf": "nonleaf_fn", "nofunc": None, "tail": "tail_fn"}[c["where"]]:
            raise HarnessError("patch landed in %r, wanted %s" % (fn, c["where"]))
        code, relocs = world.inserted(b)
        out.append((code, relocs, seen.stack_adjustment, [r.name for r in seen.scratch_registers]))
    return out


# --------------------------------------------------------------------------- oracle
def _unsatisfiable(cfg):
    A = ABIS[cfg["abi"]]
    free = [r for r in A["allocatable"] if r not in cfg["clob"] and r not in cfg["reads"]]
    return cfg["scratch"] > len(free)


def _classify_exception(cfg, exc):
    """None if the refusal is acceptable, else a discrepancy."""
    A = ABIS[cfg["abi"]]
    name = type(exc).__name__
    if isinstance(exc, ValueError) and _unsatisfiable(cfg):
        return None
    if isinstance(exc, NotImplementedError) and cfg["abi"] == "mips32-elf" and cfg["align"]:
        return None
    if set(cfg["reads"]) & set(A["reads_never"]):
        # reads_never = registers the ABI object never hands out as scratch (x29; MIPS a0)
        cause = "read-register-never-scratch"
    elif set(cfg["reads"]) & set(cfg["clob"]):
        cause = "read-register-also-clobbered"
    else:
        cause = "other"
    return D("exception", r_exc=name, r_cause=cause, message=str(exc)[:120])


def _starts(A):
    base = 0x7FFD80000000 if A["ptr"] == 8 else 0x7FFD8000
    return [base + k for k in range(0, 32, A["ptr"])]


def _features(cfg, havoc_regs):
    f = []
    if havoc_regs:
        f.append("regs")
    if cfg["flags"]:
        f.append("flags")
    if cfg["align"]:
        f.append("align")
    return "+".join(f) or "none"


def _check_scratch(cfg, scratch):
    A = ABIS[cfg["abi"]]
    diffs = []
    if len(scratch) != cfg["scratch"]:
        diffs.append(D("scratch-count", r_abi=cfg["abi"], got=len(scratch), asked=cfg["scratch"]))
    if len(set(scratch)) != len(scratch):
        diffs.append(D("scratch-duplicate", r_abi=cfg["abi"], scratch=scratch))
    for r in scratch:
        if r in cfg["reads"]:
            diffs.append(D("scratch-is-read-register", r_abi=cfg["abi"], reg=r))
        if r == A["sp"]:
            diffs.append(D("scratch-is-sp", r_abi=cfg["abi"], reg=r))
        elif r in A["reserved"]:
            diffs.append(D("scratch-is-reserved", r_abi=cfg["abi"], reg=r))
    return diffs


def _run_one(cfg, gen, sp0, obs):
    """Execute the generated code from sp0; returns discrepancies."""
    A = ABIS[cfg["abi"]]
    code, relocs, reported, scratch, m = gen
    init = mach.sentinels(m)
    init[A["sp"]] = sp0
    m.reset(init, FLAGS0)
    roles = {}
    for r in cfg["clob"]:
        roles.setdefault(r, "clobbered")
    for r in scratch:
        roles.setdefault(r, "scratch")
    if cfg["pcs"]:
        for r in A["caller_saved"]:
            roles.setdefault(r, "caller-saved")
    roles = {r: role for r, role in roles.items() if r in init and r != A["sp"]}
    has_flags = bool(cfg["flags"]) and A.get("has_flags", True)
    at = {}

    def body(mm):
        at["sp"] = mm.regs[A["sp"]]
        for k, r in enumerate(sorted(roles)):
            mm.regs[r] = (POISON_REG + k) & mm.mask
        if has_flags:
            mm.flags = POISON_REG
        mm.body_write((at["sp"] - BODY_STACK) & mm.mask, BODY_STACK)

    m.run(on_marker=body)
    if m.markers != 1:
        raise mach.MachineError("marker executed %d times" % m.markers)
    diffs = []
    feat = _features(cfg, roles)
    abi = cfg["abi"]
    for r in sorted(roles):
        if m.regs[r] != init[r]:
            d = D("reg-not-restored", r_abi=abi, r_role=roles[r], reg=r)
            if roles[r] == "caller-saved":
                d["r_reg"] = r
            diffs.append(d)
    if has_flags and m.flags != FLAGS0:
        diffs.append(D("flags-not-restored", r_abi=abi))
    if m.regs[A["sp"]] != sp0:
        diffs.append(D("sp-not-restored", r_abi=abi, delta=m.regs[A["sp"]] - sp0))
    above = [(i, a - sp0, s) for i, a, s in m.writes if a + s > sp0]
    if above:
        diffs.append(D("write-at-or-above-sp", r_abi=abi, writes=above[:3], insn=m.prog[above[0][0]].text))
    if A["red_zone"] and cfg["where"] in ("leaf", "nofunc", "tail"):
        rz = [(i, a - sp0, s) for i, a, s in m.writes if a < sp0 and a + s > sp0 - A["red_zone"]]
        if rz:
            diffs.append(D("red-zone-write", r_abi=abi, r_features=feat, writes=rz[:3], insn=m.prog[rz[0][0]].text))
    badreads = [(i, a - sp0, s, o) for i, a, s, o in m.reads if o != "code"]
    if badreads:
        diffs.append(D("read-of-slot-not-written-by-this-code", r_abi=abi, r_origin=badreads[0][3], reads=badreads[:3], insn=m.prog[badreads[0][0]].text))
    disp = sp0 - at["sp"]
    if reported is not None and reported != disp:
        diffs.append(D("stack-adjustment-wrong", r_abi=abi, r_features=feat, reported=reported, real=disp))
    if cfg["align"] and at["sp"] % A["stack_align"]:
        if not (A["machine"] == "arm64" and sp0 % 16):
            diffs.append(D("body-sp-not-abi-aligned", r_abi=abi, sp_mod=at["sp"] % A["stack_align"], start_mod=sp0 % 32))
    # observations the statement is silent about
    if not has_flags and m.flags != FLAGS0:
        obs["obs:undeclared-flags-destroyed"] += 1
    if any(m.regs[r] != init[r] for r in init if r not in roles and r != A["sp"]):
        obs["obs:undeclared-register-changed"] += 1
    for ev in m.events:
        if not (A["machine"] == "arm64" and sp0 % 16):
            obs["obs:" + ev[0]] += 1
    return diffs, reported


def _merge(all_diffs):
    """One discrepancy per signature, remembering the initial SPs that show it."""
    out = {}
    for sp_mod, d in all_diffs:
        sig = d["kind"] + "|" + "|".join("%s=%s" % (k, d[k]) for k in sorted(d) if k.startswith("r_"))
        if sig not in out:
            out[sig] = dict(d)
            out[sig]["initial_sp_mod32"] = []
        out[sig]["initial_sp_mod32"].append(sp_mod)
    return [out[k] for k in sorted(out)]


def _evaluate(cfg, gen, res=None):
    """All starts for one generated configuration. gen is a tuple or an exception."""
    A = ABIS[cfg["abi"]]
    obs = res.extra if res is not None else collections.Counter()
    starts = _starts(A)
    if isinstance(gen, Exception):
        d = _classify_exception(cfg, gen)
        outcome = ("accepted:" if d is None else "discrepancy:") + type(gen).__name__
        if res is not None:
            for sp0 in starts:
                res.case([cfg, sp0 % 32], nontrivial=False, outcome=outcome)
        return [d] if d else []
    code, relocs, reported, scratch = gen
    if relocs:
        raise mach.MachineError("prologue/epilogue carry symbolic expressions: %r" % relocs)
    m = mach.make(A["machine"], code)
    gen5 = (code, relocs, reported, scratch, m)
    found = [(None, d) for d in _check_scratch(cfg, scratch)]
    for sp0 in starts:
        diffs, _ = _run_one(cfg, gen5, sp0, obs)
        found.extend((sp0 % 32, d) for d in diffs)
        if res is not None:
            res.case(
                [cfg, sp0 % 32],
                nontrivial=True,
                outcome="%s adj=%s insns=%s" % ("discrepancy" if diffs else "ok", "known" if reported is not None else "None", len(m.prog) // 8 * 8),
            )
    return _merge(found)


def _single(cfg):
    try:
        return _generate([cfg])[0]
    except (HarnessError, mach.MachineError):
        raise
    except Exception as e:  # whatever the library raised is the observation
        return e


# --------------------------------------------------------------------------- process histories
HIST_RUNNER = r"""
import sys, json
sys.path.insert(0, %(root)r)
from vf.props import c16
print(json.dumps(c16.run_history_inproc(json.loads(%(hist)r))))
"""


def _hist_cfgs(abi):
    A = ABIS[abi]
    out = []
    for clob in ([], A["rep_clobbers"][:2]):
        for f, al, pcs, s in ((0, 0, 0, 0), (1, 0, 0, 1), (0, 1, 1, 0), (1, 1, 1, 2)):
            for w in ("nonleaf", "leaf"):
                out.append({"abi": abi, "clob": clob, "flags": f, "align": al, "pcs": pcs, "scratch": s, "reads": [], "where": w})
    return out


def run_history_inproc(hist):
    """in this interpreter: one small configuration set per ABI of the history, in order; [[cfg, diffs], ...]"""
    quiet()
    out = []
    for step, abi in enumerate(hist):
        for cfg in _hist_cfgs(abi):
            diffs = _evaluate(cfg, _single(cfg), None)
            for d in diffs:
                d["r_step"] = step
                d["r_history"] = ">".join(hist[: step + 1])
            out.append([cfg, diffs])
    return out


def run_history(hist):
    """fresh interpreter per history: what an earlier rewrite left in the process (a memo on a shared ABI class, a
    module-level table) is then exactly the history, and the case replays"""
    import json
    import os
    import subprocess
    import sys

    root = os.path.dirname(os.path.dirname(os.path.dirname(os.path.abspath(__file__))))
    code = HIST_RUNNER % {"root": root, "hist": json.dumps(hist)}
    p = subprocess.run([sys.executable, "-c", code], capture_output=True, text=True, env=dict(os.environ), timeout=900)
    if p.returncode != 0:
        raise HarnessError("history sub-process failed: " + p.stderr[-400:])
    return json.loads(p.stdout.strip().splitlines()[-1])


def _histories(first, depth):
    for n in range(2, depth + 1):
        for rest in itertools.product(sorted(ABIS), repeat=n - 1):
            yield [first] + list(rest)


def run_task(task):
    quiet()
    res = TaskResult()
    if task[0] == "history":
        for hist in _histories(task[1], task[2]):
            rows = run_history(hist)
            bad = [d for _, ds in rows for d in ds]
            res.case(["history", hist], nontrivial=len(set(hist)) > 1, outcome="history:" + ("discrepancy" if bad else "ok"))
            if bad:
                res.bad({"history": hist}, bad)
        res.sample({"history": [task[1], sorted(ABIS)[0]]}, cap=1)
        return res
    for abi, clob, s, reads, rest in _groups(task):
        cfgs = [
            {"abi": abi, "clob": clob, "flags": f, "align": al, "pcs": p, "scratch": s, "reads": reads, "where": w}
            for f, al, p, w in rest
        ]
        try:
            gens = _generate(cfgs)
            res.extra["applies_batched"] += 1
        except (HarnessError, mach.MachineError):
            raise
        except Exception:
            gens = [_single(c) for c in cfgs]
            res.extra["applies_single"] += len(cfgs)
        batched = not any(isinstance(g, Exception) for g in gens) and res.extra["applies_batched"] > 0
        for ci, (c, g) in enumerate(zip(cfgs, gens)):
            diffs = _evaluate(c, g, res)
            if diffs:
                # the case records its siblings of the same apply(): what the rewriter derives may
                # depend on the other insertions of the rewrite (e.g. a shared Patch object)
                case = dict(c)
                case["group"] = {"abi": abi, "clob": clob, "scratch": s, "reads": reads, "rest": [list(r) for r in rest], "index": ci}
                res.bad(case, diffs)
            elif not isinstance(g, Exception) and len(res.samples) < 1:
                res.sample({"cfg": c, "listing": mach.make(ABIS[abi]["machine"], g[0]).listing(), "stack_adjustment": g[2], "scratch": g[3]}, cap=1)
    return res


def replay(case):
    quiet()
    if "history" in case:
        return [d for _, ds in run_history(case["history"]) for d in ds]
    cfg = {k: v for k, v in case.items() if k != "group"}
    grp = case.get("group")
    if grp:
        cfgs = [
            {"abi": grp["abi"], "clob": grp["clob"], "flags": f, "align": al, "pcs": p, "scratch": grp["scratch"], "reads": grp["reads"], "where": w}
            for f, al, p, w in grp["rest"]
        ]
        try:
            g = _generate(cfgs)[grp["index"]]
        except (HarnessError, mach.MachineError):
            raise
        except Exception:
            g = _single(cfg)
    else:
        g = _single(cfg)
    return _evaluate(cfg, g, None)
