"""
C05  Output IR is closed, well-formed and serializable, even on failure.

Scenario families of the other listing-world checks are re-used as inputs;
after every apply() the whole IR is validated.  For every patch callback k of
a scenario the run is repeated with a fault injected into the k-th callback
(plain exception / invalid assembly / undefined symbol).
"""
import gtirb

from ..core import TaskResult
from ..world import compare as C
from ..world import listing as Lg
from ..world import scen, validate
from ..world.run import branch_into_data, exc_diff, is_documented_refusal

PROPERTY = "C05"
LEVEL = "fault_enumeration"
RULE = (
    "every (module, modification set) of the families {C01 x64 shapes, C03 products, C06 layouts, C08 CFI modules, a "
    "module carrying all block-keyed aux tables} with <= N atoms is applied and the resulting IR validated (closure "
    "of CFG / symbols / expressions / every aux table, blocks inside intervals, no overlapping new blocks, zero-sized "
    "blocks only with a reason, addresses, protobuf round trip of a canonical dump); then for each of the m patch "
    "callbacks of the set, for each fault kind in {exception, invalid assembly, undefined symbol}, the run is repeated "
    "with the fault injected into the k-th callback and the left-behind IR validated. A case is one apply(); "
    "non-trivial = at least one modification; distinct by (module, mods, fault point, fault kind)"
)
ASSUMPTIONS = [
    "'whenever apply() returns' is read as 'apply() must return for a well-formed request': an internal AssertionError is a violation "
    "(known ones are matched by signature)",
    "after an injected fault byte intervals need not be re-joined (the statement does not ask for it); ir.cfg identity, live edges, "
    "symbol referents, closure and serializability are required",
    "x86-64 ELF only",
]
BOUNDS = {"quick": {"set_size": 2, "fault_kinds": 3}, "thorough": {"set_size": 2, "fault_kinds": 3, "families": "all shapes"}}
CAP_S = {"quick": 400, "thorough": 2400}

FAULTS = ("raise", "syntax", "undef")

import logging  # noqa: E402

logging.getLogger("gtirb_rewriting").setLevel(logging.CRITICAL)  # injected syntax errors are logged by the library


class Boom(Exception):
    pass


def all_tables_spec(target="x64-elf"):
    """3 code blocks + data; every block-keyed table populated (filled in by decorate())."""
    A = scen.code_block("A", [1, 2], None, f="f", e=True)
    B = scen.code_block("B", [3], ["jcc", "A"], f="f")
    Cb = scen.code_block("C", [4], ["ret"], f="g", e=True)
    Dd = scen.data_block("D", [0xD1, 0xD2])
    E = scen.code_block("E", [5], ["ret"], f="h", e=True)
    sp = scen.spec_of([A, B, Cb, Dd, E], target=target)
    sp["all_tables"] = True
    return sp


def decorate(w):
    """populate alignment(no constraint=1), encodings, types, SCCs, profile, safe SEH-like, init/fini, entry point"""
    m = w.m
    if not w.spec.get("all_tables"):
        return
    m.entry_point = w.blocks["A"]
    m.aux_data["SCCs"].data.update({w.blocks[n]: i for i, n in enumerate("ABC")})
    m.aux_data["encodings"].data[w.blocks["D"]] = "string"
    m.aux_data["profile"] = gtirb.AuxData(type_name="mapping<UUID,uint64_t>", data={w.blocks[n]: 7 for n in "ABC"})
    m.aux_data["types"] = gtirb.AuxData(type_name="mapping<UUID,string>", data={w.blocks["D"]: "char"})
    if m.file_format == gtirb.Module.FileFormat.ELF:
        m.aux_data["elfDynamicInit"] = gtirb.AuxData(type_name="UUID", data=w.blocks["B"])
        m.aux_data["elfDynamicFini"] = gtirb.AuxData(type_name="UUID", data=w.blocks["C"])
    else:
        # handlers: one followed by code, one followed by data, one last in the section
        m.aux_data["peSafeExceptionHandlers"] = gtirb.AuxData(type_name="set<UUID>", data={w.blocks["A"], w.blocks["C"], w.blocks["E"]})
    m.aux_data["comments"].data[gtirb.Offset(w.blocks["A"], 0)] = "a0"
    m.aux_data["comments"].data[gtirb.Offset(w.blocks["C"], 2)] = "c2"
    m.aux_data["padding"].data[gtirb.Offset(w.blocks["D"], 1)] = 1


def families(tier):
    from . import c01, c03, c06, c08

    fam = []
    combos = c01.shapes("x64-elf")
    for combo in (combos if tier == "thorough" else combos[5::24]):
        fam.append(("c01", c01.make_spec("x64-elf", list(combo), "one"), "c01"))
    for term, follow in ([(t, f) for t in c03.TERMS for f in c03.FOLLOW if not (t == "jccnext" and f not in ("same", "other"))] if tier == "thorough" else [("none", "same"), ("call", "data"), ("ret", "same"), ("icall2", "other")]):
        fam.append(("c03", c03.make_spec(term, follow, 1, True), "c03"))
    # functions without known callers all return to ONE proxy block; patches elsewhere call them
    sp = c03.make_spec("call", "other", 0, True)
    sp["share_return_proxy"] = True
    fam.append(("c03-shared-proxy", sp, "c03"))
    for name in (c06.LAYOUTS if tier == "thorough" else ("data-between",)):
        fam.append(("c06", c06.make_spec(name), "c06"))
    for name, spec in c08.MODULES.items():
        if tier == "thorough" or name in ("two-procs", "personality", "split-by-data"):
            fam.append(("c08", spec, "c08"))
    fam.append(("all-tables", all_tables_spec(), "all"))
    fam.append(("all-tables-pe", all_tables_spec("x64-pe"), "all"))
    return fam


def atoms_for(spec, kind):
    from . import c03, c06, c08

    if kind == "c03":
        xa = [a for a in c03.x_atoms(spec) if a.get("pn") in (None, "ord", "callG", "ret", "jmp")]
        oa = c03.other_atoms(spec, True)
        if spec.get("share_return_proxy"):
            oa = oa + [a for a in c03.other_atoms(spec, False) if a.get("pn") == "callX"]
        return [{k: v for k, v in a.items() if k != "pn"} for a in xa + oa]
    if kind == "c08":
        return c08.atoms_for(spec)
    if kind == "c06":
        return c06.atoms_for(spec)
    pats = [[["p", 0]], [["lab", ".Lx"], ["p", 0], ["jcc", ".Lx"]], [["p", 0], ["call", "ext"]]]
    out = scen.atoms_for(spec, pats, data_patches=[{"bytes": [0, 0]}], max_del=2)
    if kind == "all":
        # assembled data patches (they carry encodings / types of their own) inside and around data
        for s_ in spec["sections"]:
            for b in s_["blocks"]:
                if b["k"] == "d":
                    for k in range(len(b["i"]) + 1):
                        out.append({"op": "ins", "b": b["n"], "k": k, "p": [["raw", '.string "ab"']]})
                        out.append({"op": "ins", "b": b["n"], "k": k, "p": [["raw", ".byte 7"]]})
        # patches that bring contents for another section (existing .data / a brand-new section), with a
        # label the patch itself refers to
        sect_patches = [
            [["p", 0], ["raw", "leaq .Lnewdata(%rip), %rax"], ["raw", ".data"], ["raw", ".Lnewdata:"], ["raw", ".byte 1, 2"], ["raw", ".text"]],
            [["p", 0], ["raw", '.section .mysec,"a",@progbits' if spec["target"].endswith("elf") else ".data"], ["raw", ".Lgnew:"], ["raw", ".quad A"], ["raw", ".text"], ["p", 0]],
        ]
        for s_ in spec["sections"]:
            for b in s_["blocks"]:
                if b["k"] == "c":
                    for sp_ in sect_patches:
                        out.append({"op": "ins", "b": b["n"], "k": 0, "p": sp_})
                    out.append({"op": "ins", "b": b["n"], "k": len(b["i"]), "p": sect_patches[0]})
        # delete_function-style removal of every function
        for f in sorted({b.get("f") for s_ in spec["sections"] for b in s_["blocks"] if b.get("f")}):
            pass
    if kind == "all":
        # inserted functions (their patch callbacks are fault points too)
        out.append({"op": "newfunc", "name": "nf1", "p": [["p", 0], ["ret"]]})
        out.append({"op": "newfunc", "name": "nf2", "p": [["p", 0], ["jcc", ".Lq"], ["p", 0], ["lab", ".Lq"], ["call", "A"], ["ret"]]})
    return out


def _model_mods(mods):
    return [m for m in mods if m["op"] != "newfunc"]


def run_once(spec, mods, fault=None):
    """-> (diffs, outcome)"""
    from gtirb_rewriting import RewritingContext
    from gtirb_rewriting.assembler import AsmSyntaxError, UndefSymbolError

    w = Lg.build(spec)
    decorate(w)
    original_blocks = set(w.m.byte_blocks)
    orig_cfg = w.ir.cfg
    had_referent = {s: s.referent is not None for s in w.m.symbols}
    faults = {}
    fired = []
    if fault is not None:
        idx, kind = fault

        def f():
            fired.append(kind)
            if kind == "raise":
                raise Boom("injected")
            if kind == "syntax":
                return "this is not assembly ,,,\n"
            return "call no_such_symbol_anywhere\n"

        faults[idx] = f
    ctx = RewritingContext(w.m, w.funcs)
    exc = None
    try:
        Lg.register(w, ctx, mods, faults=faults)
        ctx.apply()
    except Exception as e:
        exc = e
    diffs = []
    if fault is None:
        if exc is not None:
            from ..world.run import label_roles

            try:
                E, expect = Lg.expected(spec, _model_mods(mods))
                E.label_roles = label_roles(spec, _model_mods(mods))
            except ValueError:  # raw patch text has no reference expansion: model it by an ordinary patch
                m2 = [dict(m_, p=[["p", 1]]) if m_["op"] in ("ins", "rep") and isinstance(m_.get("p"), list) and any(t[0] == "raw" for t in m_["p"]) else m_ for m_ in mods]
                E, expect = Lg.expected(spec, m2)
                E.label_roles = label_roles(spec, m2)
            if expect is not None and is_documented_refusal(exc):
                outcome = "refused"
            elif branch_into_data(E) and type(exc).__name__ == "UnsupportedAssemblyError":
                outcome = "refused-branch-into-data"
            else:
                diffs.append(exc_diff(spec, _model_mods(mods), exc))
                outcome = "raised"
        else:
            outcome = "ok"
    else:
        want = {"raise": Boom, "syntax": AsmSyntaxError, "undef": UndefSymbolError}[fault[1]]
        if not fired:
            outcome = "fault-not-reached"
            if exc is not None and not isinstance(exc, AssertionError):
                pass
        elif exc is None:
            diffs.append(C.D("injected-fault-swallowed", r_fault=fault[1]))
            outcome = "fault-swallowed"
        elif not isinstance(exc, want):
            diffs.append(C.D("injected-fault-replaced-by-other-exception", r_fault=fault[1], r_exc=type(exc).__name__, msg=str(exc)[:100]))
            outcome = "fault-other-exception"
        else:
            outcome = "fault:" + fault[1]
        # what is left behind
        if w.ir.cfg is not orig_cfg:
            diffs.append(C.D("after-fault-ir-cfg-is-not-the-callers-object", r_fault=fault[1]))
        for s, had in had_referent.items():
            if had and s.module is w.m and s.referent is None:
                diffs.append(C.D("after-fault-symbol-without-referent", r_fault=fault[1], sym=s.name))
        # all live edges: every block's edges as seen through the node API are in ir.cfg (same object) - and
        # no edge of a block of the module is missing: compare with the edge set visible from blocks
        for b in w.m.code_blocks:
            for e in list(b.outgoing_edges) + list(b.incoming_edges):
                if e not in w.ir.cfg:
                    diffs.append(C.D("after-fault-edge-not-in-ir-cfg", r_fault=fault[1]))
    v = validate.validate(w.ir, w.m, original_blocks=original_blocks, had_zero_sized=False, roundtrip=True)
    after = "fault" if (fault is not None and fired) else ("exception" if exc is not None else "success")
    for d in v:
        d["r_after"] = after
    if after != "success":
        # "every block has an address" is promised for a returning apply() only; after a failure the
        # statement asks for closure, serializability, ir.cfg and referents
        v = [d for d in v if d["kind"] != "block-without-address"]
    diffs.extend(v)
    return diffs, outcome


def n_callbacks(mods):
    return [i for i, m in enumerate(mods) if m["op"] in ("ins", "rep", "newfunc") and isinstance(m["p"], list)]


def tasks(tier):
    t = []
    fams = families(tier)
    for fi, (fam, spec, kind) in enumerate(fams):
        na = len(atoms_for(spec, kind))
        t.append((tier, fi, None))
        step = 1 if tier == "thorough" else 3
        for i in range(0, na, step):
            t.append((tier, fi, i))
    return t


def task_group(task):
    return "family%d" % task[1]


def run_task(task):
    tier, fi, first = task
    return _run(tier, fi, first, TaskResult())


_FAMS = {}


def _run(tier, fi, first, res):
    fams = _FAMS.setdefault(tier, families(tier))
    fam, spec, kind = fams[fi]
    atoms = atoms_for(spec, kind)
    if first is None:
        sets = [[]] + [[a] for a in atoms]
    else:
        a0 = atoms[first]
        sets = []
        for j in range(first + 1, len(atoms)):
            if scen.compatible(a0, atoms[j], None):
                sets.append([a0, atoms[j]])
    for mods in sets:
        mods = scen.retag(mods)
        diffs, outcome = run_once(spec, mods)
        res.case((fam, fi, mods, None), nontrivial=bool(mods), outcome=outcome)
        if diffs:
            res.bad({"family": fi, "tier": tier, "mods": mods, "fault": None}, diffs)
        res.extra["runs:plain"] += 1
        if outcome != "ok":
            continue
        for k in n_callbacks(mods):
            for kind_ in FAULTS:
                d2, o2 = run_once(spec, mods, fault=(k, kind_))
                res.case((fam, fi, mods, k, kind_), nontrivial=True, outcome=o2)
                res.extra["runs:fault"] += 1
                if d2:
                    res.bad({"family": fi, "tier": tier, "mods": mods, "fault": [k, kind_]}, d2)
        if len(mods) == 2:
            res.sample({"family": fam, "mods": mods, "faults": "each callback x %s" % (FAULTS,)}, cap=1)
    return res


def replay(case):
    import os

    fams = _FAMS.setdefault(case["tier"], families(case["tier"]))
    fam, spec, kind = fams[case["family"]]
    f = tuple(case["fault"]) if case.get("fault") else None
    return run_once(spec, case["mods"], fault=f)[0]
