"""
C03  CFG equals the control flow of the edited listing, per instruction.

Product: block ending x edit position x patch ending x follower x callers,
plus deletions / replacements removing terminators, call sites, callees and
whole functions.  Both sides are flattened to per-instruction edges.
"""
from ..core import TaskResult
from ..world import chain, scen
from ..world.run import run_scenario

PROPERTY = "C03"
LEVEL = "exploration"
RULE = (
    "product of (terminator of the edited block: none/jmp/jcc/call/ret/indirect jmp/indirect call) x (follower: code "
    "same function / code other function / data / nothing) x (callers: none / one) x (function tables present / absent) "
    "x all non-overlapping sets of <= N atoms from {insert one of 8 patch endings at every boundary of the edited "
    "block, replace/delete every instruction or the terminator, delete whole blocks (block under test, follower, "
    "callee, call site; with and without proxy)}; plus BFS over chains of single-modification rewrites. A case is one "
    "apply(); non-trivial = expected per-instruction edge set differs from the input's; distinct by (shape, mods)"
)
ASSUMPTIONS = [
    "fallthrough of an instruction followed by data or nothing is unspecified: no edge, an edge to a proxy or to a kept "
    "zero-sized block are all accepted",
    "zero-sized blocks kept by the library are positions, their own fallthrough-to-proxy edge is ignored",
    "'calls that target F' = calls whose target label lies in any block of F (what the library's function lookup means)",
    "x86-64 ELF only; MIPS delay slots out of scope",
]
BOUNDS = {"quick": {"set_size": 2, "pair_family": "one atom on the block under test x one atom anywhere (reduced second alphabet)", "chain_depth": 2},
          "thorough": {"set_size": 2, "pair_family": "all pairs", "chain_depth": 3}}
CAP_S = {"quick": 400, "thorough": 2400}

TERMS = {"none": None, "jmp": ["jmp", "Z"], "jcc": ["jcc", "Z"], "call": ["call", "G"], "ret": ["ret"], "ijmp": ["ijmp"], "icall": ["icall"],
         # a conditional jump whose target is the very block it falls through to (`jne .L; .L:`)
         "jccnext": ["jcc", "Y"],
         # an indirect call whose two possible callees are known to the CFG (two Call edges out of one block)
         "icall2": ["icall", "G", "G2"]}
FOLLOW = ("same", "other", "data", "nothing")

PATCHES = {
    "ord": [["p", 0]],
    "lab": [["lab", ".Lx"], ["p", 0], ["jcc", ".Lx"], ["p", 0]],
    "jmp": [["p", 0], ["jmp", "Z"]],
    "jcc": [["p", 0], ["jcc", "Z"]],
    "callG": [["p", 0], ["call", "G"]],
    "callG+": [["call", "G"], ["p", 0]],
    "callext": [["call", "ext"], ["p", 0]],
    "ret": [["p", 0], ["ret"]],
    "ijmp": [["p", 0], ["ijmp"]],
    "callX": [["call", "X"], ["p", 0]],
    "callG2": [["call", "G"], ["p", 0], ["call", "G"], ["p", 0]],  # one patch, two calls of the same function
    "callX2": [["call", "X"], ["p", 0], ["call", "X"], ["p", 0]],
}


def make_spec(term, follow, callers, functions):
    X = scen.code_block("X", [1, 2], TERMS[term], f="f", e=True)
    Z = scen.code_block("Z", [5], ["ret"], f="f")
    G = scen.code_block("G", [7], ["ret"], f="g", e=True)
    Y = None
    if follow == "same":
        Y = scen.code_block("Y", [3], ["ret"], f="f")
    elif follow == "other":
        Y = scen.code_block("Y", [3], ["ret"], f="h", e=True)
    elif follow == "data":
        Y = scen.data_block("Y", [0xD1, 0xD2])
    pre = []
    if callers:
        pre = [scen.code_block("K", [8], ["call", "X"], f="k", e=True), scen.code_block("K2", [9], ["ret"], f="k")]
    more = [scen.code_block("G2", [10], ["ret"], f="g2", e=True)] if term == "icall2" else []
    if follow == "nothing":
        blocks = pre + [Z, G] + more + [X]
    else:
        blocks = pre + [X, Y, Z, G] + more
    sp = scen.spec_of(blocks, functions=functions)
    if term == "icall2":
        sp["share_return_proxy"] = True  # ...and every function without a known caller returns to one shared proxy
    return sp


def x_atoms(spec):
    out = []
    _, X = next((s, b) for s in spec["sections"] for b in s["blocks"] if b["n"] == "X"), None
    X = _[1]
    n = len(X["i"])
    for k in range(n + 1):
        for pn, p in PATCHES.items():
            out.append({"op": "ins", "b": "X", "k": k, "p": p, "pn": pn})
    for k in range(n):
        out.append({"op": "del", "b": "X", "k": k, "n": 1})
        for pn in ("ord", "jmp", "ret", "callG"):
            out.append({"op": "rep", "b": "X", "k": k, "n": 1, "p": PATCHES[pn], "pn": pn})
    out.append({"op": "del", "b": "X", "k": 1, "n": n - 1})
    out.append({"op": "del", "b": "X", "k": 0, "n": n})
    out.append({"op": "del", "b": "X", "k": 0, "n": n, "proxy": True})
    return out


def other_atoms(spec, reduced):
    out = []
    for s in spec["sections"]:
        for b in s["blocks"]:
            if b["n"] == "X":
                continue
            n = len(b["i"])
            out.append({"op": "del", "b": b["n"], "k": 0, "n": n})
            out.append({"op": "del", "b": b["n"], "k": 0, "n": n, "proxy": True})
            if b["k"] == "c":
                out.append({"op": "del", "b": b["n"], "k": n - 1, "n": 1})  # the terminator / call site
                for pn in ("ord",) if reduced else ("ord", "callX", "ret"):
                    out.append({"op": "ins", "b": b["n"], "k": 0, "p": PATCHES[pn], "pn": pn})
                    out.append({"op": "ins", "b": b["n"], "k": n, "p": PATCHES[pn], "pn": pn})
            else:
                out.append({"op": "ins", "b": b["n"], "k": 0, "p": {"bytes": [0]}})
    return out


def term_pairs_off(spec):
    """quick tier: pairs only for the terminators none/jmp/call/ret of the block under test"""
    X = next(b for s in spec["sections"] for b in s["blocks"] if b["n"] == "X")
    return len(X["i"]) == 3 and X["i"][-1] in (["ijmp"], ["icall"]) or (len(X["i"]) == 3 and X["i"][-1] == ["jcc", "Z"])


def gen_sets(spec, tier):
    xa = x_atoms(spec)
    oa = other_atoms(spec, reduced=(tier == "quick"))
    nins = None
    yield []
    for a in xa + oa:
        yield [a]
    if tier == "quick" and term_pairs_off(spec):
        return
    xr = [a for a in xa if a.get("pn") in (None, "ord", "ret", "callG")] if tier == "quick" else xa
    xq = [a for a in xa if a.get("pn") in (None, "ord", "ret", "callG", "jmp", "callX", "lab")] if tier == "quick" else xa
    # X x other, both registration orders matter only at equal offsets -> one order
    for a in xq:
        for b in oa:
            yield [a, b]
    xa = xq
    # X x X (non-overlapping), second atom from the reduced list
    for i, a in enumerate(xr if tier == "quick" else xa):
        for b in xr:
            if a is b or not scen.compatible(a, b, nins):
                continue
            if (a["k"], a["op"]) > (b["k"], b["op"]) and b in xa and a in xr:
                continue  # unordered pair already produced unless same offset
            yield [a, b]
            if a["k"] == b["k"]:
                yield [b, a]
    if tier == "thorough":
        for i, a in enumerate(oa):
            for b in oa[i + 1:]:
                if scen.compatible(a, b, nins):
                    yield [a, b]
    else:
        # quick: (something at a call site of X: code put behind it / the site deleted) x (a patch elsewhere that calls X,
        # or returns): the first walks the callee's blocks through the return-edge cache, the second relies on what it left
        sites = [a for a in other_atoms(spec, reduced=False) if a["b"] == "K" and (a["op"] == "ins" and a["k"] > 0 or a["op"] == "del" and a["k"] > 0)]
        later = [a for a in other_atoms(spec, reduced=False) if a["b"] not in ("K", "X") and a.get("pn") in ("callX", "ret")]
        for a in sites:
            for b in later:
                yield [a, b]


def tasks(tier):
    t = []
    for term in TERMS:
        for follow in FOLLOW:
            if term == "jccnext" and follow not in ("same", "other"):
                continue
            for callers in (0, 1):
                for functions in (True, False):
                    if not functions and (callers or tier == "quick" and follow in ("other",)):
                        continue
                    t.append(("sets", term, follow, callers, functions, tier))
    d = BOUNDS[tier]["chain_depth"]
    for si, (term, follow) in enumerate((("call", "same"), ("jcc", "data"), ("ret", "other"))[: 1 if tier == "quick" else 3]):
        sp = make_spec(term, follow, 1, True)
        for first in range(chain.n_first(sp)):
            t.append(("bfs", term, follow, first, d))
    return t


def task_group(task):
    return task[0] + ("/func" if task[0] == "sets" and task[4] else "/nofunc" if task[0] == "sets" else "")


PROBLEMS = (
    "control-transfer-buried-in-block",
    "edge-target-not-in-module",
    "edge-proxy-not-in-module",
    "cfg-endpoint-not-in-module",
    "cfg-proxy-not-in-module",
    "edge-without-label",
    "undecodable-code-block",
)


def check(spec, mods):
    outcome, diffs, w, E, O = run_scenario(spec, mods, ["edges"], problem_kinds=PROBLEMS)
    return outcome, diffs, E


def run_task(task):
    res = TaskResult()
    if task[0] == "bfs":
        _, term, follow, first, depth = task
        chain.explore(make_spec(term, follow, 1, True), depth, res, first, aspects=["edges"], problem_kinds=PROBLEMS, name="c03-%s-%s" % (term, follow))
        return res
    _, term, follow, callers, functions, tier = task
    spec = make_spec(term, follow, callers, functions)
    from ..world import listing as Lg

    in_edges = Lg.flatten(spec, Lg.tokens_of(spec), set()).edges
    for mods in gen_sets(spec, tier):
        mods = scen.retag([{k: v for k, v in m.items() if k != "pn"} for m in mods])
        outcome, diffs, E = check(spec, mods)
        res.case((task[1:5], mods), nontrivial=E.edges != in_edges, outcome=outcome.split(";")[-1][:60])
        if diffs:
            res.bad({"spec": spec, "mods": mods}, diffs)
        if len(mods) == 2:
            res.sample({"spec": spec, "mods": mods}, cap=1)
    return res


def replay(case):
    if "history" in case:
        return chain.replay(case, aspects=["edges"], problem_kinds=PROBLEMS)
    return check(case["spec"], case["mods"])[1]
