"""
C08  Rewriting preserves call-frame (unwind) information.

The unwind state at every instruction is computed with the reference CFI
interpreter (vf/cfimodel.py) from the directive tables before and after the
rewrite; the library's own evaluator is run too and must not raise.
"""
import copy

import gtirb

from ..core import TaskResult
from ..world import cfieval
from ..world import compare as C
from ..world import listing as Lg
from ..world import scen
from ..world.run import run_scenario

PROPERTY = "C08"
LEVEL = "exploration"
RULE = (
    "(modules with 1-2 CFI procedures over 2-4 blocks: directives at block starts, instruction boundaries and block "
    "ends, remember/restore spanning blocks, personality/LSDA symbols, data between procedures) x all non-overlapping "
    "sets of <= N atoms {insert a patch without CFI / with balanced CFI at every boundary, delete/replace every "
    "instruction, delete whole blocks with and without proxy}; plus every balanced patch shape over {label, remember, "
    "undefined, restore, instruction} of <= L tokens inserted at three sites inside procedures; a case is one apply(); non-trivial = a modification "
    "lands inside or on the boundary of a procedure; distinct by (module, mods)"
)
ASSUMPTIONS = [
    "unwind states are computed by the reference interpreter vf/cfimodel.py (DWARF 6.4), not by the library's evaluator",
    "a startproc/endproc pair that no longer encloses any surviving instruction may disappear as a pair (the library drops "
    "balanced pairs on purpose; 'opened and closed exactly once' cannot be told from 'gone' for an empty procedure)",
    "a patch inserted outside any procedure cannot keep its CFI directives (they would be ill-formed there)",
    "x86-64 ELF only",
]
BOUNDS = {"quick": {"set_size": 2}, "thorough": {"set_size": 3}}
CAP_S = {"quick": 400, "thorough": 2400}

SP = [".cfi_startproc", [], None]
EP = [".cfi_endproc", [], None]
DEF = [".cfi_def_cfa", [7, 8], None]
OFF16 = [".cfi_def_cfa_offset", [16], None]
OFF8 = [".cfi_def_cfa_offset", [8], None]
REM = [".cfi_remember_state", [], None]
RES = [".cfi_restore_state", [], None]
RBX = [".cfi_offset", [3, -16], None]

P_ORD = [["p", 0]]
P_CFI = [["push"], ["cfi", ".cfi_adjust_cfa_offset", [8]], ["p", 0], ["pop"], ["cfi", ".cfi_adjust_cfa_offset", [-8]]]
P_DATA = {"bytes": [0]}


def modules():
    out = {}
    # one procedure over A,B ; second procedure C ; nothing else
    A = {"n": "A", "k": "c", "i": [["push"], ["o", 1]], "f": "f", "e": True, "cfi": {"0": [SP, DEF], "1": [OFF16, RBX]}}
    B = {"n": "B", "k": "c", "i": [["o", 2], ["pop"], ["ret"]], "f": "f", "e": False, "cfi": {"0": [REM], "2": [OFF8], "3": [RES, EP]}}
    Cb = {"n": "C", "k": "c", "i": [["o", 3], ["ret"]], "f": "g", "e": True, "cfi": {"0": [SP, DEF], "2": [EP]}}
    out["two-procs"] = scen.spec_of([A, B, Cb])
    # data block between the procedures, function-less code after
    D = scen.data_block("D", [0xD1, 0xD2])
    N = scen.code_block("N", [4], ["ret"], f=None)
    out["data-between"] = scen.spec_of([copy.deepcopy(A), copy.deepcopy(B), D, copy.deepcopy(Cb), N])
    # personality / lsda symbols, endproc at block end of a one-block procedure
    P = {"n": "P", "k": "c", "i": [["o", 5], ["o", 6], ["ret"]], "f": "f", "e": True,
         "cfi": {"0": [SP, [".cfi_personality", [155], "ext"], [".cfi_lsda", [27], "LS"], DEF], "1": [OFF16], "3": [EP]}}
    LS = scen.data_block("LS", [0xE1, 0xE2])
    Q = {"n": "Q", "k": "c", "i": [["o", 7], ["ret"]], "f": "g", "e": True, "cfi": {"0": [SP, DEF], "2": [EP]}}
    out["personality"] = scen.spec_of([P, Q], data_blocks=[LS])
    # procedure whose first block holds only startproc (so deleting it is harmless) and remember/restore across 3 blocks
    R1 = {"n": "R1", "k": "c", "i": [["o", 8]], "f": "f", "e": True, "cfi": {"0": [SP]}}
    R2 = {"n": "R2", "k": "c", "i": [["o", 9], ["jcc", "R4"]], "f": "f", "e": False, "cfi": {"0": [DEF, REM], "1": [OFF16]}}
    R3 = {"n": "R3", "k": "c", "i": [["o", 10], ["ret"]], "f": "f", "e": False, "cfi": {}}
    R4 = {"n": "R4", "k": "c", "i": [["o", 11], ["ret"]], "f": "f", "e": False, "cfi": {"0": [RES], "2": [EP]}}
    out["remember-restore"] = scen.spec_of([R1, R2, R3, R4])
    # directives at every instruction boundary of one block, incl. a register rule and a state save
    DN = {"n": "DN", "k": "c", "i": [["push"], ["o", 12], ["o", 13], ["pop"], ["ret"]], "f": "f", "e": True,
          "cfi": {"0": [SP, DEF], "1": [OFF16, RBX], "2": [[".cfi_offset", [6, -24], None]], "3": [REM], "4": [OFF8, [".cfi_restore", [3], None]], "5": [RES, EP]}}
    DN2 = {"n": "DN2", "k": "c", "i": [["o", 14], ["ret"]], "f": "g", "e": True, "cfi": {"0": [SP, DEF], "1": [[".cfi_undefined", [16], None]], "2": [EP]}}
    out["dense"] = scen.spec_of([DN, DN2])
    # three short procedures back to back: endproc at the end offset of one block, startproc at offset 0 of the next
    T1 = {"n": "T1", "k": "c", "i": [["ret"]], "f": "f", "e": True, "cfi": {"0": [SP, DEF], "1": [EP]}}
    T2 = {"n": "T2", "k": "c", "i": [["o", 15], ["ret"]], "f": "g", "e": True, "cfi": {"0": [SP, DEF], "2": [EP]}}
    T3 = {"n": "T3", "k": "c", "i": [["ret"]], "f": "h", "e": True, "cfi": {"0": [SP, DEF, OFF16], "1": [EP]}}
    out["back-to-back"] = scen.spec_of([T1, T2, T3])
    # one procedure whose two code blocks are separated by data: each holds one half of the startproc/endproc pair and
    # has no code neighbour on either side (section start / data), so neither can hand its directives to a neighbour
    S1 = {"n": "S1", "k": "c", "i": [["o", 16], ["jmp", "S2"]], "f": "f", "e": True, "cfi": {"0": [SP, DEF]}}
    SD = scen.data_block("SD", [0xD3, 0xD4])
    S2 = {"n": "S2", "k": "c", "i": [["o", 17], ["ret"]], "f": "f", "e": False, "cfi": {"2": [EP]}}
    SD2 = scen.data_block("SD2", [0xD5])
    H = {"n": "H", "k": "c", "i": [["o", 18], ["ret"]], "f": "g", "e": True, "cfi": {"0": [SP, DEF], "2": [EP]}}
    out["split-by-data"] = scen.spec_of([S1, SD, S2, SD2, H])
    # the blocks behind the first one carry no directive at offset 0 but structural ones further in: when a deleted
    # predecessor's startproc is re-homed onto them, their table gets offset 0 *after* the larger offsets
    K1 = {"n": "K1", "k": "c", "i": [["o", 19]], "f": "f", "e": True, "cfi": {"0": [SP]}}
    K2 = {"n": "K2", "k": "c", "i": [["o", 20], ["o", 21], ["o", 22]], "f": "f", "e": False, "cfi": {"1": [REM], "2": [RBX]}}
    K3 = {"n": "K3", "k": "c", "i": [["o", 23], ["o", 24], ["ret"]], "f": "f", "e": False, "cfi": {"1": [RES], "3": [EP]}}
    # (no CFA definition in this procedure: nothing a deletion drops can make a later directive unevaluable)
    K4 = {"n": "K4", "k": "c", "i": [["o", 25], ["ret"]], "f": "g", "e": True, "cfi": {"0": [SP, DEF], "2": [EP]}}
    out["late-keys"] = scen.spec_of([K1, K2, K3, K4])
    # the same tables as two-procs / dense, written into the aux data in descending offset order
    for base in ("two-procs", "dense"):
        sp = copy.deepcopy(out[base])
        for s in sp["sections"]:
            for b in s["blocks"]:
                if b.get("cfi"):
                    b["cfi_desc"] = True
        out[base + "-desc"] = sp
    return out


MODULES = modules()


def atoms_for(spec):
    out = []
    for s in spec["sections"]:
        for b in s["blocks"]:
            n = len(b["i"])
            pl = [P_ORD, P_CFI] if b["k"] == "c" else [P_DATA]
            for k in range(n + 1):
                for p in pl:
                    out.append({"op": "ins", "b": b["n"], "k": k, "p": p})
            for k in range(n):
                out.append({"op": "del", "b": b["n"], "k": k, "n": 1})
                out.append({"op": "rep", "b": b["n"], "k": k, "n": 1, "p": pl[-1]})
            if n > 1:
                out.append({"op": "del", "b": b["n"], "k": 0, "n": n})
            out.append({"op": "del", "b": b["n"], "k": 0, "n": n, "proxy": True})
    return out


def lib_eval(w):
    """The library's evaluator must still accept the table (clean evaluation)."""
    from gtirb_rewriting.dwarf.cfi_eval import evaluate_cfi_directives

    try:
        # "sequential" blocks: a kept zero-sized block comes before the block that starts at the same address
        for _ in evaluate_cfi_directives(w.m, sorted(w.m.code_blocks, key=lambda b: (b.address, b.size))):
            pass
    except Exception as e:
        return type(e).__name__ + ": " + str(e)[:80]
    return None


def _ill_posed(spec, mods):
    """A patch with .cfi_adjust_cfa_offset inserted where the procedure has no register+offset CFA
    cannot evaluate, whatever the rewriter does: not a rewrite the property speaks about."""
    inp = Lg.flatten(spec, Lg.tokens_of(spec), set())
    st_in, _, _ = cfieval.states(inp)
    by_uid = {rec["uid"]: k for k, rec in inp.insns.items()}
    for m in mods:
        if m["op"] in ("ins", "rep") and isinstance(m["p"], list) and any(t[0] == "cfi" for t in m["p"]):
            n = len(Lg.block_of(spec, m["b"])[1]["i"])
            k = m["k"] if m["k"] < n else n - 1
            snap = st_in.get(by_uid[("orig", m["b"], k)])
            if snap is not None and "reg_offset" not in dict(snap)["cfa"]:
                return True
    return False


def check(spec, mods):
    if _ill_posed(spec, mods):
        E, _ = Lg.expected(spec, mods)
        return "skipped:cfi-patch-where-cfa-undefined", [], E
    outcome, diffs, w, E, O = run_scenario(spec, mods, ["bytes"], problem_kinds=("auxdata-offset-element-not-in-module", "auxdata-offset-outside-element"))
    if O is None or diffs:
        return outcome, diffs, E
    inp = Lg.flatten(spec, Lg.tokens_of(spec), set())
    st_in, cnt_in, err_in = cfieval.states(inp)
    assert err_in is None, err_in
    st_exp, cnt_exp, err_exp = cfieval.states(E)
    st_obs, cnt_obs, err_obs = cfieval.states(O)
    deleted = any(m["op"] in ("del", "rep") for m in mods)
    roles = {
        "r_deleted": deleted,
        "r_whole_block_deleted": any(m["op"] == "del" and m["k"] == 0 and m["n"] == len(Lg.block_of(spec, m["b"])[1]["i"]) for m in mods),
        "r_deleted_cie_prefix": _deleted_cie_prefix(spec, mods),
        "r_patch_cfi": any(m["op"] in ("ins", "rep") and isinstance(m["p"], list) and any(t[0] == "cfi" for t in m["p"]) for m in mods),
        "r_at_start_behind_deleted_endproc": _ins_behind_deleted_endproc(spec, mods),
    }
    nlab = max([sum(1 for t in m["p"] if t[0] == "lab") for m in mods if m["op"] in ("ins", "rep") and isinstance(m["p"], list)] or [0])
    if nlab:
        roles["r_patch_labels"] = min(nlab, 3)
    # (1) still evaluates cleanly
    if err_obs is not None:
        diffs.append(C.D("cfi-no-longer-evaluates", where=err_obs, r_why=err_obs["why"], **roles))
    le = lib_eval(w)
    if le is not None and err_obs is None:
        diffs.append(C.D("cfi-library-evaluator-raises", msg=le, **roles))
    # (2)/(6) procedure and state-stack directives: never lost, never duplicated
    uid_in = {rec["uid"]: k for k, rec in inp.insns.items()}
    survivors_in_proc = 0
    for k, rec in E.insns.items():
        if rec["bk"] == "c" and rec["uid"][0] == "orig" and st_in.get(uid_in[rec["uid"]]) is not None:
            survivors_in_proc += 1
    vanishable = _vanishable(E, inp, st_in)
    brought = {}
    for mid, m in enumerate(mods):
        if m["op"] in ("ins", "rep") and isinstance(m["p"], list) and not declined_outside_proc(st_exp, E, mid):
            for t in m["p"]:
                if t[0] == "cfi" and t[1] in Lg.REQUIRED_CFI:
                    brought[t[1]] = brought.get(t[1], 0) + 1
    for name in Lg.REQUIRED_CFI:
        # what the patches of the request bring themselves (a balanced remember/restore pair) is part of the edited listing
        a, b = cnt_in.get(name, 0) + brought.get(name, 0), cnt_obs.get(name, 0)
        if a != b:
            # a procedure that no longer encloses any surviving instruction may vanish as a whole
            # (balanced start/end pair and whatever was inside it)
            ds = cnt_in.get(".cfi_startproc", 0) - cnt_obs.get(".cfi_startproc", 0)
            de = cnt_in.get(".cfi_endproc", 0) - cnt_obs.get(".cfi_endproc", 0)
            lenient = deleted and b < a and ds == de and a - b <= vanishable.get(name, 0)
            if not lenient:
                diffs.append(C.D("cfi-required-directive-count", r_directive=name, before=a, after=b, r_rel="lost" if b < a else "duplicated", **roles))
    if err_obs is None:
        # (3) inside-a-procedure is unchanged for every surviving original instruction
        for k, rec in sorted(E.insns.items()):
            if rec["bk"] != "c" or k not in st_obs:
                continue
            if rec["uid"][0] == "orig":
                was = st_in[uid_in[rec["uid"]]] is not None
                now = st_obs[k] is not None
                if was != now:
                    diffs.append(C.D("cfi-instruction-left-or-entered-procedure", at=list(k), r_was_inside=was, r_ins=rec["ins"][0], **roles))
            # (4)/(5) nothing deleted: the state at every instruction (original and patch) is exactly the
            # state of the edited listing: original state / state at the insertion point + the patch's own directives
            if not deleted and err_exp is None and st_obs[k] != st_exp.get(k):
                diffs.append(C.D("cfi-unwind-state-differs", at=list(k), r_src=("patch" if rec["uid"][0] == "patch" else "orig"), expected=str(st_exp.get(k))[:200], observed=str(st_obs[k])[:200], **roles))
            if deleted and rec["uid"][0] == "patch" and err_exp is None:
                # patch code inside a procedure must be covered by it
                if (st_exp.get(k) is not None) != (st_obs[k] is not None):
                    diffs.append(C.D("cfi-patch-coverage", at=list(k), r_expected_inside=st_exp.get(k) is not None, **roles))
        # (2') the procedures partition the instructions (survivors and patch code) the way they do in the edited
        # listing: "opened and closed exactly once and in order", "inserted code is covered by *that* procedure"
        if err_exp is None:
            pe, po = cfieval.procs(E), cfieval.procs(O)
            fwd, bwd = {}, {}
            for k, rec in sorted(E.insns.items()):
                if rec["bk"] != "c" or k not in po or pe.get(k) is None or po[k] is None:
                    continue
                a, b = pe[k], po[k]
                if fwd.setdefault(a, b) != b or bwd.setdefault(b, a) != a:
                    diffs.append(C.D("cfi-instruction-in-other-procedure", at=list(k), r_src=("patch" if rec["uid"][0] == "patch" else "orig"), **roles))
                    break
    outcome = "ok" if not diffs else "diff:" + ",".join(sorted({d["kind"] for d in diffs}))
    return outcome, diffs, E


def _leading_gone(mods, bname, k):
    """the instructions 0..k-1 of the block are all deleted / replaced away by the request: offset k is the block's
    first surviving position (k == 0 trivially)"""
    gone = set()
    for m in mods:
        if m["op"] in ("del", "rep") and m["b"] == bname:
            gone.update(range(m["k"], m["k"] + m["n"]))
    return all(i in gone for i in range(k))


def _ins_behind_deleted_endproc(spec, mods):
    """request pattern: code is inserted at offset 0 of a block (or replaces its first instructions) and the code
    block(s) right in front of it are wholly deleted in the same request and carried a .cfi_endproc: the endproc is
    re-homed onto offset 0 of the target block, and split_block keeps inserted code *in front of* an endproc found at
    the split offset"""
    gone = {}
    for m in mods:
        if m["op"] == "del":
            gone[m["b"]] = gone.get(m["b"], 0) + m["n"]
    whole = {bn for bn, cnt in gone.items() if cnt == len(Lg.block_of(spec, bn)[1]["i"])}
    for s_ in spec["sections"]:
        names = [b["n"] for b in s_["blocks"]]
        for m in mods:
            if m["op"] in ("ins", "rep") and m["b"] in names and _leading_gone(mods, m["b"], m["k"]):
                i = names.index(m["b"]) - 1
                while i >= 0 and names[i] in whole:
                    if any(d[0] == ".cfi_endproc" for ds in (s_["blocks"][i].get("cfi") or {}).values() for d in ds):
                        return True
                    i -= 1
    return False


def declined_outside_proc(st_exp, E, mid):
    """a patch inserted outside any procedure cannot keep its directives (ASSUMPTIONS): its own
    instructions are then outside a procedure in the edited listing as well"""
    for k, rec in E.insns.items():
        if rec["uid"][0] == "patch" and rec["uid"][1] == mid:
            return st_exp.get(k) is None
    return False


def _deleted_cie_prefix(spec, mods):
    """a wholly deleted block carries, at its offset 0, directives other than startproc/endproc/
    remember/restore: they describe the state *before* the block (e.g. the CIE-like `.cfi_def_cfa`
    next to .cfi_startproc) and are dropped with it - F21"""
    gone = {}
    for m in mods:
        if m["op"] == "del":
            gone[m["b"]] = gone.get(m["b"], 0) + m["n"]
    for bn, cnt in gone.items():
        b = Lg.block_of(spec, bn)[1]
        ds = (b.get("cfi") or {}).get("0", [])
        # the block ends up wholly deleted by one or several deletions (the last of them removes
        # "the whole remaining block")
        if cnt == len(b["i"]) and any(d[0] not in Lg.REQUIRED_CFI for d in ds):
            return True
    # the same through a partial deletion at offset 0: an earlier block was deleted wholly, its
    # .cfi_endproc (or remember/restore) was re-homed in front of this block's offset-0 directives, the
    # split then puts everything from that .cfi_endproc on into the piece that is removed
    order = [b["n"] for s_ in spec["sections"] for b in s_["blocks"]]
    whole = {bn for bn, cnt in gone.items() if cnt == len(Lg.block_of(spec, bn)[1]["i"])}
    for m in mods:
        if m["op"] in ("del", "rep") and m["k"] == 0 and m.get("n", 0) > 0:
            b = Lg.block_of(spec, m["b"])[1]
            ds = (b.get("cfi") or {}).get("0", [])
            if any(d[0] not in Lg.REQUIRED_CFI for d in ds) and any(order.index(x) < order.index(m["b"]) for x in whole):
                return True
    return False


def _vanishable(E, inp, st_in):
    """per required directive kind: how many of them sit in input procedures that enclose no
    surviving original instruction"""
    uid_in = {rec["uid"]: k for k, rec in inp.insns.items()}
    alive = {uid_in[rec["uid"]] for k, rec in E.insns.items() if rec["bk"] == "c" and rec["uid"][0] == "orig"}
    out = {}
    cur = None
    for p in sorted(set(inp.cfi) | set(inp.insns)):
        for d in inp.cfi.get(p, ()):
            if d[0] == ".cfi_startproc":
                cur = {"counts": {}, "alive": False}
            if cur is not None and d[0] in Lg.REQUIRED_CFI:
                cur["counts"][d[0]] = cur["counts"].get(d[0], 0) + 1
            if d[0] == ".cfi_endproc" and cur is not None:
                if not cur["alive"]:
                    for k2, v in cur["counts"].items():
                        out[k2] = out.get(k2, 0) + v
                cur = None
        if cur is not None and p in alive:
            cur["alive"] = True
    return out


def _procs_with_survivors(E, inp, st_in):
    """number of input procedures that still enclose a surviving original instruction"""
    uid_in = {rec["uid"]: k for k, rec in inp.insns.items()}
    # identify the procedure of an input instruction by the position of the last startproc before it
    starts = sorted(k for k, ds in inp.cfi.items() if any(d[0] == ".cfi_startproc" for d in ds))
    procs = set()
    for k, rec in E.insns.items():
        if rec["bk"] == "c" and rec["uid"][0] == "orig":
            ik = uid_in[rec["uid"]]
            if st_in.get(ik) is not None:
                procs.add(max(s for s in starts if s <= ik))
    return len(procs)


# ------------------------------------------------------------------ inserted functions carrying their own CFI frames
# body = list of items: ("i", asm text, size in bytes) | ("d", directive, [ints])
FUNC_BODIES = {
    "cie-prefix": [("d", ".cfi_startproc", []), ("d", ".cfi_def_cfa", [7, 8]), ("d", ".cfi_offset", [16, -8]), ("i", "pushq %rbx", 1),
                   ("d", ".cfi_adjust_cfa_offset", [8]), ("i", "movb $1, %bl", 2), ("i", "popq %rbx", 1), ("d", ".cfi_adjust_cfa_offset", [-8]),
                   ("i", "ret", 1), ("d", ".cfi_endproc", [])],
    "late-directives": [("d", ".cfi_startproc", []), ("i", "pushq %rbx", 1), ("d", ".cfi_def_cfa", [7, 16]), ("i", "popq %rbx", 1),
                        ("d", ".cfi_def_cfa", [7, 8]), ("i", "ret", 1), ("d", ".cfi_endproc", [])],
    "two-procs": [("d", ".cfi_startproc", []), ("d", ".cfi_def_cfa", [7, 8]), ("i", "ret", 1), ("d", ".cfi_endproc", []),
                  ("d", ".cfi_startproc", []), ("d", ".cfi_def_cfa", [7, 8]), ("d", ".cfi_undefined", [16]), ("i", "movb $2, %bl", 2), ("i", "ret", 1), ("d", ".cfi_endproc", [])],
    "no-cfi": [("i", "movb $3, %bl", 2), ("i", "ret", 1)],
}


def check_newfunc_cfi(name, bodies, mods):
    """register_insert_function with explicit CFI frames (+ ordinary modifications elsewhere)."""
    import gtirb
    from gtirb_rewriting import Constraints, Patch, RewritingContext

    from .. import cfimodel

    spec = MODULES[name]
    w = Lg.build(spec)
    inp = Lg.flatten(spec, Lg.tokens_of(spec), set())
    _, cnt_in, err_in = cfieval.states(inp)
    ctx = RewritingContext(w.m, w.funcs)
    syms = []
    try:
        for i, bname in enumerate(bodies):
            text = "\n".join((it[1] if it[0] == "i" else "%s %s" % (it[1], ", ".join(str(x) for x in it[2]))) for it in FUNC_BODIES[bname]) + "\n"
            syms.append(ctx.register_insert_function("newcfi%d" % i, Patch.from_function(lambda c, text=text: text, Constraints())))
        Lg.register(w, ctx, mods)
        ctx.apply()
    except Exception as e:
        return "raised", [C.D("newfunc-cfi-apply-raised", r_exc=type(e).__name__, msg=str(e)[:120], r_bodies="+".join(bodies))]
    O = Lg.observe(w)
    st_obs, cnt_obs, err_obs = cfieval.states(O)
    diffs = []
    roles = {"r_bodies": "+".join(bodies)}
    if err_obs is not None:
        diffs.append(C.D("cfi-no-longer-evaluates", where=err_obs, r_why=err_obs["why"], r_deleted=False, r_whole_block_deleted=False, r_deleted_cie_prefix=False, r_patch_cfi=True, **roles))
    le = lib_eval(w)
    if le is not None and err_obs is None:
        diffs.append(C.D("cfi-library-evaluator-raises", msg=le, r_deleted_cie_prefix=False, **roles))
    want_procs = sum(sum(1 for it in FUNC_BODIES[b] if it[0] == "d" and it[1] == ".cfi_startproc") for b in bodies)
    for dname in (".cfi_startproc", ".cfi_endproc"):
        if cnt_obs.get(dname, 0) != cnt_in.get(dname, 0) + want_procs:
            diffs.append(C.D("cfi-required-directive-count", r_directive=dname, before=cnt_in.get(dname, 0), after=cnt_obs.get(dname, 0), expected=cnt_in.get(dname, 0) + want_procs, r_rel="lost" if cnt_obs.get(dname, 0) < cnt_in.get(dname, 0) + want_procs else "duplicated", r_deleted=False, r_patch_cfi=True, **roles))
    if err_obs is None:
        # the state at every instruction of an inserted function = its own frame evaluated from scratch
        for sym, bname in zip(syms, bodies):
            blk = sym.referent
            if not isinstance(blk, gtirb.CodeBlock) or blk.module is not w.m:
                diffs.append(C.D("newfunc-symbol-not-on-a-code-block-of-the-module", **roles))
                continue
            lay = {bi: p for sect in w.m.sections for bi, p in Lg.section_layout(sect)[0]}
            base = (blk.section.name, lay[blk.byte_interval] + blk.offset)
            mach = cfimodel.Machine("X64-ELF")
            off = 0
            pending = False
            for it in FUNC_BODIES[bname]:
                if it[0] == "d":
                    mach.directive(it[1], list(it[2]), None)
                    pending = True
                else:
                    snap = mach.snapshot()
                    want = None if snap is None else cfieval._freeze(snap)
                    got = st_obs.get((base[0], base[1] + off), "missing")
                    if got != want:
                        diffs.append(C.D("cfi-unwind-state-differs", r_src="inserted-function", at=[base[0], base[1] + off], body_offset=off, expected=str(want)[:160], observed=str(got)[:160], r_deleted=False, r_patch_cfi=True, **roles))
                    off += it[2]
                    mach.next_location(False)
                    pending = False
    return ("ok" if not diffs else "diff"), diffs


# ------------------------------------------------------------------ patches whose own directives sit around their own labels
# shape string over L (a fresh temporary label), M (.cfi_remember_state), U (.cfi_undefined 3), S (.cfi_restore_state),
# P (tagged instruction), J (at most one unconditional jump to a block of the module; what follows it is only reachable through a label).  Every shape with properly nested M..S, U only inside, stack empty at the end ("balanced") and at
# least one instruction and one M is generated: the assembler opens a block at every label, so directives written around
# labels travel through its empty-block clean-up before the rewriter sees them.
SHAPE_SITES = [("two-procs", "B", 1), ("two-procs", "A", 2), ("dense", "DN", 2)]
SHAPE_LEN = {"quick": 6, "thorough": 7}


def shapes(maxlen):
    import itertools

    out = []
    for n in range(2, maxlen + 1):
        for seq in itertools.product("LMUSPJ", repeat=n):
            if seq.count("J") > 1 or (seq.count("J") and n > maxlen - 1):
                continue
            d = 0
            ok = True
            for c in seq:
                if c == "M":
                    d += 1
                elif c == "S":
                    d -= 1
                    if d < 0:
                        ok = False
                        break
                elif c == "U" and d < 1:
                    ok = False
                    break
            if ok and d == 0 and "P" in seq and "M" in seq:
                out.append("".join(seq))
    return out


def shape_patch(shape, jump_to="C"):
    p = []
    nl = 0
    for c in shape:
        if c == "L":
            p.append(["lab", ".Ls%d" % nl])
            nl += 1
        elif c == "M":
            p.append(["cfi", ".cfi_remember_state", []])
        elif c == "U":
            p.append(["cfi", ".cfi_undefined", [3]])
        elif c == "S":
            p.append(["cfi", ".cfi_restore_state", []])
        elif c == "J":
            p.append(["jmp", jump_to])  # an unconditional transfer in the middle of the patch
        else:
            p.append(["p", 0])
    return p


NEWFUNC_CFI_CASES = [["cie-prefix"], ["late-directives"], ["two-procs"], ["no-cfi", "cie-prefix"], ["cie-prefix", "two-procs"]]


def tasks(tier):
    t = []
    n = BOUNDS[tier]["set_size"]
    for name in ("two-procs", "personality"):
        t.append((name, "newfunc", None))
    sh = shapes(SHAPE_LEN[tier])
    for i in range(0, len(sh), 40):
        t.append(("two-procs", "shapes", [SHAPE_LEN[tier], i, i + 40]))
    for name, spec in MODULES.items():
        na = len(atoms_for(spec))
        # split pairs by the first atom to spread over the cores
        t.append((name, n, None))
        if n >= 2:
            for i in range(na):
                t.append((name, n, i))
    return t


def task_group(task):
    return task[0]


def run_task(task):
    name, n, first = task
    res = TaskResult()
    spec = MODULES[name]
    if n == "newfunc":
        singles = [[]] + [[a] for a in atoms_for(spec) if a["op"] == "ins"][::5]
        for bodies in NEWFUNC_CFI_CASES:
            for mods in singles:
                mods = scen.retag(mods)
                outcome, diffs = check_newfunc_cfi(name, bodies, mods)
                res.case((name, "newfunc", bodies, mods), nontrivial=True, outcome=outcome)
                if diffs:
                    res.bad({"module": name, "newfunc": bodies, "mods": mods}, diffs)
            res.sample({"module": name, "newfunc": bodies, "mods": []}, cap=1)
        return res
    if n == "shapes":
        ml, lo, hi = first
        for shape in shapes(ml)[lo:hi]:
            for mname, b, k in SHAPE_SITES:
                mods = scen.retag([{"op": "ins", "b": b, "k": k, "p": shape_patch(shape, "C" if mname == "two-procs" else "DN2")}])
                outcome, diffs, E = check(MODULES[mname], mods)
                res.case((mname, mods), nontrivial=True, outcome=outcome.split(";")[-1][:80])
                if diffs:
                    res.bad({"module": mname, "mods": mods}, diffs)
            res.sample({"module": "two-procs", "shape": shape}, cap=1)
        return res
    atoms = atoms_for(spec)
    if first is None:
        gen = scen.mod_sets(spec, atoms, 1)
    else:
        def gen_():
            import itertools

            for rest in itertools.combinations(range(first + 1, len(atoms)), n - 1 if n == 2 else 1):
                for r in ([rest] if n == 2 else [rest] + [rest + (x,) for x in range(rest[-1] + 1, len(atoms))]):
                    sel = [atoms[first]] + [atoms[i] for i in r]
                    if all(scen.compatible(a, b, None) for i, a in enumerate(sel) for b in sel[i + 1:]):
                        yield sel
                        if len(sel) == 2 and (sel[0]["b"], sel[0]["k"]) == (sel[1]["b"], sel[1]["k"]):
                            yield [sel[1], sel[0]]
        gen = gen_()
    for mods in gen:
        mods = scen.retag(mods)
        outcome, diffs, E = check(spec, mods)
        res.case((name, mods), nontrivial=bool(mods), outcome=outcome.split(";")[-1][:80])
        if diffs:
            res.bad({"module": name, "mods": mods}, diffs)
        if len(mods) == n:
            res.sample({"module": name, "mods": mods}, cap=1)
    return res


def replay(case):
    if "newfunc" in case:
        return check_newfunc_cfi(case["module"], case["newfunc"], case["mods"])[1]
    return check(MODULES[case["module"]], case["mods"])[1]
