"""
C09  Rewrite caches are transparent: batch equals one-at-a-time.

Oracle 1 (differential): canonical dump of one apply(S) == dump after applying
the members of S one per RewritingContext in address order (positions are
re-located through the listing model and the real IR abstracted after every
step).  Exceptions must agree too.
Oracle 2 (intermediate states, needs the GTIRB_REWRITING_VERIF hook): at every
before_modify / after_modify / before_teardown event of the batch run the
answers of the caches are compared with a scan of the IR, without calling any
mutating cache API.
"""
import collections

import gtirb

from ..core import TaskResult
from ..world import canon, chain, scen
from ..world import compare as C
from ..world import listing as Lg
from ..world.run import exc_diff, is_documented_refusal

PROPERTY = "C09"
LEVEL = "model_checking"
RULE = (
    "(module shapes with labels, at_end labels, calls and returns) x all non-overlapping sets of <= N atoms, in "
    "particular patches that name, branch to or call labels of blocks an earlier modification moved, split, joined or "
    "deleted; each set is run (a) in one apply() with cache-vs-IR invariants evaluated at every hook event (a state), "
    "(b) one modification per context in address order; the final canonical dumps must be equal. states = hook "
    "events checked, transitions = modifications applied, traces = batch/sequential pairs compared"
)
ASSUMPTIONS = [
    "sequential positions are re-located through instruction order (model listing zipped with the abstracted IR); sets whose "
    "intermediate result already violates C01 (bytes) or that hit a known exception are not comparable and are counted as such",
    "dumps are compared up to UUIDs and temporary-label suffixes; block boundaries ARE compared",
    "x86-64 ELF only",
]
BOUNDS = {"quick": {"set_size": 2}, "thorough": {"set_size": 3}}
CAP_S = {"quick": 400, "thorough": 2400}

P_ORD = [["p", 0]]
P_CFI = [["push"], ["cfi", ".cfi_adjust_cfa_offset", [8]], ["p", 0], ["pop"], ["cfi", ".cfi_adjust_cfa_offset", [-8]]]
PATCH_KINDS = {
    "ord": [["p", 0]],
    "lab": [["lab", ".Lx"], ["p", 0], ["jcc", ".Lx"]],
    "jmpA": [["p", 0], ["jmp", "A"]],
    "jccB": [["jcc", "B"], ["p", 0]],
    "callC": [["call", "C"], ["p", 0]],
    "leaB": [["lea", "B"], ["p", 0]],
    "leaE": [["lea", "E_B"], ["p", 0]],
}


def shapes():
    out = {}
    # A,B,C,D code; B has an at_end label; D calls C; C returns
    def mk(kinds, funcs, end_label=True):
        blocks = []
        seen = set()
        for j, (k, f) in enumerate(zip(kinds, funcs)):
            nm = scen.NAMES[j]
            if k == "c":
                term = None
                if nm == "C":
                    term = ["ret"]
                if nm == "D":
                    term = ["call", "C"]
                if nm == "E":
                    term = ["ret"]
                b = scen.code_block(nm, [10 * (j + 1), 10 * (j + 1) + 1][: 1 if term else 2], term, f=f, e=(f is not None and f not in seen))
                seen.add(f)
            else:
                b = scen.data_block(nm, [0xD0 + j, 0xE0 + j])
            if nm == "B" and end_label:
                b["le"] = ["E_B"]
            blocks.append(b)
        return scen.spec_of(blocks)

    out["ccccc"] = mk("ccccc", ("f", "f", "g", "h", "h"))
    out["cdccc"] = mk("cdccc", ("f", None, "g", "h", "h"))
    out["nofunc"] = mk("ccccc", (None, None, "g", None, None))
    anon = mk("ccccc", ("f", "f", "g", "h", "h"), end_label=False)
    for b in anon["sections"][0]["blocks"]:
        if b["n"] == "B":
            b["anon"] = True  # a block nothing labels, next to labelled ones
    out["anonB"] = anon
    # a two-block callee whose first block does not return, called once; room for a second call
    A = scen.code_block("A", [10, 11], None, f="f", e=True)
    B = scen.code_block("B", [20], ["ret"], f="f")
    B["le"] = ["E_B"]
    Cc = scen.code_block("C", [30, 31], None, f="g", e=True)
    C2 = scen.code_block("C2", [35], ["ret"], f="g")
    Dd = scen.code_block("D", [40], ["call", "C"], f="h", e=True)
    E = scen.code_block("E", [50], ["ret"], f="h")
    out["callee2"] = scen.spec_of([A, B, Cc, C2, Dd, E])
    # call-frame information: the rewriter decides once per apply(), in original coordinates, which offsets lie inside a
    # CFI procedure; patches with directives of their own next to earlier insertions into the same block
    from . import c08
    import copy

    out["cfi"] = copy.deepcopy(c08.MODULES["two-procs"])
    return out


SHAPES = shapes()


def _labels_of(spec):
    names = set(spec.get("ext", ()))
    for s in spec["sections"]:
        for b in s["blocks"]:
            names.update(Lg.start_labels(b))
            names.update(b.get("le", ()))
            if Lg.func_label(b):
                names.add(Lg.func_label(b))
    return names


def atoms_for(spec, rich):
    known = _labels_of(spec)
    usable = [p for p in PATCH_KINDS.values() if all(t[0] == "lab" or len(t) < 2 or not isinstance(t[1], str) or t[1].startswith(".L") or t[1] in known for t in p)]
    out = []
    for s in spec["sections"]:
        for b in s["blocks"]:
            n = len(b["i"])
            if b["k"] == "c" and any(bb.get("cfi") for ss in spec["sections"] for bb in ss["blocks"]):
                pl = [PATCH_KINDS["ord"], P_CFI]
            elif b["k"] == "c":
                pl = usable if rich else [PATCH_KINDS["ord"]]
            else:
                pl = [{"bytes": [0]}]
            for k in range(n + 1):
                for p in pl if k in (0, n) else pl[:2]:
                    out.append({"op": "ins", "b": b["n"], "k": k, "p": p})
            out.append({"op": "del", "b": b["n"], "k": 0, "n": n})
            out.append({"op": "del", "b": b["n"], "k": 0, "n": n, "proxy": True})
            if n > 1:
                out.append({"op": "del", "b": b["n"], "k": 0, "n": 1})
                out.append({"op": "del", "b": b["n"], "k": n - 1, "n": 1})
                out.append({"op": "rep", "b": b["n"], "k": n - 1, "n": 1, "p": pl[0]})
    return out


def triples(spec, only=None):
    """mention - delete - use: a patch in front of block L mentions L's label, L is deleted wholly (its label slides on),
    and a patch behind L branches to / calls / mentions the label again - three modifications whose cache effects
    depend on each other (every L, every pair of blocks around it, every offset at the block ends)"""
    blocks = [b for s in spec["sections"] for b in s["blocks"]]
    known = _labels_of(spec)
    for li, L in enumerate(blocks):
        if L["k"] != "c" or L["n"] not in known or L.get("anon") or (only is not None and li != only):
            continue
        for first in (["lea", L["n"]], ["jcc", L["n"]]):
            for last in (["jcc", L["n"]], ["call", L["n"]], ["lea", L["n"]]):
                for xi, X in enumerate(blocks):
                    for yi, Y in enumerate(blocks):
                        if not (xi < li < yi) or X["k"] != "c" or Y["k"] != "c":
                            continue
                        for kx in (0, len(X["i"])):
                            for ky in (0, len(Y["i"])):
                                for proxy in (False, True):
                                    d = {"op": "del", "b": L["n"], "k": 0, "n": len(L["i"])}
                                    if proxy:
                                        d["proxy"] = True
                                    yield [{"op": "ins", "b": X["n"], "k": kx, "p": [first, ["p", 0]]}, d,
                                           {"op": "ins", "b": Y["n"], "k": ky, "p": [last, ["p", 0]]}]


# ------------------------------------------------------------------ oracle 2: invariants at hook events
def walk_referent(rc, s):
    from gtirb_rewriting._modify.cache import RefNode

    if s not in rc._referents:
        return s.referent, s.at_end, True
    node = rc._referents[s]
    n = 0
    while isinstance(node.parent, RefNode):
        node = node.parent
        n += 1
        if n > 10000:
            return "cycle", None, False
    blk = node.parent
    pair = rc._references.get(blk)
    if pair is None or (node is not pair[0] and node is not pair[1]):
        return "unregistered-root", None, False
    return blk, node is pair[1], False


def cache_invariants(mc, m):
    """non-mutating comparison of cache answers with the IR; -> list of diffs"""
    diffs = []
    ir = m.ir
    # neighbouring blocks: the linked list of each section == blocks ordered by position
    for sect in m.sections:
        bo = mc.block_ordering.get(sect)
        if bo is None:
            continue
        order = bo._BlockOrdering__order
        blocks = [b for b in sect.byte_blocks]
        if {id(b) for b in blocks} != {id(b) for b in order}:
            diffs.append(C.D("cache-block-ordering-membership", section=sect.name, r_rel="missing" if {id(b) for b in blocks} - {id(b) for b in order} else "stale"))
            continue
        # chains
        heads = [b for b, node in order.items() if node.prev is None]
        for h in heads:
            chain_ = []
            node = order[h]
            while node is not None:
                chain_.append(node.value)
                node = node.next
            # ground truth order for blocks that have an address
            key = lambda b: (b.byte_interval.address if b.byte_interval.address is not None else -1, b.offset)
            for x, y in zip(chain_, chain_[1:]):
                if x.byte_interval.address is None or y.byte_interval.address is None:
                    continue
                if key(x) > key(y) or (key(x) == key(y) and x.size != 0 and y.size == 0 and False):
                    diffs.append(C.D("cache-block-ordering-order", section=sect.name))
                    break
            for b in chain_:
                p, n2 = mc.adjacent_blocks(b)
                i = chain_.index(b)
                if p is not (chain_[i - 1] if i else None) or n2 is not (chain_[i + 1] if i + 1 < len(chain_) else None):
                    diffs.append(C.D("cache-adjacent-blocks", section=sect.name))
                    break
    # function of a block
    fb = m.aux_data["functionBlocks"].data if "functionBlocks" in m.aux_data else {}
    inv = {}
    for u, bs in fb.items():
        for b in bs:
            inv[b] = u
    live_inv = {b: u for b, u in inv.items()}
    cached = dict(mc.functions_by_block)
    if mc.functions_by_block and fb:
        for b, u in cached.items():
            if inv.get(b) != u:
                diffs.append(C.D("cache-functions-by-block", r_rel="cache-has-stale-or-wrong-entry"))
                break
        for b, u in live_inv.items():
            if cached.get(b) != u:
                diffs.append(C.D("cache-functions-by-block", r_rel="cache-misses-entry"))
                break
    # return edges
    rc = mc.return_cache
    if ir.cfg is not rc:
        diffs.append(C.D("cache-return-cache-is-not-ir-cfg"))
    scan = collections.defaultdict(set)
    pscan = collections.defaultdict(set)
    for e in rc:
        if e.label is not None and e.label.type == gtirb.Edge.Type.Return:
            scan[e.source].add(e)
            if isinstance(e.target, gtirb.ProxyBlock):
                pscan[e.source].add(e)
    if {k: set(v) for k, v in rc._return_edges.items() if v} != dict(scan):
        diffs.append(C.D("cache-return-edges-index"))
    if {k: set(v) for k, v in rc._proxy_return_edges.items() if v} != dict(pscan):
        diffs.append(C.D("cache-proxy-return-edges-index"))
    # referents
    refc = mc.reference_cache
    for s in m.symbols:
        blk, at_end, direct = walk_referent(refc, s)
        if isinstance(blk, str):
            diffs.append(C.D("cache-reference-forest", r_problem=blk, sym=s.name))
            continue
        if not direct and s.referent is not None:
            diffs.append(C.D("cache-symbol-direct-and-indirect", sym=s.name))
        if isinstance(blk, gtirb.ByteBlock) and (blk.module is not m or blk.byte_interval is None):
            diffs.append(C.D("cache-referent-not-in-module", sym=s.name))
        if isinstance(blk, gtirb.ProxyBlock) and blk not in m.proxies:
            diffs.append(C.D("cache-referent-proxy-not-in-module", sym=s.name))
    for e in rc:
        for nd in (e.source, e.target):
            if isinstance(nd, gtirb.ByteBlock) and (nd.module is not m or nd.byte_interval is None):
                diffs.append(C.D("cache-cfg-endpoint-not-in-module", r_type=e.label.type.name if e.label else None))
    return diffs


def batch_with_invariants(spec, mods, res):
    from gtirb_rewriting import RewritingContext, _verif_hooks

    assert _verif_hooks.ENABLED, "GTIRB_REWRITING_VERIF=1 must be set before gtirb_rewriting is imported"
    w = Lg.build(spec)
    found = []
    counter = {"events": 0, "mods": 0}

    def cb(event, **kw):
        counter["events"] += 1
        if event == "after_modify":
            counter["mods"] += 1
        d = cache_invariants(kw["modify_cache"], w.m)
        for x in d:
            x["r_event"] = event
            x["event_index"] = counter["events"]
        found.extend(d[:3])

    _verif_hooks.add_callback(cb)
    exc = None
    try:
        ctx = RewritingContext(w.m, w.funcs)
        Lg.register(w, ctx, mods)
        ctx.apply()
    except Exception as e:
        exc = e
    finally:
        _verif_hooks.remove_callback(cb)
    res.states += counter["events"]
    res.transitions += counter["mods"]
    return w, exc, found


# ------------------------------------------------------------------ oracle 1: one at a time, in address order
class NotComparable(Exception):
    pass


def sequential(spec, mods):
    """-> (world, exception|None).  Raises NotComparable when a position cannot be re-located."""
    from gtirb_rewriting import RewritingContext

    order = {b["n"]: i for i, (s, b) in enumerate(Lg.all_blocks(spec))}
    seq = sorted(range(len(mods)), key=lambda i: (order[mods[i]["b"]], mods[i]["k"], i))
    w = Lg.build(spec)
    done = []
    for step, mi in enumerate(seq):
        m = mods[mi]
        # expected listing after the steps done so far, with ids of the *original* list (for tags)
        sub = [dict(mods[j], _id=j) for j in done]
        secs, _, _ = apply_model_ids(spec, mods, done)
        sp = chain.abstract(w)
        loc = locate(spec, sp, secs, m)
        m2 = dict(m)
        m2["b"], m2["k"] = loc
        ctx = RewritingContext(w.m, w.funcs)
        try:
            Lg.register(w, ctx, [m2])
            ctx.apply()
        except Exception as e:
            return w, e
        done.append(mi)
    return w, None


def apply_model_ids(spec, mods, subset):
    """model listing after applying only mods[i] for i in subset (keeping their original ids)"""
    # apply_model numbers modifications by list index; pad the unused ones with no-ops
    pad = []
    for i, m in enumerate(mods):
        if i in subset:
            pad.append(m)
        else:
            pad.append({"op": "del", "b": m["b"], "k": 0, "n": 0})  # empty deletion = no-op
    return Lg.apply_model(spec, pad)


def locate(spec0, sp, secs, m):
    """(block, k) of modification m in the derived spec `sp` of the current IR"""
    sect0, b0 = Lg.block_of(spec0, m["b"])
    sname = sect0["name"]
    toks = [t for t in secs[sname]]
    live = [t for t in toks if t["t"] == "ins" and not t.get("dead")]
    # instruction sequence of the current IR
    cur = []
    for s in sp["sections"]:
        if s["name"] != sname:
            continue
        for b in s["blocks"]:
            for idx, ins in enumerate(b["i"]):
                cur.append((b["n"], idx, tuple(ins), len(b["i"])))
    if len(cur) != len(live) or any(_norm(c[2]) != _norm(t["ins"]) for c, t in zip(cur, live)):
        raise NotComparable("intermediate IR does not match the model listing")
    where = {id(t): c for t, c in zip(live, cur)}
    n = len(b0["i"])
    k = m["k"]
    cnt = m.get("n", 0) if m["op"] in ("del", "rep") else 0
    if k < n:
        tgt = next((t for t in live if t["uid"] == ("orig", m["b"], k)), None)
        if tgt is None:
            raise NotComparable("anchor instruction already deleted")
        blk, idx, _, _ = where[id(tgt)]
        if cnt:
            last = next((t for t in live if t["uid"] == ("orig", m["b"], k + cnt - 1)), None)
            if last is None or where[id(last)][0] != blk or where[id(last)][1] != idx + cnt - 1:
                raise NotComparable("range no longer contiguous in one block")
        return blk, idx
    # k == n: after the last live token in front of the slot (B, n)
    si = next(i for i, t in enumerate(toks) if t["t"] == "slot" and t["b"] == m["b"] and t["k"] == n)
    prev = None
    for t in reversed(toks[:si]):
        if t["t"] == "blk":
            break
        if t["t"] == "ins" and not t.get("dead"):
            prev = t
            break
    if prev is None:
        raise NotComparable("block emptied before an insertion at its end")
    blk, idx, _, _ = where[id(prev)]
    return blk, idx + 1


def _norm(ins):
    # temp labels carry suffixes in the IR and '@id' in the model
    if len(ins) == 2 and isinstance(ins[1], str) and ins[1].startswith(".L"):
        return (ins[0], ".L")
    return tuple(ins)


def exc_sig(e):
    return None if e is None else type(e).__name__


def check(spec, mods, res=None):
    res = res if res is not None else TaskResult()
    E, expect = Lg.expected(spec, mods)
    from ..world.run import label_roles

    E.label_roles = label_roles(spec, mods)
    wb, eb, inv = batch_with_invariants(spec, mods, res)
    diffs = list(inv)
    if eb is not None and not (expect is not None and is_documented_refusal(eb)):
        from ..world.run import branch_into_data

        if not (branch_into_data(E) and type(eb).__name__ == "UnsupportedAssemblyError"):
            diffs.append(exc_diff(spec, mods, eb))
    if eb is not None:
        # compare only the exception outcome with the sequential run
        try:
            ws, es = sequential(spec, mods)
        except NotComparable:
            return "batch-raised;not-comparable", diffs
        if es is None and not is_documented_refusal(eb) and not any(d["kind"] == "apply-raised" for d in diffs):
            # (when the batch exception itself is reported as apply-raised, that discrepancy carries the
            # signature - known finding or violation - and this one would only repeat it)
            diffs.append(C.D("batch-raises-sequential-succeeds", r_exc=type(eb).__name__, msg=str(eb)[:100]))
        return "batch-raised:" + type(eb).__name__, diffs
    if len(mods) < 2:
        return "ok-single", diffs
    try:
        ws, es = sequential(spec, mods)
    except NotComparable as nc:
        return "not-comparable:" + str(nc)[:40], diffs
    res.traces += 1
    if es is not None:
        diffs.append(C.D("sequential-raises-batch-succeeds", r_exc=type(es).__name__, msg=str(es)[:100]))
        return "seq-raised", diffs
    a = canon.dump(wb.ir, normalize_temps=True)
    b = canon.dump(ws.ir, normalize_temps=True)
    d = canon.diff(a, b)
    if d:
        what = d[0].split(":")[0]
        diffs.append(C.D("batch-differs-from-sequential", r_where=_where(what), detail=d[:5]))
    return ("ok" if not diffs else "diff"), diffs


def _where(path):
    for k in ("edges", "symbols", "blocks", "contents", "symexprs", "proxies", "aux/functionBlocks", "aux/functionEntries", "aux/cfiDirectives", "aux/alignment", "aux"):
        if k in path:
            return k
    return path[-30:]


def tasks(tier):
    t = []
    n = BOUNDS[tier]["set_size"]
    for name, spec in SHAPES.items():
        na = len(atoms_for(spec, True))
        for i in range(na):
            t.append((name, n, i, True))
        for li in range(len([b for s_ in spec["sections"] for b in s_["blocks"]])):
            t.append((name, "triple", li, True))
    return t


def task_group(task):
    return task[0]


def run_task(task):
    import itertools

    name, n, first, rich = task
    res = TaskResult()
    spec = SHAPES[name]
    if n == "triple":
        for mods in triples(spec, first):
            mods = scen.retag(mods)
            outcome, diffs = check(spec, mods, res)
            res.case((name, mods), nontrivial=True, outcome=outcome[:60])
            if diffs:
                res.bad({"shape": name, "mods": mods}, diffs)
            res.sample({"shape": name, "mods": mods}, cap=1)
        return res
    atoms = atoms_for(spec, rich)
    a0 = atoms[first]
    cands = [[a0]] if first == 0 or True else []
    sets = [[a0]]
    for j in range(first + 1, len(atoms)):
        if scen.compatible(a0, atoms[j], None):
            sets.append([a0, atoms[j]])
            if (a0["b"], a0["k"]) == (atoms[j]["b"], atoms[j]["k"]):
                sets.append([atoms[j], a0])
    if n >= 3:
        for j, k in itertools.combinations(range(first + 1, len(atoms)), 2):
            sel = [a0, atoms[j], atoms[k]]
            if all(scen.compatible(x, y, None) for x, y in itertools.combinations(sel, 2)) and len({s_["b"] for s_ in sel}) <= 2:
                sets.append(sel)
    for mods in sets:
        mods = scen.retag(mods)
        outcome, diffs = check(spec, mods, res)
        res.case((name, mods), nontrivial=len(mods) > 1, outcome=outcome[:60])
        if diffs:
            res.bad({"shape": name, "mods": mods}, diffs)
        if len(mods) > 1:
            res.sample({"shape": name, "mods": mods}, cap=1)
    return res


def replay(case):
    return check(SHAPES[case["shape"]], case["mods"])[1]
