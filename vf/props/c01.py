"""
C01  Rewriting edits bytes exactly like editing the assembly listing.

Bounded exhaustive enumeration: every module shape of the alphabet x every
non-overlapping set of <= N edit atoms at every instruction boundary x every
registration order; one real RewritingContext.apply() per scenario; the bytes
of every section must equal the bytes of the edited listing.
"""
import itertools

import gtirb

from ..core import TaskResult
from ..world import compare as C
from ..world import scen
from ..world.run import run_scenario

PROPERTY = "C01"
LEVEL = "exploration"
RULE = (
    "[+ aligned family: 10 modules with one or two aligned blocks x byte-length-varying edits, expected bytes include the "
    "nop/zero padding the alignment demands; + scope family: AllBlocksScope registrations mixed with block-specific "
    "modifications at offset 0 in every registration order] product of (module shape) x (all non-overlapping sets of <= N edit atoms {insert, replace 1..n, delete 1..n, "
    "delete whole block, delete whole block to proxy} at every instruction boundary of every block) x (all "
    "registration orders); a case is one apply(); non-trivial = at least one modification and the expected "
    "section bytes differ from the input bytes; distinct by (shape, ordered modification list)"
)
ASSUMPTIONS = [
    "quick tier permutes the registration order only for sets with two atoms at one (block, offset) (C11 covers the rest); thorough permutes all",
    "x86-64 ELF carries the full bound; x64-PE, IA32-PE, ARM64-ELF, MIPS32-ELF rerun the product one level lower",
    "expected patch bytes come from vf/world/isa.py (validated against capstone), not from the Assembler",
    "an insertion registered after a deletion/replacement starting at the same offset may be refused with "
    "AssertionError('modifications overlap') (documented sort rule); nothing else may raise",
    "byte intervals of one section are kept far enough apart that gtirb_layout never has to move them",
]
BOUNDS = {
    "quick": {"x64-elf": 2, "others": 1, "blocks": "2-3"},
    "thorough": {"x64-elf": 3, "others": 2, "blocks": "2-3"},
}
CAP_S = {"quick": 400, "thorough": 2400}

P_ORD = [["p", 0]]
P_ORD2 = [["p", 0], ["p", 0]]
P_LABEL = [["lab", ".Lx"], ["p", 0], ["jcc", ".Lx"]]
P_DATA = {"bytes": [0, 0]}


def shapes(target):
    """2-3 blocks from {code 1-3 ord, code+ret, data 2 bytes}, two partitions."""
    isa_ord_only = target.startswith("mips")
    kinds = ["c1", "c2", "c3", "cr", "d2"]
    if isa_ord_only:
        kinds = ["c1", "c2", "d2"]
    out = []
    for n in (2, 3):
        for combo in itertools.product(kinds, repeat=n):
            if all(k == "d2" for k in combo):
                continue
            # keep the product small: at most one 3-instruction block, lexicographically reduced
            if sum(k == "c3" for k in combo) > 1:
                continue
            if n == 3 and combo[1] == "c3":
                continue
            out.append(combo)
    return out


def make_spec(target, combo, part):
    blocks = []
    tag = 1
    for j, k in enumerate(combo):
        name = scen.NAMES[j]
        if k == "d2":
            blocks.append(scen.data_block(name, [0xD0 + 2 * j, 0xD1 + 2 * j]))
        else:
            n = {"c1": 1, "c2": 2, "c3": 3, "cr": 1}[k]
            tags = list(range(tag, tag + n))
            tag += n
            blocks.append(scen.code_block(name, tags, ["ret"] if k == "cr" else None, f="f", e=(j == 0)))
    # exactly one entry: the first code block
    seen = False
    for b in blocks:
        b["e"] = False
        if b["k"] == "c" and not seen:
            b["e"] = True
            seen = True
    return scen.spec_of(blocks, target=target, part=part)


def aligned_specs():
    """3 code blocks, the 2nd and 3rd carrying alignment entries that hold on input."""
    from ..world import listing as Lg

    isa_ = Lg.isamod.TARGETS["x64-elf"][0]
    out = []
    for (alb, alc), kinds in itertools.product(((4, 16), (8, 8), (2, 4), (16, 4), (None, 8)), (("c", "c", "c"), ("c", "d", "c"))):
        blocks = []
        pos = 0
        tag = 1
        for j, k in enumerate(kinds):
            nm = scen.NAMES[j]
            al = (None, alb, alc)[j]
            if al:
                # pad the previous block so that the requirement holds on input
                padn = (-(Lg.SEC_BASE[".text"] + pos)) % al
                prev = blocks[-1]
                while padn:
                    if prev["k"] == "c":
                        prev["i"].append(["o", tag] if padn >= 2 else ["nop"])
                        padn -= 2 if prev["i"][-1][0] == "o" else 1
                        tag += 1
                    else:
                        prev["i"].append(["d", 0xE0 + tag])
                        padn -= 1
                        tag += 1
                pos = sum(isa_.size(tuple(i)) for b in blocks for i in b["i"])
            if k == "c":
                b = scen.code_block(nm, [tag, tag + 1, tag + 2], None, f="f", e=(j == 0))
                tag += 3
            else:
                b = scen.data_block(nm, [0xD0 + j, 0xD1 + j, 0xD2 + j])
            if al:
                b["al"] = al
            blocks.append(b)
            pos = sum(isa_.size(tuple(i)) for bb in blocks for i in bb["i"])
        blocks[-1]["i"].append(["ret"])
        sp = scen.spec_of(blocks)
        sp["model_padding"] = True
        out.append(sp)
    return out


P_ONE = [["nop"]]
P_THREE = [["p", 0], ["nop"]]


def aligned_atoms(spec):
    out = []
    for s in spec["sections"]:
        for b in s["blocks"]:
            n = len(b["i"])
            pl = [P_ONE, P_ORD, P_THREE] if b["k"] == "c" else [{"bytes": [0]}, {"bytes": [0, 0, 0]}]
            for k in sorted({0, 1, n}):
                for p in pl:
                    out.append({"op": "ins", "b": b["n"], "k": k, "p": p})
            out.append({"op": "del", "b": b["n"], "k": 0, "n": 1})
            out.append({"op": "del", "b": b["n"], "k": n - 1, "n": 1})
    return out


def tasks(tier):
    t = []
    for i in range(len(aligned_specs())):
        t.append(("aligned", i, "one", 2 if tier == "quick" else 3, "same-offset"))
    for combo in (["c2", "c1"], ["c2", "d2", "cr"], ["c1", "c3", "c1"]):
        t.append(("scope", combo, "one", 2 if tier == "quick" else 3, True))
    for name in RAW_LAYOUTS:
        t.append(("raw", name, "one", 2, True))
    for target in ("x64-elf", "x64-pe", "ia32-pe", "arm64-elf", "mips32-elf"):
        bound = BOUNDS[tier]["x64-elf" if target == "x64-elf" else "others"]
        for combo in shapes(target):
            for part in ("one", "each"):
                if part == "each" and tier == "quick" and (target != "x64-elf" or len(combo) > 2):
                    continue
                t.append((target, list(combo), part, bound, "same-offset" if tier == "quick" else True))
    return t


def task_group(task):
    return "%s/%s/n<=%d" % (task[0], task[2], task[3])


def _spec_of_case(case):
    return case["spec"]


P_NONE = [["none"]]  # get_asm returns None: "no insertion takes place"
P_MID = [["p", 0], ["lab", ".Lm"], ["p", 0]]  # a label in the middle: its second half can absorb what follows, its first cannot absorb it
P_SIDE = [["p", 0], ["side"]]  # also brings bytes for a section of its own


def _atoms(spec, target):
    pats = [P_ORD, P_ORD2] if target.startswith("mips") else [P_ORD, P_LABEL]
    atoms = scen.atoms_for(spec, pats, data_patches=[P_DATA], max_del=2)
    if target == "x64-elf" and spec["sections"][0].get("part") == "one" and len(spec["sections"][0]["blocks"]) == 2:
        # declining patches, as insertions and as replacements, on code blocks (2-block shapes)
        for s_ in spec["sections"]:
            for b in s_["blocks"]:
                if b["k"] == "c":
                    n = len(b["i"])
                    atoms.append({"op": "ins", "b": b["n"], "k": 0, "p": P_NONE})
                    for k in range(n):
                        atoms.append({"op": "rep", "b": b["n"], "k": k, "n": 1, "p": P_NONE})
                    for k in range(n + 1):
                        atoms.append({"op": "ins", "b": b["n"], "k": k, "p": P_MID})
                        atoms.append({"op": "ins", "b": b["n"], "k": k, "p": P_SIDE})
                    if n:
                        atoms.append({"op": "rep", "b": b["n"], "k": 0, "n": 1, "p": P_MID})
    return atoms


def input_bytes(spec):
    from ..world import listing as Lg

    return Lg.flatten(spec, Lg.tokens_of(spec), set()).bytes


def check(spec, mods):
    outcome, diffs, w, E, O = run_scenario(spec, mods, ["bytes"])
    if diffs and any(m["op"] == "rep" and isinstance(m.get("p"), list) and any(t[0] == "none" for t in m["p"]) for m in mods):
        # a declined replacement: the statement does not say whether the range goes away - accept either reading
        alt = dict(spec, declined_rep_deletes=True)
        o2, d2, w2, E2, O2 = run_scenario(alt, mods, ["bytes"])
        if not d2:
            return o2 + ";declined-replacement-removed-range", d2, E2
    return outcome, diffs, E


# =============================================================================== raw layouts
# Shapes the assembly-listing world cannot express: blocks that OVERLAP (they share bytes of one interval) and an
# interval whose tail is uninitialized (size > initialized_size).  The reference is the section image - contents padded
# with zeros up to the interval size - edited by splicing at absolute original addresses.
RAW_LAYOUTS = {
    # name: (size, initialized, [(offset, size, kind)])      code = 2-byte tagged instructions, data = tagged bytes
    "overlap-code": (10, 10, [(0, 6, "c"), (2, 6, "c"), (8, 2, "c")]),
    "overlap-nested": (10, 10, [(0, 8, "c"), (2, 4, "c"), (8, 2, "c")]),
    "overlap-data": (8, 8, [(0, 4, "d"), (2, 4, "d"), (6, 2, "d")]),
    "uninit-tail": (10, 6, [(0, 4, "c"), (4, 4, "d"), (8, 2, "d")]),
    "uninit-all-of-last": (8, 4, [(0, 2, "d"), (2, 4, "d"), (6, 2, "d")]),
    "uninit-after-code": (8, 4, [(0, 4, "c"), (4, 2, "d"), (6, 2, "d")]),
}


def raw_image(name):
    size, init, blocks = RAW_LAYOUTS[name]
    img = bytearray(size)
    code = set()
    for o, s, k in blocks:
        if k == "c":
            code.update(range(o, o + s))
    for i in range(init):
        if i in code:
            img[i] = 0xB0 if i % 2 == 0 else 0x10 + i
        else:
            img[i] = 0xD0 + i
    return bytes(img)


def raw_atoms(name):
    size, init, blocks = RAW_LAYOUTS[name]
    out = []
    for bi_, (o, s, k) in enumerate(blocks):
        unit = 2 if k == "c" else 1
        for off in range(0, s + 1, unit):
            if k == "c" and o + off > init:
                continue
            out.append({"op": "ins", "blk": bi_, "off": off, "kind": k})
        for off in range(0, s, unit):
            if name.startswith("overlap"):
                continue  # edits that remove bytes two blocks share are not "non-overlapping requests" in any clear sense
            out.append({"op": "del", "blk": bi_, "off": off, "n": unit})
            out.append({"op": "rep", "blk": bi_, "off": off, "n": unit, "kind": k})
    return out


def raw_sets(name, bound):
    atoms = raw_atoms(name)
    blocks = RAW_LAYOUTS[name][2]

    def span(a):
        base = blocks[a["blk"]][0] + a["off"]
        return base, base + a.get("n", 0)

    yield []
    for a in atoms:
        yield [a]
    if bound >= 2:
        for a, b in itertools.combinations(atoms, 2):
            (a0, a1), (b0, b1) = span(a), span(b)
            # different absolute places (the order of two splices at one address through two different blocks is not defined)
            if a1 <= b0 and a0 != b0 or b1 <= a0 and a0 != b0:
                if a0 == a1 and b0 < a0 < b1 or b0 == b1 and a0 < b0 < a1:
                    continue
                yield [a, b]
                yield [b, a]


def raw_check(name, mods):
    from gtirb_rewriting import Patch, RewritingContext, Constraints
    from gtirb_test_helpers import add_text_section, create_test_module
    from ..world import listing as Lg

    size, init, blocks = RAW_LAYOUTS[name]
    img = raw_image(name)
    ir, m = create_test_module(gtirb.Module.FileFormat.ELF, gtirb.Module.ISA.X64)
    sect, iv = add_text_section(m, 0x1000)
    iv.contents = img[:init]
    iv.size = size
    iv.initialized_size = init
    bl = []
    for o, s, k in blocks:
        b = (gtirb.CodeBlock if k == "c" else gtirb.DataBlock)(offset=o, size=s)
        b.byte_interval = iv
        bl.append(b)
    for i in range(len(bl) - 1):
        if blocks[i][2] == "c" and blocks[i + 1][2] == "c" and blocks[i][0] + blocks[i][1] == blocks[i + 1][0]:
            ir.cfg.add(gtirb.Edge(bl[i], bl[i + 1], gtirb.Edge.Label(gtirb.Edge.Type.Fallthrough)))
    ctx = RewritingContext(m, [])
    splices = []  # (absolute address, registration index, removed, inserted bytes)
    for i, md in enumerate(mods):
        o, s, k = blocks[md["blk"]]
        addr = o + md["off"]
        tag = 0x61 + i
        if md["op"] in ("ins", "rep"):
            text, pb = ("movb $%d, %%bl" % tag, bytes([0xB3, tag])) if md["kind"] == "c" else (".byte %d" % tag, bytes([tag]))
            patch = Patch.from_function(lambda ctx_, text=text: text, Constraints())
        if md["op"] == "ins":
            ctx.insert_at(bl[md["blk"]], md["off"], patch)
            splices.append((addr, i, 0, pb))
        elif md["op"] == "rep":
            ctx.replace_at(bl[md["blk"]], md["off"], md["n"], patch)
            splices.append((addr, i, md["n"], pb))
        else:
            ctx.delete_at(bl[md["blk"]], md["off"], md["n"])
            splices.append((addr, i, md["n"], b""))
    roles = {"r_layout": name.split("-")[0]}
    # request pattern of F46: new bytes go in strictly inside ANOTHER block (behind its start) that still has an edit of
    # its own pending at a higher address - the rewriter translates that block's offsets as if nothing had moved inside it
    sp = [(blocks[md["blk"]][0] + md["off"], md["blk"], md["op"]) for md in mods]
    roles["r_pattern"] = "none"
    for ax, bx, opx in sp:
        for ay, by, _ in sp:
            if bx != by and opx in ("ins", "rep") and blocks[by][0] < ax < ay:
                roles["r_pattern"] = "insertion-inside-another-block-below-its-pending-edit"
    try:
        ctx.apply()
    except Exception as e:
        return "raised", [C.D("apply-raised", r_exc=type(e).__name__, msg=str(e)[:100], **roles)]
    exp = bytearray(img)
    for addr, i, n, pb in sorted(splices, key=lambda x: (-x[0], -x[1])):
        exp[addr:addr + n] = pb
    _, got = Lg.section_layout(sect)
    diffs = []
    if bytes(got) != bytes(exp):
        diffs.append(C.D("bytes-differ", expected=bytes(exp).hex(), observed=bytes(got).hex(), **roles))
    for iv2 in sect.byte_intervals:
        for b in iv2.blocks:
            if b.offset < 0 or b.offset + b.size > iv2.size:
                diffs.append(C.D("block-outside-its-interval", off=b.offset, size=b.size, interval=iv2.size, **roles))
    return ("ok" if not diffs else "diff"), diffs


def run_task(task):
    target, combo, part, bound, orders = task
    res = TaskResult()
    if target == "raw":
        for mods in raw_sets(combo, bound):
            outcome, diffs = raw_check(combo, mods)
            res.case(("raw", combo, mods), nontrivial=bool(mods), outcome=outcome)
            if diffs:
                res.bad({"raw": combo, "mods": mods}, diffs)
            if len(mods) == 2:
                res.sample({"raw": combo, "image": raw_image(combo).hex(), "mods": mods}, cap=1)
        return res
    if target == "aligned":
        spec = aligned_specs()[combo]
        atoms = aligned_atoms(spec)
    elif target == "scope":
        # scope-wide registrations (AllBlocksScope ENTRY) mixed with block-specific ones at offset 0
        spec = make_spec("x64-elf", combo, part)
        atoms = [a for a in _atoms(spec, "x64-elf") if a["op"] == "ins" and a["k"] in (0, 1) and a["p"] == P_ORD]
        atoms += [{"op": "del", "b": b["n"], "k": 0, "n": 1} for s_ in spec["sections"] for b in s_["blocks"]]
        atoms += [{"op": "scope"}, {"op": "scope"}]
    else:
        spec = make_spec(target, combo, part)
        atoms = _atoms(spec, target)
    inb = input_bytes(spec)
    for mods in scen.mod_sets(spec, atoms, bound, orders=orders):
        mods = scen.retag(mods)
        outcome, diffs, E = check(spec, mods)
        res.case((task[:3], mods), nontrivial=bool(mods) and E.bytes != inb, outcome=outcome)
        if diffs:
            res.bad({"spec": spec, "mods": mods}, diffs)
        if len(mods) == bound:
            res.sample({"spec": spec, "mods": mods}, cap=1)
    return res


def replay(case):
    if "raw" in case:
        return raw_check(case["raw"], case["mods"])[1]
    return check(case["spec"], case["mods"])[1]
