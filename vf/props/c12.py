"""
C12  Assembler output: bytes, blocks and CFG match the assembly text.

Bounded exhaustive enumeration of token sequences (vf.asmtokens) through the
real gtirb_rewriting.Assembler; every result is compared with a declarative,
position-based reference model of the statement (the Assembler itself is a
streaming state machine with a clean-up pass, so the two share no algorithm).
"""
from __future__ import annotations

import itertools

import gtirb

from .. import asmtokens as T
from ..core import TaskResult

PROPERTY = "C12"
LEVEL = "exploration"
RULE = (
    "every sequence of tokens up to the stated length over the stated vocabulary, per (dialect, file format, "
    "trivially_unreachable); lengths 1-2 are unpruned (they hold the error cases: duplicate label, unknown own label, branch to data, "
    "constant .uleb128, unbalanced CFI frame), from length 3 on sequences that would only repeat one of those errors are skipped "
    "(label defined twice, own label used but not defined, a token unsupported by itself, unbalanced explicit CFI frame); "
    "a case is distinct by (dialect, format, flags, token ids); non-trivial = the model expects a successful assembly"
)
ASSUMPTIONS = [
    "capstone, mcasm/LLVM (as encoders of single instructions) and gtirb are trusted; the token table is validated against capstone only",
    "module binary type is EXEC except in the `pie` vocabulary runs (x86 ELF, binary type DYN), where a direct branch/call to the proxy-backed symbol without an explicit variant is expected to carry PLT",
    "MIPS32 has no return instruction: `jr $t9` is the indirect jump, there is no `ret` token; MIPS control transfers are written "
    "without `.set noreorder`, the delay-slot nop LLVM adds is modelled as an ordinary instruction following the transfer",
    "statement is silent, model follows the documented Assembler conventions: (a) a block that ends without a control transfer falls "
    "through to the next block iff the boundary between them was opened by a label or an .align (not by a .string/.uleb128 run, whose "
    "blocks have no fallthrough in or out); (b) a data-only block stays code when a CFI directive is attached to it, when an edge "
    "(fallthrough included) reaches it, or when it is the first block of an executable section and trivially_unreachable is off; "
    "(c) the trailing empty block exists iff an edge or a CFI directive needs it, or it carries a label and is the only block",
    "a trailing label may sit on the final empty block or at_end of the previous block (both accepted)",
    "alignment entries are only checked for closure (key is a block of the section, value was requested at that position), presence is not demanded",
    "CFI directives are compared by absolute position only; `.cfi_endproc` in another section than its `.cfi_startproc` is outside the "
    "vocabulary's supported use: any AssemblerError or success is accepted there, other exception classes are reported",
    "vocabulary per dialect is reduced with growing length (see bounds): the longest length only covers the small vocabulary",
]
CAP_S = {"quick": 400, "thorough": 3000}

ET = gtirb.Edge.Type

# ----------------------------------------------------------------------------
# vocabularies

V_FULL = [
    "ord", "osym:mdata+4", "osym:A",
    "jmp:A", "jmp:.Lb", "jmp:mcode", "jmp:ext", "jmp:mdata",
    "jcc:A", "jcc:.Lb", "jcc:ext",
    "call:A", "call:.Lb", "call:ext", "call:ext@PLT",
    "ret", "ijmp", "icall", "icallgot:ext", "osymgot:mdata",
    "lab:A", "lab:.Lb",
    "byte", "word:ext", "word:A", "word:.Lb+4", "string", "zero", "align", "uleb:mcode-mdata", "ulebconst",
    "sec:.data", "sec:.text",
    "cfi:start", "cfi:end", "cfi:off",
    # MIPS only
    "nop", "jmpb:.Lb",
]
V_MID = [
    "ord", "jmp:.Lb", "jcc:.Lb", "call:ext", "ret", "ijmp", "lab:.Lb", "lab:A",
    "byte", "word:A", "string", "align", "uleb:mcode-mdata", "sec:.data", "cfi:off", "icall",
]
V_SMALL = ["ord", "jmp:.Lb", "jcc:.Lb", "call:ext", "ret", "ijmp", "lab:.Lb", "byte", "string", "align", "sec:.data"]
# position-independent x86 ELF modules (binary type DYN): direct branches and calls to an external (proxy-backed) symbol
# without a relocation variant of their own are given the PLT attribute; an explicit variant is kept as written
V_PIE = [
    "ord", "call:ext", "call:ext@PLT", "jmp:ext", "jcc:ext", "call:mcode", "jmp:mcode", "call:A", "jcc:A", "lab:A",
    "icallgot:ext", "ijmpgot:ext", "osymgot:ext", "icallgot:mcode", "osymgot:mdata", "osym:A", "word:ext", "ret", "byte",
]
VOCABS = {"full": V_FULL, "mid": V_MID, "small": V_SMALL, "pie": V_PIE}
# CFI procedures: explicit .cfi_startproc/.cfi_endproc with the full vocabulary, the
# implicit procedure (what RewritingContext uses) with the reduced ones
IMPLICIT = {"full": False, "mid": True, "small": True, "pie": True}
PIE_LENGTHS = {"quick": (1, 2), "thorough": (1, 2, 3)}

PRIMARY = ("x64att", "ELF")
CONFIGS = [(d, f) for d in ("x64att", "x64intel", "ia32", "arm64", "mips32") for f in ("ELF", "PE")]

# plan: per tier and per class of configuration: [(vocabulary, lengths)]
#   primary = x64att ELF;  isa = the ELF configuration of every other ISA;  rest = x64 Intel syntax and all PE configurations
PLAN = {
    "quick": {
        "primary": [("full", (1, 2, 3)), ("mid", (4,))],
        "isa": [("full", (1, 2, 3)), ("small", (4,))],
        "rest": [("full", (1, 2)), ("mid", (3,)), ("small", (4,))],
    },
    "thorough": {
        "primary": [("full", (1, 2, 3, 4)), ("mid", (5,))],
        "isa": [("full", (1, 2, 3, 4)), ("small", (5,))],
        "rest": [("full", (1, 2, 3)), ("mid", (4,)), ("small", (5,))],
    },
}


def config_class(dialect, fmt):
    if (dialect, fmt) == PRIMARY:
        return "primary"
    if fmt == "ELF" and dialect != "x64intel":
        return "isa"
    return "rest"


BOUNDS = {
    tier: {
        "configs": "5 dialects x {ELF,PE} x trivially_unreachable {off,on}",
        "classes": {"primary": "x64att/ELF", "isa": "ia32/ELF arm64/ELF mips32/ELF", "rest": "x64intel/ELF and all PE"},
        "max_length_per_vocabulary": {c: {v: max(l) for v, l in p[c]} for c in p},
        "vocabulary_sizes": {k: len(v) for k, v in VOCABS.items()},
        "unpruned_lengths": [1, 2],
    }
    for tier, p in PLAN.items()
}


def vocab_for(dialect, fmt, vname):
    out = []
    for s in VOCABS[vname]:
        if not T.has_token(dialect, s):
            continue
        if s in ("nop", "jmpb:.Lb") and dialect != "mips32":
            continue
        if s.endswith("@PLT") and (fmt != "ELF" or dialect not in ("x64att", "ia32")):
            continue
        if vname == "small" and s == "ijmp" and T.has_token(dialect, "ret"):
            continue  # the small vocabulary has one unconditional non-jump terminator: ret, or ijmp where there is no ret
        out.append(s)
    return out


def _own_defs_refs(spec):
    """(label defined, own labels referenced) of a token id, without building it."""
    head, _, arg = spec.partition(":")
    if head == "lab":
        return arg, ()
    refs = []
    for own in (T.OWN_GLOBAL, T.OWN_TEMP):
        for part in arg.replace("@PLT", "").replace("+4", "").split("-"):
            if part == own:
                refs.append(own)
    return None, tuple(refs)


ERROR_TOKENS = ("ulebconst", "jmp:mdata")  # unsupported by themselves: only enumerated at lengths 1-2


def admissible(specs, implicit):
    """
    Pruning rule for lengths >= 3 (everything it removes is an error case that the unpruned
    lengths 1-2 already cover): labels defined at most once, own labels referenced only if
    defined, no token that is unsupported by itself, explicit CFI frames balanced.
    """
    defs = []
    refs = set()
    frame = False
    for s in specs:
        if s in ERROR_TOKENS:
            return False
        if s.startswith("cfi:") and not implicit:
            if s == "cfi:start":
                if frame:
                    return False
                frame = True
            elif not frame:
                return False
            elif s == "cfi:end":
                frame = False
        d, r = _own_defs_refs(s)
        if d:
            defs.append(d)
        refs.update(r)
    return not frame and len(defs) == len(set(defs)) and refs <= set(defs)


# ----------------------------------------------------------------------------
# the reference model


def D(kind, **kw):
    d = {"kind": kind}
    d.update(kw)
    return d


class _Sec:
    def __init__(self, name, executable):
        self.name = name
        self.executable = executable
        self.pos = 0
        self.items = []  # dicts: off,size,what('insn'|'data'),t,insn,cti,tok
        self.events = []  # (pos, t, sub, kind)
        self.aligns = {}  # pos -> True
        self.cfi = []  # (pos, t, which)
        self.labels = []  # (pos, t, name)


def model(toks, fmt, tu, implicit):
    """
    What the statement (plus the conventions listed in ASSUMPTIONS) demands for a
    token sequence.  Returns a dict with either `errors` (acceptable exception
    class names; "*" = any AssemblerError or success) or the expected structure.
    """
    errors = set()
    secs = {".text": _Sec(".text", True)}
    cur = secs[".text"]
    labels = {}
    frame = None  # explicit CFI frame: section name while open
    cross_section_cfi = False
    for t, tok in enumerate(toks):
        if tok.error:
            errors.add(tok.error)
        if tok.kind == "section":
            if tok.section not in secs:
                secs[tok.section] = _Sec(tok.section, tok.section in (".text",))
            cur = secs[tok.section]
        elif tok.kind == "label":
            if tok.label in labels or tok.label in T.MODULE_NAMES:
                errors.add("MultipleDefinitionsError")
            labels.setdefault(tok.label, (cur.name, cur.pos, t))
            cur.labels.append((cur.pos, t, tok.label))
            cur.events.append((cur.pos, t, 0, "label"))
        elif tok.kind == "align":
            cur.aligns[cur.pos] = True
            cur.events.append((cur.pos, t, 0, "align"))
        elif tok.kind == "cfi":
            if implicit:
                if tok.cfi == "start":
                    errors.add("AsmSyntaxError")
                elif tok.cfi == "end":
                    errors.add("UnsupportedAssemblyError")
                    cross_section_cfi = cross_section_cfi or cur.name != ".text"
                elif cur.name == ".text":
                    cur.cfi.append((cur.pos, t, tok.cfi))
            else:
                if tok.cfi == "start":
                    if frame is not None:
                        errors.add("AsmSyntaxError")
                    else:
                        frame = cur.name
                        cur.cfi.append((cur.pos, t, "start"))
                elif frame is None:
                    errors.add("AsmSyntaxError")
                else:
                    if frame == cur.name:
                        cur.cfi.append((cur.pos, t, tok.cfi))
                    elif tok.cfi == "end":
                        cross_section_cfi = True
                    if tok.cfi == "end":
                        frame = None
        elif tok.is_insn:
            for k, insn in enumerate(tok.insns):
                cti = tok.kind if (k == 0 and tok.is_cti) else None
                cur.items.append({"off": cur.pos, "size": insn.size, "what": "insn", "t": t, "insn": insn, "cti": cti, "tok": tok})
                cur.pos += insn.size
                if cti:
                    cur.events.append((cur.pos, t, k, "cti_end"))
        else:  # data
            if tok.typed:
                cur.events.append((cur.pos, t, 0, "typed_start"))
            cur.items.append({"off": cur.pos, "size": len(tok.data), "what": "data", "t": t, "insn": None, "cti": None, "tok": tok})
            cur.pos += len(tok.data)
            if tok.typed:
                cur.events.append((cur.pos, t, 1, "typed_end"))
    if frame is not None:
        errors.add("AsmSyntaxError")
    # references
    for tok in toks:
        for name in tok.refs:
            if name not in labels and name not in T.MODULE_NAMES:
                errors.add("UndefSymbolError")
        if tok.kind in T.DIRECT_CTI and tok.sym and (tok.sym.target == T.MOD_DATA or tok.sym.addend):
            errors.add("UnsupportedAssemblyError")
    if cross_section_cfi:
        return {"errors": {"*"}}
    if errors:
        return {"errors": errors}

    exp = {"errors": set(), "sections": [], "edges": [], "symbols": {}, "fresh": 0}
    edges = []  # (srcnode, dstnode, type, cond, direct, why)
    soft = []  # (sec, src block offset, dst offset)

    def target_node(name):
        if name in labels:
            s, p, _ = labels[name]
            return ("b", s, p)
        return ("mod", name)

    layout = {}
    for s in secs.values():
        events = sorted(s.events)
        bounds = sorted({0} | {e[0] for e in events})
        bounds = [b for b in bounds if b < s.pos]
        blocks = []  # [off, size]
        for i, b in enumerate(bounds):
            end = bounds[i + 1] if i + 1 < len(bounds) else s.pos
            blocks.append([b, end - b])
        first_event = {}
        for e in events:
            first_event.setdefault(e[0], e)
        start_of = {b[0]: b for b in blocks}
        layout[s.name] = (s, events, blocks, first_event, start_of)

    def block_containing(sname, off):
        for b in layout[sname][2]:
            if b[0] <= off < b[0] + b[1]:
                return b
        raise AssertionError("model: no block at %s+%d" % (sname, off))

    nfresh = 0
    for s, events, blocks, first_event, start_of in layout.values():
        for it in s.items:
            if not it["cti"]:
                continue
            b = block_containing(s.name, it["off"])
            src = ("b", s.name, b[0])
            end = it["off"] + it["size"]
            k = it["cti"]
            tok = it["tok"]
            if k in T.DIRECT_CTI:
                ty = "Call" if k == "call" else "Branch"
                edges.append((src, target_node(tok.sym.target), ty, k == "jcc", True, k))
            elif k == "ret":
                edges.append((src, ("fresh",), "Return", False, True, k))
                nfresh += 1
            else:
                edges.append((src, ("fresh",), "Call" if k == "icall" else "Branch", False, False, k))
                nfresh += 1
            if k in T.FALLTHROUGH_CTI:
                edges.append((src, ("b", s.name, end), "Fallthrough", False, True, k))
        # fallthrough between blocks that do not end in a control transfer
        for p, fe in first_event.items():
            if p == 0 or fe[3] not in ("label", "align"):
                continue
            prev = None
            for b in blocks:
                if b[0] + b[1] == p:
                    prev = b
            if prev is None:
                continue
            last = [it for it in s.items if prev[0] <= it["off"] < p][-1]
            if last["tok"].typed:
                continue  # typed data blocks neither receive nor give fallthrough (excluded by first event anyway)
            soft.append((s.name, prev[0], p))

    # code / data, in block order
    in_hard = {}
    for e in edges:
        if e[1][0] == "b":
            in_hard.setdefault(e[1][1:], []).append(e)
    exp["fresh"] = nfresh
    is_data = {}
    for s, events, blocks, first_event, start_of in layout.values():
        # which block does a CFI directive hang on?
        cfi_blocks = set()
        cfi_te = False
        for pos, t, which in s.cfi:
            # the directive hangs on the block that is open when it is seen: the block starting
            # here if something already opened one at this position, else the block ending here
            opened_before = pos == 0 or any(e[0] == pos and e[1] < t for e in events)
            if opened_before:
                if pos == s.pos:
                    cfi_te = True
                else:
                    cfi_blocks.add(pos)
            else:
                cfi_blocks.add(block_containing(s.name, pos - 1)[0])
        soft_in = {}
        for sn, a, p in soft:
            if sn == s.name:
                soft_in[p] = a
        uleb_in_code = False
        for i, b in enumerate(blocks):
            items = [it for it in s.items if b[0] <= it["off"] < b[0] + b[1]]
            why = None
            if any(it["what"] == "insn" for it in items):
                why = "has-instruction"
            elif b[0] in cfi_blocks:
                why = "cfi"
            elif i == 0 and s.executable and not tu:
                why = "entry"
            elif (s.name, b[0]) in in_hard:
                why = "edge-target"
            elif b[0] in soft_in and not is_data.get((s.name, soft_in[b[0]])):
                why = "fallthrough-target"
            is_data[(s.name, b[0])] = why is None
            b.append("D" if why is None else "C")
            b.append(why)
            if why is not None and any(it["tok"].typed == "uleb128" for it in items):
                uleb_in_code = True
        if uleb_in_code:
            errors.add("UnsupportedAssemblyError")
        # trailing empty block
        te_soft = s.pos in soft_in and not is_data.get((s.name, soft_in[s.pos]))
        te_hard = (s.name, s.pos) in in_hard
        te_label = [n for (p, t, n) in s.labels if p == s.pos]
        te = te_hard or te_soft or cfi_te or (bool(te_label) and not blocks)
        exp["sections"].append(
            {
                "name": s.name,
                "len": s.pos,
                "items": s.items,
                "blocks": [tuple(b) for b in blocks],
                "te": te,
                "te_why": "edge" if te_hard else "fallthrough" if te_soft else "cfi" if cfi_te else "label-only" if te else None,
                "aligns": s.aligns,
                "cfi": s.cfi,
                "labels": s.labels,
                "events": events,
            }
        )
    if errors:
        return {"errors": errors}
    for e in edges:
        exp["edges"].append(e)
    for sn, a, p in soft:
        if not is_data[(sn, a)]:
            exp["edges"].append((("b", sn, a), ("b", sn, p), "Fallthrough", False, True, "soft"))
    exp["labels"] = labels
    return exp


# ----------------------------------------------------------------------------
# running one case and comparing


def _exc_class(ex):
    return type(ex).__name__


def assemble(module, toks, dialect, tu, implicit, **kw):
    from gtirb_rewriting.assembler import Assembler

    a = Assembler(module, trivially_unreachable=tu, implicit_cfi_procedure=implicit, **kw)
    a.assemble(T.render(toks), T.x86_syntax_of(dialect))
    return a.finalize()


def check_case(module, mod_syms, dialect, fmt, tu, implicit, specs):
    """Returns (diffs, outcome string, nontrivial)."""
    from gtirb_rewriting.assembler import assembler as asm_mod

    toks = T.tokens_of(dialect, specs)
    exp = model(toks, fmt, tu, implicit)
    diffs = []
    try:
        res = assemble(module, toks, dialect, tu, implicit)
        exc = None
    except Exception as ex:  # noqa
        res = None
        exc = ex
    if exp["errors"]:
        # Text outside the supported vocabulary (branch into data, duplicate label, constant
        # .uleb128, CFI frame across sections ...).  The property statement only speaks about
        # supported text, so what happens here is recorded in the outcome histogram and never
        # raises an alarm (see notes/findings_C12.md, C12-B).
        want = sorted(exp["errors"])
        if exc is None:
            return diffs, "info:unsupported-text-accepted(expected %s)" % "|".join(want), False
        if "*" not in exp["errors"] and _exc_class(exc) not in exp["errors"]:
            return diffs, "info:unsupported-text-raised-%s(expected %s)" % (_exc_class(exc), "|".join(want)), False
        return diffs, "error:" + _exc_class(exc), False
    if exc is not None:
        diffs.append(D("exception-unexpected", r_exc=_exc_class(exc), msg=str(exc)[:160]))
        return diffs, "unexpected:" + _exc_class(exc), True
    diffs = compare(res, exp, toks, dialect, module, mod_syms)
    nb = sum(len(s["blocks"]) for s in exp["sections"])
    nd = sum(1 for s in exp["sections"] for b in s["blocks"] if b[2] == "D")
    outcome = "ok:blocks=%d,data=%d,edges=%d,te=%d" % (nb, nd, len(exp["edges"]), sum(1 for s in exp["sections"] if s["te"]))
    return diffs, outcome, True


def check_reuse(module, mod_syms, dialect, fmt, tu, implicit, specs1, specs2):
    """ONE Assembler object used for two texts, finalize() after each: the second result must be what a fresh assembler
    gives for the second text, and the first result must not change afterwards.  Returns (diffs, outcome, nontrivial)."""
    from gtirb_rewriting.assembler import Assembler

    t1, t2 = T.tokens_of(dialect, specs1), T.tokens_of(dialect, specs2)
    e1, e2 = model(t1, fmt, tu, implicit), model(t2, fmt, tu, implicit)
    if e1["errors"] or e2["errors"]:
        return [], "reuse:skipped-unsupported-text", False
    a = Assembler(module, trivially_unreachable=tu, implicit_cfi_procedure=implicit)
    try:
        a.assemble(T.render(t1), T.x86_syntax_of(dialect))
        r1 = a.finalize()
        a.assemble(T.render(t2), T.x86_syntax_of(dialect))
        r2 = a.finalize()
    except Exception as ex:  # noqa
        return [D("exception-unexpected", r_exc=_exc_class(ex), r_use="reused-assembler", msg=str(ex)[:160])], "reuse:unexpected", True
    diffs = []
    for which, (r, e, t) in (("second", (r2, e2, t2)), ("first-afterwards", (r1, e1, t1))):
        for d in compare(r, e, t, dialect, module, mod_syms):
            d["r_use"] = "reused-assembler:" + which
            diffs.append(d)
    return diffs, "reuse:ok" if not diffs else "reuse:diff", True


def compare(res, exp, toks, dialect, module, mod_syms):
    pie = "DYN" in module.aux_data["binaryType"].data and module.file_format == gtirb.Module.FileFormat.ELF and dialect in ("x64att", "x64intel", "ia32")
    diffs = []
    cs = T.cs_for(dialect)
    exp_secs = {s["name"]: s for s in exp["sections"]}
    if list(res.sections) != [s["name"] for s in exp["sections"]]:
        diffs.append(D("sections", got=list(res.sections), expected=[s["name"] for s in exp["sections"]]))
        return diffs
    node_of = {}  # id(block) -> node
    mod_nodes = {id(s.referent): ("mod", n) for n, s in mod_syms.items()}
    own_sym = {}
    for s in res.symbols:
        own_sym.setdefault(s.name, []).append(s)

    for sname, sec in res.sections.items():
        es = exp_secs[sname]
        # (i) bytes
        if len(sec.data) != es["len"]:
            diffs.append(D("bytes-length", r_section=sname, got=len(sec.data), expected=es["len"]))
            return diffs
        for it in es["items"]:
            raw = bytes(sec.data[it["off"] : it["off"] + it["size"]])
            if it["what"] == "insn":
                got = [(i.mnemonic, i.op_str, i.size) for i in cs.disasm(raw, 0)]
                want = [(it["insn"].mnemonic, it["insn"].op_str, it["insn"].size)]
                if got != want:
                    diffs.append(D("bytes-decode", r_token=it["tok"].kind, offset=it["off"], got=got, expected=want))
            elif raw != it["tok"].data:
                diffs.append(D("bytes-data", r_token=it["tok"].id.split(":")[0], offset=it["off"], got=raw.hex(), expected=it["tok"].data.hex()))
        # (ii) tiling
        off = 0
        for i, b in enumerate(sec.blocks):
            if b.offset != off:
                diffs.append(D("tiling", r_what="gap-or-overlap", blocks=[(x.offset, x.size) for x in sec.blocks]))
                break
            if b.size == 0 and i != len(sec.blocks) - 1:
                diffs.append(D("tiling", r_what="empty-block-not-last", blocks=[(x.offset, x.size) for x in sec.blocks]))
            if b.size < 0:
                diffs.append(D("tiling", r_what="negative-size"))
            off += b.size
        else:
            if off != len(sec.data):
                diffs.append(D("tiling", r_what="does-not-cover-data", blocks=[(x.offset, x.size) for x in sec.blocks], expected_len=len(sec.data)))
        if any(d["kind"] == "tiling" for d in diffs):
            return diffs
        for b in sec.blocks:
            node_of[id(b)] = ("b", sname, b.offset)
        # blocks: boundaries, then types
        got_blocks = [(b.offset, b.size) for b in sec.blocks if b.size]
        want_blocks = [(b[0], b[1]) for b in es["blocks"]]
        has_te = bool(sec.blocks) and sec.blocks[-1].size == 0
        if got_blocks != want_blocks:
            gb = {o for o, _ in got_blocks}
            wb = {o for o, _ in want_blocks}
            for p in sorted(gb ^ wb):
                causes = sorted({e[3] for e in es["events"] if e[0] == p}) or ["none"]
                diffs.append(D("block-boundary", r_what="missing" if p in wb else "extra", r_cause="+".join(causes), offset=p, got=got_blocks, expected=want_blocks))
            return diffs
        if has_te != es["te"]:
            diffs.append(D("trailing-empty-block", r_what="missing" if es["te"] else "extra", r_why=es["te_why"] or "nothing-needs-it"))
        for b, eb in zip([x for x in sec.blocks if x.size], es["blocks"]):
            got_t = "D" if isinstance(b, gtirb.DataBlock) else "C" if isinstance(b, gtirb.CodeBlock) else "?"
            if got_t != eb[2]:
                diffs.append(D("block-type", r_expected=eb[2], r_got=got_t, r_why=eb[3] or "data-only-unreached", offset=b.offset))
        if has_te and not isinstance(sec.blocks[-1], gtirb.CodeBlock):
            diffs.append(D("block-type", r_expected="C", r_got="D", r_why="trailing-empty"))

    # edges
    def node(x):
        if id(x) in node_of:
            return node_of[id(x)]
        if id(x) in mod_nodes:
            return mod_nodes[id(x)]
        if isinstance(x, gtirb.ProxyBlock):
            return ("fresh",)
        return ("unknown", type(x).__name__)

    src_kind = {}
    for s in exp["sections"]:
        for b in s["blocks"]:
            last = [it for it in s["items"] if b[0] <= it["off"] < b[0] + b[1]][-1]
            # the token (id head) that ends the block: jmp / jmpb / jcc / call / ret / ijmp / icall / ord / byte / string ...
            src_kind[("b", s["name"], b[0])] = last["tok"].id.split(":")[0].rstrip("0123456789") if (last["cti"] or last["what"] != "insn") else "ord"
        src_kind[("b", s["name"], s["len"])] = "trailing-empty"

    def dst_kind(n):
        if n[0] == "b":
            es = exp_secs[n[1]]
            return "own-trailing-empty" if n[2] == es["len"] else "own-block"
        return n[0] if n[0] != "mod" else "module-" + n[1]

    got_edges = {}
    fresh_in = {}
    for e in res.cfg:
        key = (node(e.source), node(e.target), e.label.type.name, bool(e.label.conditional), bool(e.label.direct))
        got_edges[key] = got_edges.get(key, 0) + 1
        if key[1] == ("fresh",):
            fresh_in.setdefault(id(e.target), []).append(e)
    want_edges = {}
    for e in exp["edges"]:
        want_edges[e[:5]] = want_edges.get(e[:5], 0) + 1
    for k in sorted(set(got_edges) | set(want_edges), key=str):
        g, w = got_edges.get(k, 0), want_edges.get(k, 0)
        if g != w:
            diffs.append(
                D(
                    "edge-missing" if g < w else "edge-extra",
                    r_type=k[2],
                    r_src=src_kind.get(k[0], k[0][0]),
                    r_dst=dst_kind(k[1]),
                    r_flags="cond=%d,direct=%d" % (k[3], k[4]),
                    edge=[list(k[0]), list(k[1])],
                    got=g,
                    expected=w,
                )
            )
    # fresh proxies: one edge each, registered in the result, foreign to the module, unnamed
    sym_referents = {id(s.referent) for s in res.symbols if s.referent is not None}
    for pid, es_ in fresh_in.items():
        p = es_[0].target
        if len(es_) != 1:
            diffs.append(D("proxy", r_what="shared-between-edges"))
        if p not in res.proxies:
            diffs.append(D("proxy", r_what="not-in-result-proxies"))
        if p.module is not None or p in module.proxies:
            diffs.append(D("proxy", r_what="belongs-to-module"))
        if pid in sym_referents:
            diffs.append(D("proxy", r_what="fresh-proxy-has-symbol"))
    if len(res.proxies) != len(fresh_in):
        diffs.append(D("proxy", r_what="result-proxies-count", got=len(res.proxies), expected=len(fresh_in)))

    # (iv) labels
    labels = exp["labels"]
    if sorted(s.name for s in res.symbols) != sorted(labels):
        diffs.append(D("symbol", r_what="result-symbol-names", got=sorted(s.name for s in res.symbols), expected=sorted(labels)))
    else:
        for name, (sname, pos, _) in labels.items():
            s = own_sym[name][0]
            es = exp_secs[sname]
            n = node(s.referent) if s.referent is not None else None
            blk = s.referent
            in_section = any(blk is b for b in res.sections[sname].blocks)
            # (a) the block starting at the label (the final empty block for a trailing label)
            ok = in_section and n == ("b", sname, pos) and not s.at_end
            # (b) trailing label: at_end of the block that ends there
            if not ok and pos == es["len"]:
                ok = in_section and bool(s.at_end) and blk.size > 0 and blk.offset + blk.size == pos
            if not ok:
                diffs.append(D("symbol", r_what="label-position", r_trailing=pos == es["len"], label=name, got=[n, bool(s.at_end)], expected=[sname, pos]))

    # (vi) symbolic expressions
    def symobj(name):
        if name in labels:
            return own_sym.get(name, [None])[0]
        return mod_syms.get(name)

    for sname, sec in res.sections.items():
        es = exp_secs[sname]
        want = {}
        for it in es["items"]:
            tok = it["tok"]
            if tok.sym is None or (it["what"] == "insn" and it["insn"] is not tok.insns[0]):
                continue
            want[it["off"] + tok.sym.off] = tok
        if set(sec.symbolic_expressions) != set(want):
            diffs.append(D("symexpr", r_what="offsets", r_section_kind="text" if sname == ".text" else "other", got=sorted(sec.symbolic_expressions), expected=sorted(want)))
            continue
        for off, tok in want.items():
            e = sec.symbolic_expressions[off]
            so = tok.sym
            tk = tok.id.split(":")[0]
            if so.target2:
                good = isinstance(e, gtirb.SymAddrAddr) and e.scale == 1 and e.offset == 0 and e.symbol1 is symobj(so.target) and e.symbol2 is symobj(so.target2) and not e.attributes
                if not good:
                    diffs.append(D("symexpr", r_what="difference", r_token=tk, offset=off, got=repr(e)))
            else:
                if not isinstance(e, gtirb.SymAddrConst):
                    diffs.append(D("symexpr", r_what="type", r_token=tk, offset=off, got=type(e).__name__))
                    continue
                if e.symbol is not symobj(so.target):
                    diffs.append(D("symexpr", r_what="symbol", r_token=tk, offset=off, got=e.symbol.name, expected=so.target))
                if e.offset != so.addend:
                    diffs.append(D("symexpr", r_what="addend", r_token=tk, offset=off, got=e.offset, expected=so.addend))
                want_attrs = sorted(so.attrs)
                if pie and tk in ("jmp", "jcc", "call") and so.target == T.MOD_EXT and not so.attrs:
                    want_attrs = ["PLT"]
                if sorted(a.name for a in e.attributes) != want_attrs:
                    diffs.append(D("symexpr", r_what="attributes", r_token=tk, r_pie=pie, offset=off, got=sorted(a.name for a in e.attributes), expected=want_attrs))
            if sec.symbolic_expression_sizes.get(off) != so.size:
                diffs.append(D("symexpr", r_what="size", r_token=tk, offset=off, got=sec.symbolic_expression_sizes.get(off), expected=so.size))
        if set(sec.symbolic_expression_sizes) != set(want):
            diffs.append(D("symexpr", r_what="size-keys", got=sorted(sec.symbolic_expression_sizes), expected=sorted(want)))
        # closure of the per-block tables
        blockset = {id(b) for b in sec.blocks}
        for b, a in sec.alignment.items():
            if id(b) not in blockset:
                diffs.append(D("alignment", r_what="key-not-a-block-of-the-section"))
            elif b.offset not in es["aligns"] or a != T.ALIGN_VALUE:
                diffs.append(D("alignment", r_what="not-requested-here", offset=b.offset, value=a))
        for b, ty in sec.block_types.items():
            if id(b) not in blockset or not isinstance(b, gtirb.DataBlock):
                diffs.append(D("block-types", r_what="key-not-a-data-block-of-the-section"))
                continue
            items = [it for it in es["items"] if b.offset <= it["off"] < b.offset + b.size]
            typed = {it["tok"].typed for it in items}
            if typed != {{"string": "string", "uleb128": "uleb128"}.get(str(ty.value), "?")}:
                diffs.append(D("block-types", r_what="wrong-type", got=str(ty.value), expected=sorted(map(str, typed))))
        for b, eb in zip([x for x in sec.blocks if x.size], es["blocks"]):
            items = [it for it in es["items"] if eb[0] <= it["off"] < eb[0] + eb[1]]
            if eb[2] == "D" and items[0]["tok"].typed and b not in sec.block_types:
                diffs.append(D("block-types", r_what="missing", r_type=items[0]["tok"].typed))
        # CFI by absolute position
        want_cfi = sorted((pos, which) for pos, t, which in es["cfi"])
        got_cfi = []
        for proc in sec.cfi_procedures:
            for o, which in ((proc.start_offset, "start"), (proc.end_offset, "end")):
                if o is not None:
                    if id(o.element_id) not in blockset:
                        diffs.append(D("cfi", r_what="refers-to-removed-block", r_which=which))
                    else:
                        got_cfi.append((o.element_id.offset + o.displacement, which))
            for o, insts in proc.instructions.items():
                if id(o.element_id) not in blockset:
                    diffs.append(D("cfi", r_what="refers-to-removed-block", r_which="off"))
                else:
                    got_cfi.extend((o.element_id.offset + o.displacement, "off") for _ in insts)
        if sorted(got_cfi) != want_cfi and not any(d["kind"] == "cfi" for d in diffs):
            diffs.append(D("cfi", r_what="positions", got=sorted(got_cfi), expected=want_cfi))
    return diffs


# ----------------------------------------------------------------------------
# runner interface


def tasks(tier):
    out = []
    for dialect, fmt in CONFIGS:
        plan = PLAN[tier][config_class(dialect, fmt)]
        for vname, lengths in plan:
            voc = vocab_for(dialect, fmt, vname)
            for L in lengths:
                for tu in (False, True):
                    if L <= 2:
                        out.append({"d": dialect, "f": fmt, "tu": tu, "v": vname, "L": L, "prefix": []})
                    elif L == 3 or len(voc) <= 12:
                        for i in range(len(voc)):
                            out.append({"d": dialect, "f": fmt, "tu": tu, "v": vname, "L": L, "prefix": [i]})
                    else:
                        for i in range(len(voc)):
                            for j in range(len(voc)):
                                out.append({"d": dialect, "f": fmt, "tu": tu, "v": vname, "L": L, "prefix": [i, j]})
        # the same Assembler object for two texts of one token each
        for tu in (False, True):
            out.append({"d": dialect, "f": fmt, "tu": tu, "v": "full", "L": 1, "prefix": [], "reuse": True})
        if fmt == "ELF" and dialect in ("x64att", "x64intel", "ia32"):
            for L in PIE_LENGTHS[tier]:
                for tu in (False, True):
                    if L <= 2:
                        out.append({"d": dialect, "f": fmt, "tu": tu, "v": "pie", "L": L, "prefix": [], "pie": True})
                    else:
                        for i in range(len(vocab_for(dialect, fmt, "pie"))):
                            out.append({"d": dialect, "f": fmt, "tu": tu, "v": "pie", "L": L, "prefix": [i], "pie": True})
    # big tasks first so the pool drains evenly
    out.sort(key=lambda t: -(len(VOCABS[t["v"]]) ** (t["L"] - len(t["prefix"]))))
    return out


def task_group(task):
    return "%s/%s" % (task["d"], task["f"])


def run_task(task):
    res = TaskResult()
    dialect, fmt, tu, vname, L = task["d"], task["f"], task["tu"], task["v"], task["L"]
    T.validated(dialect)
    voc = vocab_for(dialect, fmt, vname)
    implicit = IMPLICIT[vname]
    module, mod_syms = T.make_module(dialect, fmt, binary_type=("DYN",) if task.get("pie") else ("EXEC",))
    if task.get("reuse"):
        for s1 in voc:
            for s2 in voc:
                diffs, outcome, nontrivial = check_reuse(module, mod_syms, dialect, fmt, tu, implicit, (s1,), (s2,))
                case = {"d": dialect, "f": fmt, "tu": tu, "implicit": implicit, "toks": [s1], "then": [s2]}
                res.case((dialect, fmt, tu, implicit, "reuse", s1, s2), nontrivial=nontrivial, outcome=outcome)
                if diffs:
                    res.bad(case, diffs)
        return res
    prefix = tuple(voc[i] for i in task["prefix"])
    for rest in itertools.product(voc, repeat=L - len(prefix)):
        specs = prefix + rest
        if L >= 3 and not admissible(specs, implicit):
            continue
        diffs, outcome, nontrivial = check_case(module, mod_syms, dialect, fmt, tu, implicit, specs)
        case = {"d": dialect, "f": fmt, "tu": tu, "implicit": implicit, "toks": list(specs)}
        if task.get("pie"):
            case["pie"] = True
        res.case((dialect, fmt, tu, implicit, bool(task.get("pie")), specs), nontrivial=nontrivial, outcome=outcome)
        if diffs:
            res.bad(case, diffs)
        elif nontrivial and L >= 3:
            res.sample(dict(case, text=T.render(T.tokens_of(dialect, specs))), cap=1)
    return res


def replay(case):
    dialect, fmt = case["d"], case["f"]
    T.validated(dialect)
    module, mod_syms = T.make_module(dialect, fmt, binary_type=("DYN",) if case.get("pie") else ("EXEC",))
    if "then" in case:
        return check_reuse(module, mod_syms, dialect, fmt, case["tu"], case["implicit"], tuple(case["toks"]), tuple(case["then"]))[0]
    diffs, _, _ = check_case(module, mod_syms, dialect, fmt, case["tu"], case["implicit"], tuple(case["toks"]))
    return diffs
