"""
C17  CallPatch follows the calling convention and is stack-neutral.

A real CallPatch (src/gtirb_rewriting/patches/calls.py) is inserted through a
real RewritingContext (so it is wrapped in the real prologue/epilogue and goes
through the real Assembler), the inserted bytes and their symbolic expressions
are decoded with capstone and executed on the concrete CPUs of vf.machine.
The machine stops at the call: argument registers, stack slots, shadow space
and SP alignment are compared with the calling convention; then the callee
"returns" (popping its arguments under callee cleanup) and at the end of the
patch SP must be back.
"""
from gtirb_rewriting import InsertionContext
from gtirb_rewriting.abi import CallingConventionDesc
from gtirb_rewriting.patches import CallPatch

from .. import machine as mach
from ..machine import selfcheck
from ..core import TaskResult
from ..patchrun import ABIS, HarnessError, World, quiet

PROPERTY = "C17"
LEVEL = "exploration"
RULE = (
    "every point of three sweeps is built as a real CallPatch, inserted by a real RewritingContext and executed on a "
    "concrete CPU from every initial SP (pointer-size multiples mod 32): (A) ABI x convention x constraint profile "
    "(default, align_stack off, every prologue stack adjustment) x leaf/non-leaf x 0..16 distinct arguments; "
    "(B) ABI x convention x profile x n in 1..16 x position x value class, other arguments distinct small integers; "
    "(C) ABI x convention x profile x full product of value classes for n <= 2 (quick) / 3 (thorough). "
    "A case is one (patch, initial SP) pair; non-trivial when the code ran to the end with exactly one call"
)
ASSUMPTIONS = [
    "trusted: capstone decoding, the machines in vf/machine (an instruction outside their subset is a harness error)",
    "a memory operand whose displacement carries a symbolic expression ([rip+sym], [sym]) LOADS the contents of the symbol "
    "(a distinct sentinel), an immediate carrying one is the symbol's address; adrp/add :lo12: compute the address",
    "the callee may overwrite its shadow space, its stack arguments, everything below SP, the caller-saved registers and the flags",
    "alignment is demanded only when the premise of the statement holds on the machine: (SP at the start of the patch body + "
    "reported stack_adjustment) is a multiple of the convention's alignment (with align_stack the adjustment is None and the "
    "body start itself must be aligned; a custom alignment above the ABI's 16 is therefore only checked for the starts that "
    "happen to satisfy it); ARM64 starts are 16-byte aligned (hardware invariant)",
    "an integer that does not fit the pointer-size slot (IA32: outside [-2^31, 2^32)) may be refused with any exception or "
    "arrive modulo 2^32; integers that fit must arrive exactly (modulo 2^width, i.e. -1 == 2^64-1 on 64-bit targets)",
    "ValueError from the CallPatch constructor for an ARM64 convention with shadow space, alignment != 16 or callee cleanup is an accepted refusal",
    "default conventions are written down from the psABIs (SysV: rdi rsi rdx rcx r8 r9 /16; Win64: rcx rdx r8 r9 /16 +32 shadow; "
    "Win32 cdecl: stack only /4; AAPCS64: x0-x7 /16), not read from the library",
    "the value classes are boundary representatives of the 64-bit range, not the whole range; symbols: one external (proxy) "
    "and one defined in a data block; callables return an int or a symbol",
    "a `nop` is prepended to the CallPatch assembly (by a recording subclass) to observe SP at the start of the patch body",
]

CLASSES = [
    "0", "1", "-1", "0x7fffffff", "0x80000000", "-0x80000000", "-0x80000001", "0xffff", "0x10000",
    "-0xffff", "-0x10000", "2^63-1", "-2^63", "2^64-1", "sym", "fn-int", "fn-sym",
]
INTS = {
    "0": 0, "1": 1, "-1": -1, "0x7fffffff": 0x7FFFFFFF, "0x80000000": 0x80000000, "-0x80000000": -0x80000000,
    "-0x80000001": -0x80000001, "0xffff": 0xFFFF, "0x10000": 0x10000, "-0xffff": -0xFFFF, "-0x10000": -0x10000,
    "2^63-1": 2 ** 63 - 1, "-2^63": -(2 ** 63), "2^64-1": 2 ** 64 - 1,
}
DEFAULT = "pos"  # a small integer that identifies the position

_SYSV = ["RDI", "RSI", "RDX", "RCX", "R8", "R9"]
_WIN = ["RCX", "RDX", "R8", "R9"]
_A64 = ["x%d" % i for i in range(8)]


def _cc(registers, stack_alignment, caller_cleanup=True, shadow_space=0):
    return dict(registers=list(registers), stack_alignment=stack_alignment, caller_cleanup=caller_cleanup, shadow_space=shadow_space)


DEFAULT_CONV = {
    "x64-elf": _cc(_SYSV, 16),
    "x64-pe": _cc(_WIN, 16, True, 32),
    "ia32-pe": _cc([], 4),
    "arm64-elf": _cc(_A64, 16),
}
CONVS = {
    "x64-elf": {
        "default": None,
        "noregs": _cc([], 16),
        "onereg-shadow8": _cc(["RCX"], 16, True, 8),
        "eightregs": _cc(_SYSV + ["R10", "R11"], 16),
        "align32-shadow32": _cc(_SYSV, 32, True, 32),
        "align8-callee": _cc(_SYSV, 8, False),
        "tworegs-shadow32-callee": _cc(["RCX", "RDX"], 16, False, 32),
    },
    "x64-pe": {
        "default": None,
        "noregs": _cc([], 16, True, 32),
        "onereg-shadow8": _cc(["RCX"], 16, True, 8),
        "sixregs": _cc(_WIN + ["R10", "R11"], 16, True, 32),
        "align32-shadow32": _cc(_WIN, 32, True, 32),
        "align8-callee": _cc(_WIN, 8, False, 0),
        "tworegs-shadow32-callee": _cc(["RCX", "RDX"], 16, False, 32),
    },
    "ia32-pe": {
        "default": None,
        "stdcall": _cc([], 4, False),
        "fastcall": _cc(["ECX", "EDX"], 4, False),
        "align16": _cc([], 16),
        "onereg-shadow8-align16": _cc(["EAX"], 16, True, 8),
        "align16-callee": _cc([], 16, False),
        "threeregs": _cc(["EAX", "EDX", "ECX"], 4),
    },
    "arm64-elf": {
        "default": None,
        "noregs": _cc([], 16),
        "tworegs": _cc(["x0", "x1"], 16),
        "tenregs": _cc(["x%d" % i for i in range(10)], 16),
        "x1-x0": _cc(["x1", "x0"], 16),
        "callee-cleanup": _cc(_A64, 16, False),
        "shadow8": _cc(_A64, 16, True, 8),
        "align32": _cc(_A64, 32),
    },
}
PRE_MUTATIONS = {
    "callee-cleanup": ("caller_cleanup", False),
    "no-shadow": ("shadow_space", 0),
    "shadow64": ("shadow_space", 64),
    "no-registers": ("registers", ()),
    "align64": ("stack_alignment", 64),
}
QUICK_B_CONVS = {"x64-elf": ["default"], "x64-pe": ["default"], "ia32-pe": ["default"], "arm64-elf": ["default"]}
C_CONVS = {"x64-elf": ["default", "noregs", "onereg-shadow8"], "x64-pe": ["default", "noregs", "onereg-shadow8"],
           "ia32-pe": ["default", "fastcall", "onereg-shadow8-align16"], "arm64-elf": ["default", "noregs", "x1-x0"]}
ADJ_REGS = {
    "x64-elf": ["rbx", "r12", "r13", "r14", "r15", "rsi", "r10", "rax"],
    "x64-pe": ["rbx", "r12", "r13", "r14", "r15", "rsi", "r10", "rax"],
    "ia32-pe": ["ebx", "esi", "edi", "eax", "ecx", "edx"],
    "arm64-elf": ["x19", "x20", "x21", "x22", "x23", "x24", "x9", "x0"],
}
BOUNDS = {
    "quick": {
        "A": "4 ABIs x 7-8 conventions x 11 profiles (default, noalign, adj0..adj8 or adj0..adj6) x {nonleaf, leaf} x n in 0..16",
        "B": "4 ABIs x default convention x default profile x n in 1..16 x position x 17 classes",
        "C": "4 ABIs x 3 conventions x {default, noalign} x all class tuples of length <= 2",
        "S": "4 ABIs x default convention x {default, noalign} x one CallPatch object inserted at 2-3 places (5 place lists over leaf / non-leaf / "
        "no function / tail-jump function, every place evaluated) x n in {1, 2, registers+1} x position x {callable int, callable symbol, symbol, int}",
        "M": "4 ABIs x default convention after one of 5 field mutations of a description obtained from ABI.calling_convention() x {default, noalign} x n in {0,1,2,4,5,7,9}",
        "initial_sp": "pointer-size multiples mod 32 (ARM64: multiples of 16)",
    },
    "thorough": {
        "A": "as quick, plus no-function blocks",
        "B": "4 ABIs x all conventions x {default, noalign} x n in 1..16 x position x 17 classes",
        "C": "4 ABIs x 3 conventions x {default, noalign} x all class tuples of length <= 3",
        "initial_sp": "pointer-size multiples mod 32 (ARM64: multiples of 16)",
    },
}
CAP_S = {"quick": 900, "thorough": 3600}

FLAGS0 = 0x0F1A6500
CALLEE_FRAME = 256
B_CHUNKS = [[1, 2, 3, 4, 5, 6, 7, 8], [9, 10, 11], [12, 13, 14], [15, 16]]


def D(kind, **kw):
    d = {"kind": kind}
    d.update(kw)
    return d


def _isa(abi):
    return abi.split("-")[0]


def _profiles(abi):
    n = len(ADJ_REGS[abi])
    return ["default", "noalign"] + ["adj%d" % k for k in range(0, min(8, n) + 1)]


def _profile_kwargs(abi, profile):
    if profile == "default":
        return {}
    if profile == "noalign":
        return {"align_stack": False}
    k = int(profile[3:])
    return {
        "align_stack": False,
        "preserve_caller_saved_registers": False,
        "clobbers_flags": False,
        "clobbers_registers": set(ADJ_REGS[abi][:k]),
    }


# --------------------------------------------------------------------------- enumeration
def tasks(tier):
    selfcheck.run()  # the CPUs must pass their own pinned snippets first
    t = []
    for abi in sorted(CONVS):
        for conv in CONVS[abi]:
            t.append(["A", abi, conv, tier])
    for abi in sorted(CONVS):
        convs = QUICK_B_CONVS[abi] if tier == "quick" else list(CONVS[abi])
        profiles = ["default"] if tier == "quick" else ["default", "noalign"]
        for conv in convs:
            for prof in profiles:
                for ch in range(len(B_CHUNKS)):
                    t.append(["B", abi, conv, prof, ch])
    for abi in sorted(CONVS):
        t.append(["S", abi, "default", tier])
        t.append(["M", abi, "default", tier])
        t.append(["I", abi, "default", tier])
    for abi in sorted(CONVS):
        for conv in C_CONVS[abi]:
            for prof in ("default", "noalign"):
                t.append(["C", abi, conv, prof, 2])
                if tier == "thorough":
                    for first in range(len(CLASSES)):
                        t.append(["C3", abi, conv, prof, first])
    return t


def task_group(task):
    return "%s:%s" % (task[0], task[1])


def _cases(task):
    kind, abi, conv = task[:3]
    if kind == "A":
        wheres = ["nonleaf", "leaf"] + (["nofunc"] if task[3] == "thorough" else [])
        for prof in _profiles(abi):
            for where in wheres:
                for n in range(17):
                    yield {"abi": abi, "conv": conv, "profile": prof, "where": where, "args": [DEFAULT] * n}
    elif kind == "B":
        prof, ch = task[3], task[4]
        for n in B_CHUNKS[ch]:
            for pos in range(n):
                for c in CLASSES:
                    args = [DEFAULT] * n
                    args[pos] = c
                    yield {"abi": abi, "conv": conv, "profile": prof, "where": "nonleaf", "args": args}
    elif kind == "C":
        prof = task[3]
        yield {"abi": abi, "conv": conv, "profile": prof, "where": "nonleaf", "args": []}
        for a in CLASSES:
            yield {"abi": abi, "conv": conv, "profile": prof, "where": "nonleaf", "args": [a]}
        for a in CLASSES:
            for b in CLASSES:
                yield {"abi": abi, "conv": conv, "profile": prof, "where": "nonleaf", "args": [a, b]}
    elif kind == "S":
        # ONE CallPatch object inserted at several places: every argument callable must be asked again, with that place's context
        lists = [["leaf", "nonleaf"], ["nonleaf", "leaf"], ["nonleaf", "nonleaf"], ["leaf", "nofunc", "nonleaf"], ["tail", "leaf"]]
        nregs = len(_conv_of({"abi": abi, "conv": conv})["registers"])
        for sites in lists:
            for ev in range(len(sites)):
                for prof in ("default", "noalign"):
                    for n in sorted({1, 2, nregs + 1}):
                        for pos in range(n):
                            for c in ("fn-int", "fn-sym", "sym", "1"):
                                args = [DEFAULT] * n
                                args[pos] = c
                                yield {"abi": abi, "conv": conv, "profile": prof, "where": sites[ev], "sites": sites, "eval": ev, "args": args}
                    yield {"abi": abi, "conv": conv, "profile": prof, "where": sites[ev], "sites": sites, "eval": ev, "args": ["fn-int", "fn-sym", "fn-int"]}
    elif kind == "M":
        # the default convention after someone mutated a description obtained from ABI.calling_convention()
        for pre in PRE_MUTATIONS:
            for prof in ("default", "noalign"):
                for n in (0, 1, 2, 4, 5, 7, 9):
                    yield {"abi": abi, "conv": conv, "profile": prof, "where": "nonleaf", "args": [DEFAULT] * n, "pre": pre}
    elif kind == "I":
        # the argument list handed over as something other than a list: the signature says Iterable, and a generator,
        # an iterator or a map object can be walked only once
        nregs = len(_conv_of({"abi": abi, "conv": conv})["registers"])
        for form in ARG_FORMS:
            for prof in ("default", "noalign"):
                for n in sorted({0, 1, 2, nregs, nregs + 1, nregs + 3}):
                    yield {"abi": abi, "conv": conv, "profile": prof, "where": "nonleaf", "args": [DEFAULT] * n, "argform": form}
                    for pos in sorted({0, n - 1}) if n else ():
                        for c in ("fn-int", "sym", "-1"):
                            args = [DEFAULT] * n
                            args[pos] = c
                            yield {"abi": abi, "conv": conv, "profile": prof, "where": "nonleaf", "args": args, "argform": form}
        # the same with an earlier modification of the very block (family J of the seeded changes)
        for prof in ("default", "noalign"):
            for n in (1, 2, nregs + 1):
                for c in ("fn-int", "fn-sym"):
                    for where in ("nonleaf", "leaf"):
                        args = [DEFAULT] * n
                        args[-1] = c
                        yield {"abi": abi, "conv": conv, "profile": prof, "where": where, "args": args, "pre_bytes": True}
    elif kind == "C3":
        prof, first = task[3], task[4]
        for b in CLASSES:
            for c in CLASSES:
                yield {"abi": abi, "conv": conv, "profile": prof, "where": "nonleaf", "args": [CLASSES[first], b, c]}
    else:
        raise ValueError(task)


# --------------------------------------------------------------------------- driving the real code
class RecordingCallPatch(CallPatch):
    """The real CallPatch; records the context and marks the start of its body."""

    seen = None
    asm = None
    only = None  # the block whose context/assembly is recorded

    def get_asm(self, insertion_context):
        asm = super().get_asm(insertion_context)
        if self.only is None or insertion_context.block is self.only:
            self.seen = insertion_context
            self.asm = asm
        return "nop\n" + asm


PRE_BYTES = {"x64": (b"\x90\x90\x90", "nop\nnop\nnop\n"), "ia32": (b"\x90\x90\x90", "nop\nnop\nnop\n"),
             "arm64": (bytes.fromhex("1f2003d5"), "nop\n"), "mips32": (bytes(4), "nop\n")}
ARG_FORMS = {
    "list": list,
    "tuple": tuple,
    "generator": lambda a: (x for x in a),
    "iterator": iter,
    "map": lambda a: map(lambda x: x, a),
}


def _arg_symbol(pos, site=0):
    return "esym" if (pos + site) % 2 == 0 else "dsym"


def _sites(case):
    """the blocks ONE patch object is inserted at (in insertion order) and the index of the one that is evaluated"""
    return case.get("sites") or [case["where"]], case.get("eval", 0)


def _pos_value(pos):
    return 0x21 + pos


def _build_args(world, classes, calls, site_of=lambda ctx: 0):
    out = []
    for pos, c in enumerate(classes):
        if c == DEFAULT:
            out.append(_pos_value(pos))
        elif c in INTS:
            out.append(INTS[c])
        elif c == "sym":
            out.append(world.syms[_arg_symbol(pos)])
        elif c in ("fn-int", "fn-sym"):
            def fn(ctx, _pos=pos, _c=c):
                calls.append((_pos, ctx))
                site = site_of(ctx)  # the value depends on where the patch is being inserted
                return (0x4100 + _pos + 0x20 * site) if _c == "fn-int" else world.syms[_arg_symbol(_pos, site)]

            out.append(fn)
        else:
            raise ValueError(c)
    return out


class Generated:
    pass


def _generate(case):
    """Build and apply one CallPatch; returns a Generated or raises what the library raised
    (with .phase set to 'construct' or 'apply')."""
    abi = case["abi"]
    world = World(abi, n_each=max(1, max(case.get("sites", ["x"]).count(w_) for w_ in set(case.get("sites", ["x"])))), with_arg_symbols=True)
    cdesc = CONVS[abi][case["conv"]]
    conv = None if cdesc is None else CallingConventionDesc(
        registers=tuple(cdesc["registers"]), stack_alignment=cdesc["stack_alignment"],
        caller_cleanup=cdesc["caller_cleanup"], shadow_space=cdesc["shadow_space"],
    )
    if case.get("pre"):
        # somebody took the ABI's default description earlier in this process and adapted it for a callee of their own
        # ("take the default and tweak a field"): the default used by later patches must not have moved
        from gtirb_rewriting.abi import ABI as _LibABI

        d = _LibABI.get(world.m).calling_convention()
        field, value = PRE_MUTATIONS[case["pre"]]
        setattr(d, field, value)
    calls = []
    sites, ev = _sites(case)
    site_blocks = []
    used = {}
    for wname in sites:
        site_blocks.append(world.blocks[wname][used.get(wname, 0)])
        used[wname] = used.get(wname, 0) + 1
    args = _build_args(world, case["args"], calls, lambda ctx: next((i for i, b in enumerate(site_blocks) if b is ctx.block), -1))
    args = ARG_FORMS[case.get("argform", "list")](args)
    try:
        patch = RecordingCallPatch(world.syms["foo"], args, conv, **_profile_kwargs(abi, case["profile"]))
    except Exception as e:
        e.phase = "construct"
        raise
    block = site_blocks[ev]
    patch.only = block
    pre = b""
    if case.get("pre_bytes"):
        # an earlier modification of the same block (raw bytes at the same offset, registered first): the block the
        # CallPatch finally lands in and its offset there are no longer the registered ones
        from gtirb_rewriting import Constraints, Patch

        pre, pre_text = PRE_BYTES[_isa(abi)]
        pre_patch = Patch.from_function(lambda ctx_: pre_text, Constraints())
        for b in site_blocks:
            world.ctx.insert_at(b, 0, pre_patch)
    for b in site_blocks:
        world.ctx.insert_at(b, 0, patch)
    try:
        world.ctx.apply()
    except (HarnessError, mach.MachineError):
        raise
    except Exception as e:
        e.phase = "apply"
        raise
    g = Generated()
    g.code, g.relocs = world.inserted(block)
    if pre:
        if not g.code.startswith(pre):
            raise HarnessError("earlier insertion is not in front of the CallPatch: %s" % g.code.hex())
        g.code = g.code[len(pre):]
        g.relocs = {off - len(pre): v for off, v in g.relocs.items()}
    g.reported = patch.seen.stack_adjustment
    g.asm = patch.asm
    g.callable_ok = all(
        isinstance(ctx, InsertionContext) and ctx.module is world.m and ctx.block is patch.seen.block
        and ctx.block is block and ctx.offset == 0  # the registered (original) block and offset
        and ctx.stack_adjustment == patch.seen.stack_adjustment
        for _, ctx in calls if ctx.block is block
    )
    g.callable_positions = sorted(p for p, ctx in calls if ctx.block is block)
    g.align_stack = patch.constraints.align_stack
    return g


# --------------------------------------------------------------------------- oracle
def _conv_of(case):
    return CONVS[case["abi"]][case["conv"]] or DEFAULT_CONV[case["abi"]]


def _int_category(v):
    if 0 <= v <= 0xFFFF:
        return "pos16"
    if -0xFFFF <= v < 0:
        return "neg16"
    if -(2 ** 31) <= v < 2 ** 31:
        return "simm32"
    if 2 ** 31 <= v < 2 ** 32:
        return "uimm32"
    if -(2 ** 63) <= v < 2 ** 63:
        return "simm64"
    return "uimm64"


def _class_category(c, pos):
    if c == DEFAULT:
        return _int_category(_pos_value(pos))
    if c in INTS:
        return _int_category(INTS[c])
    if c == "fn-int":
        return "fn:" + _int_category(0x4100 + pos)
    return {"sym": "sym", "fn-sym": "fn:sym"}[c]


def _fits(v, width):
    return -(2 ** (width - 1)) <= v < 2 ** width


SYM_ADDR64 = {"foo": 0x5A5A00100128, "esym": 0x5A5A00211168, "dsym": 0x5A5A003221A8}
SYM_ADDR32 = {"foo": 0x08041128, "esym": 0x08052168, "dsym": 0x080631A8}
SYM_CONTENT = {"esym": 0x00C0FFEE0E5E0E5E, "dsym": 0x00C0FFEE0D5D0D5D}


def _expected(case):
    """[(kind, value)] per argument; kind 'int' | 'int-unfit' | 'sym'."""
    A = ABIS[case["abi"]]
    width = A["ptr"] * 8
    mask = (1 << width) - 1
    addrs = SYM_ADDR64 if width == 64 else SYM_ADDR32
    out = []
    site = _sites(case)[1]
    for pos, c in enumerate(case["args"]):
        if c in ("sym", "fn-sym"):
            sn = _arg_symbol(pos, site if c == "fn-sym" else 0)
            out.append(("sym", addrs[sn], sn))
            continue
        v = _pos_value(pos) if c == DEFAULT else (0x4100 + pos + 0x20 * site if c == "fn-int" else INTS[c])
        out.append(("int" if _fits(v, width) else "int-unfit", v & mask, None))
    return out


def _place(case, pos):
    return "reg" if pos < len(_conv_of(case)["registers"]) else "stack"


def _starts(A):
    base = 0x7FFD80000000 if A["ptr"] == 8 else 0x7FFD8000
    step = 16 if A["machine"] == "arm64" else A["ptr"]
    return [base + k for k in range(0, 32, step)]


def _raises(case):
    try:
        _generate(case)
    except (HarnessError, mach.MachineError):
        raise
    except Exception as e:
        return e
    return None


def _exception_diffs(case, exc):
    """Attribute an exception to argument positions by re-running the case with every other
    argument replaced by the default small integer."""
    abi = case["abi"]
    cdesc = _conv_of(case)
    name = type(exc).__name__
    phase = getattr(exc, "phase", "?")
    if (
        phase == "construct" and isinstance(exc, ValueError) and _isa(abi) == "arm64"
        and (cdesc["shadow_space"] or cdesc["stack_alignment"] != 16 or not cdesc["caller_cleanup"])
    ):
        return [], "accepted:unsupported-convention"
    exp = _expected(case)
    nondefault = [i for i, c in enumerate(case["args"]) if c != DEFAULT]
    culprits = []
    if len(nondefault) == 1:
        culprits = nondefault
    else:
        for i in nondefault:
            sub = dict(case)
            sub["args"] = [c if j == i else DEFAULT for j, c in enumerate(case["args"])]
            e2 = _raises(sub)
            if e2 is not None and type(e2) is type(exc):
                culprits.append(i)
    if culprits and all(exp[i][0] == "int-unfit" for i in culprits):
        return [], "accepted:integer-does-not-fit-slot"
    diffs = []
    for i in culprits:
        if exp[i][0] == "int-unfit":
            continue
        diffs.append(D("call-exception", r_isa=_isa(abi), r_exc=name, r_phase=phase, r_place=_place(case, i),
                       r_class=_class_category(case["args"][i], i), position=i, message=str(exc)[:100]))
    if not culprits:
        diffs.append(D("call-exception", r_isa=_isa(abi), r_exc=name, r_phase=phase, r_place="-", r_class="no-single-argument",
                       message=str(exc)[:100]))
    return diffs, "discrepancy:" + name


def _run_one(case, g, m, sp0):
    A = ABIS[case["abi"]]
    cdesc = _conv_of(case)
    isa = _isa(case["abi"])
    ptr = A["ptr"]
    init = mach.sentinels(m)
    init[A["sp"]] = sp0
    m.reset(init, FLAGS0)
    exp = _expected(case)
    nreg = min(len(cdesc["registers"]), len(exp))
    nstack = len(exp) - nreg
    argbytes = nstack * ptr
    shadow = cdesc["shadow_space"]
    at = {}

    def body(mm):
        at["body_sp"] = mm.regs[A["sp"]]

    def call(mm, target):
        sp = mm.regs[A["sp"]]
        at["call_sp"] = sp
        at["target"] = target
        at["regs"] = dict(mm.regs)
        at["stack"] = [mm.peek(sp + shadow + j * ptr, ptr) for j in range(nstack)]
        # the callee runs
        for k, r in enumerate(A["caller_saved"]):
            if r in mm.regs:
                mm.regs[r] = (0x0BADBAD0 + k) & mm.mask
        mm.dirty_flags()
        mm.body_write((sp - CALLEE_FRAME) & mm.mask, CALLEE_FRAME + shadow + argbytes)
        if not cdesc["caller_cleanup"]:
            mm.regs[A["sp"]] = (sp + argbytes) & mm.mask

    m.run(on_marker=body, on_call=call)
    if m.markers != 1:
        raise mach.MachineError("body marker executed %d times" % m.markers)
    diffs = []
    if m.calls != 1:
        diffs.append(D("call-count", r_isa=isa, calls=m.calls))
        return diffs, "no-call"
    addrs = SYM_ADDR64 if ptr == 8 else SYM_ADDR32
    if at["target"] != addrs["foo"]:
        diffs.append(D("call-target-wrong", r_isa=isa, got=at["target"]))
    for i, (kind, want, symname) in enumerate(exp):
        if i < nreg:
            got, written = at["regs"][cdesc["registers"][i].lower()], True
        else:
            got, written = at["stack"][i - nreg]
        if kind == "int-unfit":
            continue  # accepted modulo 2^width, and that is what `want` is; anything else is wrong
        if got != want or not written:
            if symname and got == SYM_CONTENT[symname] & m.mask:
                how = "symbol-contents"
            elif not written:
                how = "slot-not-written"
            else:
                how = "other"
            diffs.append(D("arg-value-mismatch", r_isa=isa, r_place=_place(case, i), r_class=_class_category(case["args"][i], i),
                           r_got=how, position=i, want=want, got=got))
    for i, (kind, want, symname) in enumerate(exp):
        if kind != "int-unfit":
            continue
        got = at["regs"][cdesc["registers"][i].lower()] if i < nreg else at["stack"][i - nreg][0]
        if got != want:
            diffs.append(D("arg-value-mismatch", r_isa=isa, r_place=_place(case, i), r_class="unfit:" + _class_category(case["args"][i], i),
                           r_got="other", position=i, want=want, got=got))
    align = cdesc["stack_alignment"]
    premise = (at["body_sp"] + (g.reported or 0)) % align == 0
    outcome = "aligned-premise" if premise else "premise-unmet"
    if premise and at["call_sp"] % align:
        diffs.append(D("call-sp-misaligned", r_isa=isa, r_align_stack=bool(g.align_stack),
                       r_shadow_multiple_of_alignment=(shadow % align == 0), sp_mod=at["call_sp"] % align,
                       alignment=align, reported=g.reported, nstack=nstack))
    stale = [(i, a - sp0, sz, o) for i, a, sz, o in m.reads if o != "code"]
    if stale and m.regs[A["sp"]] == sp0:  # with a wrong final SP the stale reads are a consequence, not a second defect
        # shadow space, stack arguments and everything below SP belong to the callee during the call
        diffs.append(D("read-of-slot-owned-by-callee", r_isa=isa, r_origin=stale[0][3], reads=stale[:3], insn=m.prog[stale[0][0]].text))
    if m.regs[A["sp"]] != sp0:
        diffs.append(D("sp-not-restored", r_isa=isa, r_cleanup="caller" if cdesc["caller_cleanup"] else "callee",
                       delta=m.regs[A["sp"]] - sp0))
    return diffs, outcome


def _merge(found):
    out = {}
    for sp_mod, d in found:
        sig = d["kind"] + "|" + "|".join("%s=%s" % (k, d[k]) for k in sorted(d) if k.startswith("r_")) + "|%s" % d.get("position")
        if sig not in out:
            out[sig] = dict(d)
            out[sig]["initial_sp_mod32"] = []
        out[sig]["initial_sp_mod32"].append(sp_mod)
    return [out[k] for k in sorted(out)]


def _evaluate(case, res=None):
    A = ABIS[case["abi"]]
    starts = _starts(A)
    try:
        g = _generate(case)
    except (HarnessError, mach.MachineError):
        raise
    except Exception as exc:
        diffs, outcome = _exception_diffs(case, exc)
        if res is not None:
            for sp0 in starts:
                res.case([case, sp0 % 32], nontrivial=False, outcome=outcome)
        return diffs, None
    symaddr = SYM_ADDR64 if A["ptr"] == 8 else SYM_ADDR32
    ext = {symaddr[s]: (SYM_CONTENT[s] & ((1 << (8 * A["ptr"])) - 1), A["ptr"]) for s in SYM_CONTENT}
    m = mach.make(A["machine"], g.code, relocs=g.relocs, symaddr=symaddr, ext=ext)
    found = []
    want_callables = [i for i, c in enumerate(case["args"]) if c.startswith("fn-")]
    if g.callable_positions != want_callables or not g.callable_ok:
        found.append((None, D("callable-not-given-the-insertion-context", r_isa=_isa(case["abi"]),
                              invoked=g.callable_positions, expected=want_callables)))
    for sp0 in starts:
        diffs, outcome = _run_one(case, g, m, sp0)
        found.extend((sp0 % 32, d) for d in diffs)
        if res is not None:
            res.case([case, sp0 % 32], nontrivial=True,
                     outcome=("discrepancy " if diffs else "ok ") + outcome + (" adj=None" if g.reported is None else " adj=known"))
    return _merge(found), g


def run_task(task):
    quiet()
    res = TaskResult()
    for case in _cases(task):
        diffs, g = _evaluate(case, res)
        if diffs:
            res.bad(case, diffs)
        elif g is not None and len(res.samples) < 1:
            res.sample({"case": case, "asm": g.asm.split("\n"), "stack_adjustment": g.reported}, cap=1)
    return res


def replay(case):
    quiet()
    return _evaluate(case, None)[0]
