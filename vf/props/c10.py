"""
C10  No-op rewrites are the identity; split/join round-trips; alignment.

Engine A: every byte interval layout of a small universe through
          split_byte_interval / join_byte_intervals.
Engine B: apply() with no modifications on every module shape of the other
          listing-world properties and on interval layouts wrapped in a module.
Engine C: alignment requirements after non-empty rewrites.
"""
import itertools

import gtirb
from gtirb_test_helpers import add_symbol, add_text_section, create_test_module

from ..core import TaskResult
from ..world import canon
from ..world import compare as C
from ..world import listing as Lg
from ..world import scen

PROPERTY = "C10"
LEVEL = "exploration"
RULE = (
    "A: all byte intervals of size <= S with <= 3 blocks (every (offset,size) incl. zero-sized, overlapping, gaps), "
    "initialized size in {0..S}, one annotation (symbolic expression + offset-table entry) at any offset, alignment "
    "table absent / on one block, nop size 1 and 4, default and custom table/nop arguments -> split then join; "
    "B: apply() with no modifications on every module shape of C01/C02/C03/C06/C08 and on the A layouts wrapped in a "
    "module; C: modules with alignment entries x single modifications (and patches carrying .align). A case is one "
    "split+join / one apply(); non-trivial = more than one block group / the module has >1 block / a modification "
    "moves an aligned block; distinct by layout or (shape, mods); D: one module through every history of <= H events "
    "{empty apply, split+join, annotate an offset, tables replaced by fresh AuxData objects, tables dropped} from tables "
    "absent / empty / populated: annotations read back by absolute address after every event"
)
ASSUMPTIONS = [
    "which group a zero-sized block sitting exactly on the boundary between two groups joins is unspecified (it depends on set order); both are accepted",
    "placement across original byte intervals is gtirb_layout's job; alignment is asserted for blocks inside one original interval",
    "alignment entries of the generated modules hold on input (the statement says 'that held before')",
    "a function inserted with register_insert_function makes gtirb_layout place every byte interval anew; it is exercised on its own (not combined with other modifications) and only its own alignment requirement is asserted",
]
BOUNDS = {"quick": {"interval_size": 4, "blocks": 3}, "thorough": {"interval_size": 6, "blocks": 3}}
CAP_S = {"quick": 400, "thorough": 2400}

from gtirb_rewriting._adt import OffsetMapping  # noqa: E402
from gtirb_rewriting.intervalutils import PaddingError, join_byte_intervals, split_byte_interval  # noqa: E402

NOPS = {1: b"\x90", 4: b"\x1f\x20\x03\xd5"}


# =============================================================================== engine A
def build_interval(case):
    size, init, blks, kinds, ann, align, nopsz = case["size"], case["init"], case["blocks"], case["kinds"], case["ann"], case["align"], case["nop"]
    bi = gtirb.ByteInterval(address=0x1000, size=size, contents=bytes(range(0x10, 0x10 + init)), initialized_size=init)
    bl = []
    for (o, s), k in zip(blks, kinds):
        b = (gtirb.CodeBlock if k == "c" else gtirb.DataBlock)(offset=o, size=s)
        b.byte_interval = bi
        bl.append(b)
    tbl = OffsetMapping()
    sym = gtirb.Symbol("x")
    if ann is not None:
        bi.symbolic_expressions[ann] = gtirb.SymAddrConst(0, sym)
        tbl[gtirb.Offset(bi, ann)] = "note"
    al = None
    if align is not None:
        al = {bl[align[0]]: align[1]}
    return bi, bl, tbl, al


def snap_blocks(bis):
    out = []
    for bi in bis:
        for b in bi.blocks:
            a = bi.address + b.offset
            c = bytes(bi.contents)[b.offset : b.offset + b.size]
            out.append((a, b.size, type(b).__name__, c, id(b)))
    return sorted(out)


def groups_of(blks):
    """reference grouping of overlapping blocks; zero-sized blocks on a boundary are flexible"""
    idx = sorted(range(len(blks)), key=lambda i: (blks[i][0], -blks[i][1]))
    groups = []
    for i in idx:
        o, s = blks[i]
        if groups and (o < groups[-1]["end"]):
            groups[-1]["end"] = max(groups[-1]["end"], o + s)
            groups[-1]["members"].append(i)
        else:
            groups.append({"begin": o, "end": o + s, "members": [i]})
    return groups


def check_interval(case):
    diffs = []
    bi, bl, tbl, al = build_interval(case)
    size, init = case["size"], case["init"]
    before = snap_blocks([bi])
    before_bytes = bytes(bi.contents)
    before_layout = sorted((b.offset, b.size, type(b).__name__) for b in bi.blocks)
    roles = {"r_init": "full" if init == size else ("none" if init == 0 else "partial"), "r_align": case["align"] is not None, "r_nop": case["nop"]}
    try:
        parts = split_byte_interval(bi, al, [tbl])
    except Exception as e:
        return "split-raised", [C.D("split-raised", r_exc=type(e).__name__, msg=str(e)[:80], **roles)]
    after = snap_blocks(parts)
    if [x[:3] + x[4:] for x in before] != [x[:3] + x[4:] for x in after]:
        diffs.append(C.D("split-moved-or-resized-block", **roles))
    if [x[3] for x in before] != [x[3] for x in after]:
        diffs.append(C.D("split-changed-block-bytes", **roles))
    if sum(p.size for p in parts) != size:
        diffs.append(C.D("split-size-not-conserved", **roles))
    if parts[0] is not bi:
        diffs.append(C.D("split-first-interval-is-not-the-original", **roles))
    # grouping: two non-empty blocks share an interval iff they are in one overlap group
    where = {id(b): p for p in parts for b in p.blocks}
    solid = [i for i, (o, sz) in enumerate(case["blocks"]) if sz > 0]
    gs = groups_of([case["blocks"][i] for i in solid])
    gid = {}
    for gi, g in enumerate(gs):
        for m_ in g["members"]:
            gid[solid[m_]] = gi
    for a, b in itertools.combinations(solid, 2):
        same = where[id(bl[a])] is where[id(bl[b])]
        if same != (gid[a] == gid[b]):
            diffs.append(C.D("split-grouping", r_rel="group-spread-over-intervals" if not same else "two-groups-in-one-interval", **roles))
    if case["ann"] is not None:
        sx = sorted(p.address + o for p in parts for o in p.symbolic_expressions)
        tb = sorted(k.element_id.address + k.displacement for k in tbl)
        if sx != [0x1000 + case["ann"]]:
            diffs.append(C.D("split-symexpr-moved", got=sx, **roles))
        if tb != [0x1000 + case["ann"]]:
            diffs.append(C.D("split-table-entry-moved", got=tb, **roles))
        # ... and stay inside the interval that now holds the byte they annotate (the last interval
        # also owns trailing positions)
        for pi, p_ in enumerate(parts):
            last = pi == len(parts) - 1
            for o in list(p_.symbolic_expressions) + [k.displacement for k in tbl if k.element_id is p_]:
                if o < 0 or (o >= p_.size and not (last or p_.size == 0 and o == 0)):
                    diffs.append(C.D("split-annotation-outside-its-interval", off=o, size=p_.size, **roles))
    if diffs:
        return "split-diff", diffs
    # ---- join
    pre = []
    for p in parts:
        pre.append({"c": bytes(p.contents), "size": p.size, "blocks": [(b, b.offset) for b in p.blocks],
                    "sx": sorted(p.symbolic_expressions), "tb": sorted(k.displacement for k in tbl if k.element_id is p)})
    nop = NOPS[case["nop"]]
    kw = {}
    if case.get("custom"):
        kw = {"nop_encodings": {gtirb.CodeBlock.DecodeMode.Default: nop}}
        nop_arg = b"\xcc"  # must be superseded by nop_encodings
    else:
        nop_arg = nop
    need_padding = init != size or case["align"] is not None
    try:
        j = join_byte_intervals(parts, nop_arg, al if al is not None else {}, [tbl], **kw)
    except PaddingError:
        if not need_padding or len(nop) == 1:
            return "join-paddingerror", [C.D("join-spurious-paddingerror", **roles)]
        return "join-paddingerror-ok", []
    except Exception as e:
        return "join-raised", [C.D("join-raised", r_exc=type(e).__name__, msg=str(e)[:80], **roles)]
    if j is not bi:
        diffs.append(C.D("join-result-is-not-the-first-interval", **roles))
    res = bytes(bi.contents)
    if len(parts) == 1:
        # nothing to join: must be untouched
        if res != before_bytes or sorted((b.offset, b.size, type(b).__name__) for b in bi.blocks) != before_layout:
            diffs.append(C.D("join-single-interval-changed", **roles))
        return ("ok" if not diffs else "join-diff"), diffs
    # the joined contents are c_0 R_1 c_1 R_2 ... where every R_i is padding
    cover = [False] * len(res)
    for b in bi.blocks:
        for o in range(b.offset, min(b.offset + b.size, len(res))):
            cover[o] = True
    cursor = 0
    last_kind = None
    for pi, p in enumerate(pre):
        if p["blocks"]:
            blk, old = p["blocks"][0]
            start = blk.offset - old
        else:
            start = cursor
        if pi == 0 and start != 0:
            diffs.append(C.D("join-first-part-moved", **roles))
        run = res[cursor:start]
        if start < cursor:
            diffs.append(C.D("join-parts-overlap", **roles))
            break
        if run:
            if last_kind == "c":
                if len(run) % len(nop) or run != nop * (len(run) // len(nop)):
                    diffs.append(C.D("join-padding-not-whole-nops", run=run.hex(), **roles))
            elif run.strip(b"\x00"):
                diffs.append(C.D("join-padding-not-zero", run=run.hex(), **roles))
            # the first bytes of the run only make formerly uninitialized bytes explicit; what comes
            # after them was added for alignment and has to be covered by a block
            fill = max(pre[pi - 1]["size"] - len(pre[pi - 1]["c"]), 0) if pi > 0 else 0
            # earlier parts may have been uninitialized as a whole as well
            fill = max(fill, sum(max(q["size"] - len(q["c"]), 0) for q in pre[:pi]))
            if not all(cover[min(cursor + fill, start):start]):
                diffs.append(C.D("join-padding-not-covered-by-a-block", **roles))
            if not need_padding:
                diffs.append(C.D("join-padding-without-need", **roles))
        if res[start : start + len(p["c"])] != p["c"]:
            diffs.append(C.D("join-part-bytes-changed", part=pi, **roles))
        for blk, old in p["blocks"]:
            if blk.offset - old != start or blk.byte_interval is not bi:
                diffs.append(C.D("join-block-displaced-within-part", **roles))
        exp_sx = sorted(start + o for o in p["sx"])
        cursor = start + len(p["c"])
        kinds = [type(b).__name__ for b, _ in sorted(p["blocks"], key=lambda x: x[1])]
        if p["blocks"]:
            lb = max(p["blocks"], key=lambda x: x[1])[0]
            last_kind = "c" if isinstance(lb, gtirb.CodeBlock) else "d"
    # annotations travel with their part
    want_sx = sorted((pre[i]["blocks"][0][0].offset - pre[i]["blocks"][0][1] if pre[i]["blocks"] else 0) + o for i in range(len(pre)) for o in pre[i]["sx"])
    if sorted(bi.symbolic_expressions) != want_sx:
        diffs.append(C.D("join-symexpr-misplaced", got=sorted(bi.symbolic_expressions), want=want_sx, **roles))
    want_tb = sorted((pre[i]["blocks"][0][0].offset - pre[i]["blocks"][0][1] if pre[i]["blocks"] else 0) + o for i in range(len(pre)) for o in pre[i]["tb"])
    got_tb = sorted(k.displacement for k in tbl if k.element_id is bi)
    if got_tb != want_tb or len(tbl) != len(want_tb):
        diffs.append(C.D("join-table-entry-misplaced", got=got_tb, want=want_tb, **roles))
    if bi.initialized_size != len(res) or len(res) > bi.size:
        diffs.append(C.D("join-initialized-size-inconsistent", **roles))
    if case["align"] is not None:
        blk = bl[case["align"][0]]
        if where[id(blk)] is not parts[0] or True:
            first_aligned = min((b for b, _ in next(p for p in pre if any(b is blk for b, _ in p["blocks"]))["blocks"] if b is blk), key=lambda b: b.offset)
            if pre[0]["blocks"] and not any(b is blk for b, _ in pre[0]["blocks"]) and (bi.address + blk.offset) % case["align"][1]:
                diffs.append(C.D("join-aligned-block-misaligned", **roles))
    if not need_padding:
        if res != before_bytes or bi.size != size or sorted((b.offset, b.size, type(b).__name__) for b in bi.blocks) != before_layout:
            diffs.append(C.D("join-does-not-restore-interval", **roles))
    return ("ok" if not diffs else "join-diff"), diffs


def interval_cases(size, first_pair):
    pairs = [(o, s) for o in range(size + 1) for s in range(size + 1 - o)]
    for nb in (1, 2, 3):
        for blks in itertools.combinations(pairs, nb):
            if blks[0] != first_pair:
                continue
            kind_sets = [("c",) * nb, ("d",) * nb] if nb < 3 else [("c", "d", "c"), ("c", "c", "c")]
            for kinds in kind_sets:
                for init in sorted({size, size // 2, 0}):
                    for ann in [None] + list(range(size)):
                        if ann is not None and init != size and ann >= init and nb > 1:
                            continue
                        aligns = [None] + ([(nb - 1, 2), (nb - 1, 4)] if ann is None else [])
                        for align in aligns:
                            for nop in (1, 4):
                                if nop == 4 and align is None and init == size:
                                    continue
                                yield {"size": size, "init": init, "blocks": [list(b) for b in blks], "kinds": list(kinds), "ann": ann, "align": list(align) if align else None, "nop": nop, "custom": bool(align) and nop == 1}


# =============================================================================== engine B
def shapes_for_empty_apply():
    from . import c01, c02, c03, c06, c08

    out = []
    for combo in c01.shapes("x64-elf"):
        for part in ("one", "each"):
            out.append(("c01", c01.make_spec("x64-elf", list(combo), part)))
    for target in ("x64-pe", "ia32-pe", "arm64-elf", "mips32-elf"):
        for combo in c01.shapes(target)[:12]:
            out.append(("c01-" + target, c01.make_spec(target, list(combo), "one")))
    for kinds in c02.KINDS:
        for fi in range(len(c02.FUNCS)):
            for labs in c02.LABELS:
                out.append(("c02", c02.make_spec(kinds, c02.FUNCS[fi], labs)))
    for term in c03.TERMS:
        for follow in c03.FOLLOW:
            if term == "jccnext" and follow not in ("same", "other"):
                continue
            for callers in (0, 1):
                for fn in (True, False):
                    out.append(("c03", c03.make_spec(term, follow, callers, fn)))
    for name in c06.LAYOUTS:
        out.append(("c06", c06.make_spec(name)))
    for name, spec in c08.MODULES.items():
        out.append(("c08", spec))
    return out


def empty_apply_spec(spec):
    from gtirb_rewriting import RewritingContext

    w = Lg.build(spec)
    a = canon.dump(w.ir)
    try:
        RewritingContext(w.m, w.funcs).apply()
    except Exception as e:
        return [C.D("empty-apply-raised", r_exc=type(e).__name__, msg=str(e)[:100])]
    b = canon.dump(w.ir)
    d = canon.diff(a, b)
    if d:
        return [C.D("empty-apply-changed-module", r_what=d[0].split(":")[0].split("/")[-1][:30], detail=d[:4])]
    return []


def empty_apply_layout(case):
    """an A layout wrapped in a module"""
    from gtirb_rewriting import RewritingContext

    ir, m = create_test_module(gtirb.Module.FileFormat.ELF, gtirb.Module.ISA.X64)
    s, bi = add_text_section(m, 0x1000)
    size, init = case["size"], case["init"]
    bi.size = size
    bi.contents = bytes([0x90] * init)
    bi.initialized_size = init
    bs = []
    for (o, sz), k in zip(case["blocks"], case["kinds"]):
        b = (gtirb.CodeBlock if k == "c" else gtirb.DataBlock)(offset=o, size=sz)
        b.byte_interval = bi
        bs.append(b)
        add_symbol(m, "s%d" % len(bs), b)
    if case["ann"] is not None:
        bi.symbolic_expressions[case["ann"]] = gtirb.SymAddrConst(0, m_sym(m))
        m.aux_data["comments"].data[gtirb.Offset(bi, case["ann"])] = "note"
        m.aux_data["symbolicExpressionSizes"].data[gtirb.Offset(bi, case["ann"])] = 1
    a = canon.dump(ir)
    orig_blocks = sorted((b.offset, b.size, type(b).__name__) for b in bi.blocks)
    try:
        RewritingContext(m, []).apply()
    except Exception as e:
        return [C.D("empty-apply-raised", r_exc=type(e).__name__, msg=str(e)[:100], r_init="full" if init == size else "partial")]
    b = canon.dump(ir)
    if init == size:
        d = canon.diff(a, b)
        if d:
            return [C.D("empty-apply-changed-module", r_what=d[0].split(":")[0].split("/")[-1][:30], detail=d[:4], r_init="full")]
        return []
    # uninitialized bytes: only the documented conversion to explicit padding is allowed
    diffs = []
    now = sorted((x.offset, x.size, type(x).__name__) for x in bi.blocks)
    for x in orig_blocks:
        if x not in now:
            diffs.append(C.D("empty-apply-lost-or-moved-block", r_init="partial"))
    extra = [x for x in now if x not in orig_blocks]
    for o, sz, ty in extra:
        # a new block is only explained by the documented conversion: it has to cover at least one
        # formerly uninitialized byte (whether it also spans an older gap is left open by the statement)
        if o + sz <= init:
            diffs.append(C.D("empty-apply-new-block-over-initialized-bytes-only", r_init="partial"))
    if bi.size != size or bytes(bi.contents)[:init] != bytes([0x90] * init):
        diffs.append(C.D("empty-apply-changed-bytes", r_init="partial"))
    a2, b2 = dict(a["test"]), dict(b["test"])
    for k in ("symbols", "edges", "proxies"):
        if a2[k] != b2[k] and not extra:
            diffs.append(C.D("empty-apply-changed-module", r_what=k, r_init="partial"))
    return diffs


def m_sym(m):
    for s in m.symbols:
        return s
    return add_symbol(m, "x", None)


# =============================================================================== engine C
def aligned_specs():
    out = []
    for al in (4, 8, 16):
        for kinds in (("c", "c", "c"), ("c", "d", "c"), ("d", "c", "c")):
            for which in (1, 2):
                blocks = []
                for j, k in enumerate(kinds):
                    nm = scen.NAMES[j]
                    b = scen.code_block(nm, [10 * (j + 1), 10 * (j + 1) + 1], ["ret"] if j == 2 else None, f="f", e=(j == 0)) if k == "c" else scen.data_block(nm, [0xD0 + j, 0xE0 + j])
                    blocks.append(b)
                # make the input satisfy the requirement: pad the preceding block with ordinary instructions / data
                isa_ = Lg.isamod.TARGETS["x64-elf"][0]
                pos = sum(isa_.size(tuple(i)) for b in blocks[:which] for i in b["i"])
                padn = (-pos) % al
                prev = blocks[which - 1]
                t = 100
                while padn > 0:
                    if prev["k"] == "c":
                        # insert before a possible terminator
                        ins = ["o", t] if padn >= 2 else ["nop"]
                        idx = len(prev["i"]) - (1 if prev["i"] and prev["i"][-1][0] in ("ret", "jmp") else 0)
                        prev["i"].insert(idx, ins)
                        padn -= 2 if ins[0] == "o" else 1
                    else:
                        prev["i"].append(["d", t])
                        padn -= 1
                    t += 1
                blocks[which]["al"] = al
                out.append(scen.spec_of(blocks))
    # fixed-width ISAs: the padding is made of whole 4-byte nops whose bytes come from the reference table (vf/world/isa.py)
    for target in ("arm64-elf", "mips32-elf"):
        isa_ = Lg.isamod.TARGETS[target][0]
        for al in (8, 16):
            for which in (1, 2):
                blocks = []
                for j in range(3):
                    nm = scen.NAMES[j]
                    blocks.append(scen.code_block(nm, [10 * (j + 1), 10 * (j + 1) + 1], ["ret"] if j == 2 and target != "mips32-elf" else None, f="f", e=(j == 0)))
                pos = sum(isa_.size(tuple(i)) for b in blocks[:which] for i in b["i"])
                t = 100
                while pos % al:
                    blocks[which - 1]["i"].append(["o", t])
                    pos += isa_.size(("o", t))
                    t += 1
                blocks[which]["al"] = al
                out.append(scen.spec_of(blocks, target=target))
    # modules whose alignment table exists but is empty (or absent): only a patch brings a requirement in
    for kinds in (("c", "c", "c"), ("c", "d", "c")):
        for table in ("empty", "absent"):
            blocks = []
            for j, k in enumerate(kinds):
                nm = scen.NAMES[j]
                blocks.append(scen.code_block(nm, [10 * (j + 1)] + ([11] if j == 1 else []), ["ret"] if j == 2 else None, f="f", e=(j == 0)) if k == "c" else scen.data_block(nm, [0xD0 + j, 0xE0 + j, 0xF0 + j]))
            sp = scen.spec_of(blocks)
            sp["alignment_table"] = table
            out.append(sp)
    return out


P_ORD = [["p", 0]]
P_ALIGN = [["p", 0], ["raw", ".align 8"], ["p", 0]]
P_ALIGN_HEAD = [["raw", ".align 8"], ["p", 0]]
P_ALIGN4_HEAD = [["raw", ".align 4"], ["p", 0]]  # a weaker requirement than the one the block may already carry


def _align_at(mods):
    """where the `.align` directives of the patches sit: 'block-start' when each one opens a patch inserted at offset 0 of a
    block (the new block then opens its interval, the case join_byte_intervals handles), else 'inside'"""
    head = True
    for i, m in enumerate(mods):
        if m["op"] in ("ins", "rep") and isinstance(m["p"], list) and any(t[0] == "raw" for t in m["p"]):
            if not (m["p"][0][0] == "raw" and all(t[0] != "raw" for t in m["p"][1:]) and m["k"] == 0 and m["op"] == "ins"):
                head = False
            # ...and nothing registered earlier for the same place: that would come first and push the directive inside
            if any(o["op"] == "ins" and o["b"] == m["b"] and o["k"] == 0 for o in mods[:i]):
                head = False
    return "block-start" if head else "inside"


def check_alignment(spec, mods):
    from ..world.run import exc_diff, is_documented_refusal

    def prep(w_):
        if spec.get("alignment_table") == "absent":
            w_.m.aux_data.pop("alignment", None)
        elif spec.get("alignment_table") == "empty" and w_.m.aux_data["alignment"].data:
            raise AssertionError("harness: alignment table expected to be empty")

    w, exc = Lg.rewrite(spec, mods, prepare=prep)
    if exc is not None:
        return "raised", [exc_diff(spec, mods, exc)]
    diffs = []
    al = w.m.aux_data["alignment"].data if "alignment" in w.m.aux_data else {}
    aligned_pos = set()
    for node, a in al.items():
        if isinstance(node, gtirb.ByteBlock) and node.module is w.m:
            patch_added = node not in w.blocks.values()
            if node.address is None or node.address % a:
                diffs.append(C.D("aligned-block-misaligned", r_block="patch-added" if patch_added else "original", r_align_at=_align_at(mods) if patch_added else "-", alignment=a, address=node.address))
    # requirements that held before: the place an aligned input block started at (its label) is still aligned, whatever
    # the table says now
    gone = {}
    for m_ in mods:
        if m_["op"] == "del":
            gone[m_["b"]] = gone.get(m_["b"], 0) + m_["n"]
    for s_ in spec["sections"]:
        for b_ in s_["blocks"]:
            if b_.get("al") and gone.get(b_["n"], 0) < len(b_["i"]):
                sy = w.syms[b_["n"]]
                r = sy.referent
                if isinstance(r, gtirb.ByteBlock) and r.address is not None and (r.address + (r.size if sy.at_end else 0)) % b_["al"]:
                    diffs.append(C.D("input-alignment-no-longer-holds", r_align_at=_align_at(mods) if any(isinstance(x.get("p"), list) and any(t[0] == "raw" for t in x["p"]) for x in mods if x["op"] in ("ins", "rep")) else "-", block=b_["n"], alignment=b_["al"], address=r.address))
    # bytes: model bytes + only whole-nop / zero padding directly in front of aligned blocks
    mods_m = [m for m in mods]
    for m in mods_m:
        if m["op"] in ("ins", "rep", "newfunc") and isinstance(m["p"], list) and any(t[0] == "raw" for t in m["p"]):
            return ("ok" if not diffs else "diff"), diffs  # no reference expansion for .align patches: alignment only
    E, _ = Lg.expected(spec, mods)
    O = Lg.observe(w)
    for sn in E.bytes:
        e, o = E.bytes[sn], O.bytes.get(sn, b"")
        # positions (in e) where padding may be inserted: starts of aligned blocks
        starts = sorted(p for (s2, p) in E.align if s2 == sn)
        nop = Lg.isamod.TARGETS[spec["target"]][0].nop
        i = j = 0
        ok = True
        padded = 0
        while i < len(e) or j < len(o):
            if i in starts and j < len(o) and (i >= len(e) or o[j] != e[i] or True):
                # consume padding until the address is aligned: whole nops of this ISA (or zero bytes, after data)
                a = E.align[(sn, i)]
                base = Lg.SEC_BASE[sn]
                while (base + j) % a and j < len(o) and (o[j : j + len(nop)] == nop or (len(nop) == 1 and o[j] == 0x00)):
                    j += len(nop)
                    padded += len(nop)
                starts = [s3 for s3 in starts if s3 != i]
                continue
            if i < len(e) and j < len(o) and e[i] == o[j]:
                i += 1
                j += 1
            else:
                ok = False
                break
        if not ok:
            diffs.append(C.D("bytes-differ-beyond-alignment-padding", section=sn, expected=e.hex(), observed=o.hex()))
    return ("ok" if not diffs else "diff"), diffs


def align_atoms(spec):
    out = []
    for s in spec["sections"]:
        for b in s["blocks"]:
            n = len(b["i"])
            for k in range(n + 1):
                out.append({"op": "ins", "b": b["n"], "k": k, "p": P_ORD if b["k"] == "c" else {"bytes": [0]}})
                x64 = spec["target"].startswith("x64")  # (.align N means 2^N on the fixed-width targets)
                if x64 and b["k"] == "c" and k in (0, n):
                    out.append({"op": "ins", "b": b["n"], "k": k, "p": P_ALIGN})
                if x64 and b["k"] == "c" and k == 0:
                    out.append({"op": "ins", "b": b["n"], "k": k, "p": P_ALIGN_HEAD})
                    out.append({"op": "ins", "b": b["n"], "k": k, "p": P_ALIGN4_HEAD})
            for k in range(n):
                out.append({"op": "del", "b": b["n"], "k": k, "n": 1})
            if n > 1:
                out.append({"op": "del", "b": b["n"], "k": 0, "n": n})
    if spec["target"].startswith("x64"):
        # a whole new function whose text opens with an alignment requirement of its own
        out.append({"op": "newfunc", "name": "nfa16", "p": [["raw", ".align 16"], ["p", 0], ["ret"]]})
        out.append({"op": "newfunc", "name": "nfa4", "p": [["raw", ".align 4"], ["p", 0], ["p", 0], ["ret"]]})
    return out


# =============================================================================== engine D
# One Module object through a *history* of events: the module's offset tables appear, get populated, are replaced or
# vanish between two splits / two rewrites.  After every event all annotations, read back by absolute address, must
# be exactly the ones the plain model (a dict address -> value) holds, each keyed to an element that contains it.
HIST_EVENTS = ("E", "S", "A1", "A3", "N", "D")
HIST_INIT = ("absent", "empty", "populated")
HIST_TABLES = (("comments", "mapping<Offset,string>"), ("symbolicExpressionSizes", "mapping<Offset,uint64_t>"))
HIST_DEPTH = {"quick": 4, "thorough": 6}


def _hist_module(init):
    ir, m = create_test_module(gtirb.Module.FileFormat.ELF, gtirb.Module.ISA.X64)
    s, bi = add_text_section(m, 0x1000)
    bi.contents = b"\x90" * 6
    bi.size = bi.initialized_size = 6
    for i, (o, sz) in enumerate([(0, 2), (2, 2), (4, 2)]):
        b = gtirb.CodeBlock(offset=o, size=sz)
        b.byte_interval = bi
        add_symbol(m, "s%d" % i, b)
    for name, _ in HIST_TABLES:
        m.aux_data.pop(name, None)
    model = {}
    if init != "absent":
        for name, ty in HIST_TABLES:
            m.aux_data[name] = gtirb.AuxData(type_name=ty, data={})
    if init == "populated":
        _hist_annotate(m, s, model, 5)
    return ir, m, s, model


def _hist_iv(sect, addr):
    for iv in sorted(sect.byte_intervals, key=lambda x: x.address):
        if iv.address <= addr < iv.address + iv.size:
            return iv
    raise KeyError(addr)


def _hist_annotate(m, sect, model, k):
    addr = 0x1000 + k
    iv = _hist_iv(sect, addr)
    off = addr - iv.address
    iv.symbolic_expressions[off] = gtirb.SymAddrConst(0, m_sym(m))
    for name, ty in HIST_TABLES:
        if name not in m.aux_data:
            m.aux_data[name] = gtirb.AuxData(type_name=ty, data={})
        m.aux_data[name].data[gtirb.Offset(iv, off)] = ("note%d" % k) if name == "comments" else 1
    model[addr] = k


def _hist_observe(m, sect, model, where):
    diffs = []
    ivs = set(sect.byte_intervals)
    want = {("symexpr", a) for a in model}
    for name, _ in HIST_TABLES:
        want |= {(name, a, ("note%d" % k) if name == "comments" else 1) for a, k in model.items()}
    got = set()
    for iv in ivs:
        for off in iv.symbolic_expressions:
            got.add(("symexpr", iv.address + off))
            if not 0 <= off < iv.size:
                diffs.append(C.D("history-expression-outside-its-interval", r_after=where, off=off, size=iv.size))
    for name, _ in HIST_TABLES:
        if name not in m.aux_data:
            continue
        for o, v in dict(m.aux_data[name].data).items():
            el = o.element_id
            if el not in ivs and getattr(el, "byte_interval", None) not in ivs:
                diffs.append(C.D("history-annotation-element-not-in-module", r_table=name, r_after=where))
                continue
            if not 0 <= o.displacement <= el.size:
                diffs.append(C.D("history-annotation-outside-its-element", r_table=name, r_after=where, disp=o.displacement, size=el.size))
            got.add((name, el.address + o.displacement, v))
    for x in sorted(want - got, key=str):
        diffs.append(C.D("history-annotation-lost-or-moved", r_what=x[0], r_after=where, addr=x[1]))
    for x in sorted(got - want, key=str):
        diffs.append(C.D("history-annotation-spurious", r_what=x[0], r_after=where, addr=x[1]))
    return diffs


def check_history(init, hist):
    from gtirb_rewriting import RewritingContext

    ir, m, sect, model = _hist_module(init)
    for step, ev in enumerate(hist):
        try:
            if ev == "E":
                RewritingContext(m, []).apply()
                diffs = _hist_observe(m, sect, model, "apply")
                if len(sect.byte_intervals) != 1:
                    diffs.append(C.D("history-apply-left-split-intervals", n=len(sect.byte_intervals)))
            elif ev == "S":
                (bi,) = sect.byte_intervals
                parts = split_byte_interval(bi)
                diffs = _hist_observe(m, sect, model, "split")
                if len(parts) != 3:
                    diffs.append(C.D("history-split-grouping", n=len(parts)))
                parts = sorted(parts, key=lambda x: x.address)
                join_byte_intervals(parts)
                for iv in parts[1:]:
                    iv.section = None  # as prepare_for_rewriting does
                diffs += _hist_observe(m, sect, model, "join")
                if len(sect.byte_intervals) != 1 or next(iter(sect.byte_intervals)).size != 6:
                    diffs.append(C.D("history-join-did-not-restore", n=len(sect.byte_intervals)))
            elif ev in ("A1", "A3"):
                _hist_annotate(m, sect, model, int(ev[1]))
                diffs = _hist_observe(m, sect, model, "annotate")
            elif ev == "N":
                # another tool rewrote the tables: fresh AuxData objects holding plain dicts with the same entries
                for name, ty in HIST_TABLES:
                    if name in m.aux_data:
                        m.aux_data[name] = gtirb.AuxData(type_name=ty, data=dict(m.aux_data[name].data))
                diffs = _hist_observe(m, sect, model, "replace")
            else:
                for name, _ in HIST_TABLES:
                    m.aux_data.pop(name, None)
                for iv in sect.byte_intervals:
                    iv.symbolic_expressions.clear()
                model.clear()
                diffs = []
        except Exception as e:
            return "raised", [C.D("history-raised", r_exc=type(e).__name__, r_event=ev, msg=str(e)[:100], step=step)]
        if diffs:
            for d in diffs:
                d["step"] = step
                d["r_event"] = ev
            return "diff:" + diffs[0]["kind"], diffs
    return "ok:%d" % len(model), []


# =============================================================================== runner glue
def tasks(tier):
    size = BOUNDS[tier]["interval_size"]
    pairs = [(o, s) for o in range(size + 1) for s in range(size + 1 - o)]
    t = [("interval", size, list(p)) for p in pairs]
    t += [("empty-spec", i) for i in range(0, len(shapes_for_empty_apply()), 40)]
    t += [("empty-layout", min(size, 4), list(p)) for p in [(o, s) for o in range(min(size, 4) + 1) for s in range(min(size, 4) + 1 - o)]]
    t += [("align", i) for i in range(len(aligned_specs()))]
    t += [("history", init, first, HIST_DEPTH[tier]) for init in HIST_INIT for first in HIST_EVENTS]
    return t


def task_group(task):
    return task[0]


def run_task(task):
    res = TaskResult()
    if task[0] == "interval":
        _, size, first = task
        for case in interval_cases(size, tuple(first)):
            outcome, diffs = check_interval(case)
            res.case(case, nontrivial=len(groups_of(case["blocks"])) > 1 or case["init"] != size or case["align"] is not None, outcome=outcome)
            if diffs:
                res.bad({"engine": "interval", "case": case}, diffs)
            if len(case["blocks"]) == 3:
                res.sample({"engine": "interval", "case": case}, cap=1)
    elif task[0] == "empty-spec":
        shapes = shapes_for_empty_apply()
        for i in range(task[1], min(task[1] + 40, len(shapes))):
            fam, spec = shapes[i]
            diffs = empty_apply_spec(spec)
            res.case(("spec", i), nontrivial=True, outcome="ok" if not diffs else diffs[0]["kind"])
            if diffs:
                res.bad({"engine": "empty-spec", "index": i, "family": fam}, diffs)
            res.sample({"engine": "empty-spec", "family": fam, "spec": spec}, cap=1)
    elif task[0] == "empty-layout":
        _, size, first = task
        for case in interval_cases(size, tuple(first)):
            if case["align"] is not None or case["nop"] != 1:
                continue
            diffs = empty_apply_layout(case)
            res.case(("layout", case), nontrivial=len(case["blocks"]) > 1, outcome="ok" if not diffs else diffs[0]["kind"])
            if diffs:
                res.bad({"engine": "empty-layout", "case": case}, diffs)
    elif task[0] == "align":
        spec = aligned_specs()[task[1]]
        atoms = align_atoms(spec)
        for mods in scen.mod_sets(spec, atoms, 2 if spec["target"].startswith("x64") and not spec.get("alignment_table") else 1):
            if len(mods) > 1 and any(m_["op"] == "newfunc" for m_ in mods):
                continue  # an inserted function makes gtirb_layout place every interval anew (ASSUMPTIONS): on its own only
            mods = scen.retag(mods)
            outcome, diffs = check_alignment(spec, mods)
            res.case(("align", task[1], mods), nontrivial=bool(mods), outcome=outcome)
            if diffs:
                res.bad({"engine": "align", "index": task[1], "mods": mods}, diffs)
            res.sample({"engine": "align", "spec": spec, "mods": mods}, cap=1)
    elif task[0] == "history":
        _, init, first, depth = task
        for n in range(0, depth):
            for rest in itertools.product(HIST_EVENTS, repeat=n):
                hist = [first] + list(rest)
                outcome, diffs = check_history(init, hist)
                res.case(("history", init, hist), nontrivial=sum(1 for e in hist if e in ("E", "S")) > 0 and any(e[0] == "A" for e in hist), outcome=outcome)
                if diffs:
                    res.bad({"engine": "history", "init": init, "hist": hist}, diffs)
        res.sample({"engine": "history", "init": init, "hist": [first, "A3", "S"]}, cap=1)
    return res


def replay(case):
    e = case["engine"]
    if e == "history":
        return check_history(case["init"], case["hist"])[1]
    if e == "interval":
        return check_interval(case["case"])[1]
    if e == "empty-spec":
        return empty_apply_spec(shapes_for_empty_apply()[case["index"]][1])
    if e == "empty-layout":
        return empty_apply_layout(case["case"])
    if e == "align":
        return check_alignment(aligned_specs()[case["index"]], case["mods"])[1]
    raise ValueError(e)
