"""
C11  Rewriting is deterministic.

(1) registration-order permutations of modification sets at different locations,
(2) iteration-order schedules: gtirb's unordered views are wrapped; every
    execution with <= B deviations from the canonical order is explored
    (stateless exploration with a deviation bound),
(3) hash seeds / UUID draws in sub-processes (sampled dimension).
The oracle is always: the canonical UUID-free dump of the result is identical.
"""
import hashlib
import itertools
import json
import os
import subprocess
import sys

import gtirb

from ..core import TaskResult
from ..world import canon
from ..world import compare as C
from ..world import listing as Lg
from ..world import scen

PROPERTY = "C11"
LEVEL = "model_checking"
RULE = (
    "scenarios = (CFG-rich module shapes of C03/C09/C06) x (modification sets of size 1-3 at different locations); "
    "(1) every permutation of the registration order; (2) every execution in which exactly one (thorough: up to two) "
    "of the answers of gtirb's unordered views (CFG.in_edges/out_edges/__iter__, Block.references, Module.symbols / "
    "byte_blocks / code_blocks, ByteInterval.blocks, Section.byte_blocks, symbols_named) is returned reversed or "
    "rotated instead of in canonical order; (3) PYTHONHASHSEED in a fixed set x uuid4 ascending/descending/random in "
    "fresh processes, plus every chunk of 60 scenarios once more in reverse order in one interpreter (a result may not depend on "
    "the rewrites performed before it). states = executions whose final canonical dump was compared; transitions = interception points "
    "exercised; distinct = distinct (scenario, schedule)"
)
ASSUMPTIONS = [
    "set/dict orders inside the library that are not reachable through gtirb accessors (plain Python sets of edges or "
    "blocks) are varied only by hash seeds / id() layout - a sampled dimension, not an exhaustive one",
    "registration order may matter among modifications at the same (block, offset) (statement) - those sets are not permuted here",
    "x86-64 ELF only",
]
BOUNDS = {"quick": {"deviations": 1, "alternatives": ["reverse"], "hash_seeds": [0, 1, 2]},
          "thorough": {"deviations": 1, "alternatives": ["reverse", "rotate"], "hash_seeds": [0, 1, 2, 3, 4, 5, 6, 7]}}
CAP_S = {"quick": 400, "thorough": 2400}
STATES_ARE_DISTINCT_CASES = False


# ----------------------------------------------------------------------------- scenarios
def scenarios(tier):
    from . import c03, c06, c09

    out = []
    # C03 products: richest CFG handling
    for term, follow in (("call", "same"), ("jcc", "data"), ("ret", "other"), ("none", "nothing")):
        spec = c03.make_spec(term, follow, 1, True)
        xa = [a for a in c03.x_atoms(spec) if a.get("pn") in (None, "ord", "callG", "ret", "lab")]
        oa = c03.other_atoms(spec, True)
        picks = xa[:: 3 if tier == "quick" else 1]
        for a in picks:
            out.append((spec, [_strip(a)]))
        for a, b in itertools.product(picks[::2], oa[::2]):
            if scen.compatible(a, b, None):
                out.append((spec, [_strip(a), _strip(b)]))
    for name in ("ccccc", "cdccc"):
        spec = c09.SHAPES[name]
        atoms = c09.atoms_for(spec, True)
        sel = atoms[:: 5 if tier == "quick" else 2]
        for a, b in itertools.combinations(sel, 2):
            if scen.compatible(a, b, None) and (a["b"], a["k"]) != (b["b"], b["k"]):
                out.append((spec, [a, b]))
    for name in ("interleaved", "two-entries"):
        spec = c06.make_spec(name)
        atoms = c06.atoms_for(spec)
        sel = atoms[:: 4 if tier == "quick" else 2]
        for a, b, c in itertools.combinations(sel[:12], 3):
            if all(scen.compatible(x, y, None) for x, y in ((a, b), (a, c), (b, c))) and len({(x["b"], x["k"]) for x in (a, b, c)}) == 3:
                out.append((spec, [a, b, c]))
    # patches with constraints: the generated prologue/epilogue (register save order, scratch choice)
    # must not depend on hash seeds either
    CONS = (
        {"preserve_caller_saved_registers": True},
        {"preserve_caller_saved_registers": True, "clobbers_flags": True, "scratch_registers": 2},
        {"clobbers_registers": ["rax", "rcx", "r11", "rbx"], "clobbers_flags": True},
        {"scratch_registers": 3, "reads_registers": ["rax"]},
        {"align_stack": True, "clobbers_registers": ["rdx", "rsi"]},
    )
    spec = c03.make_spec("call", "same", 1, True)
    for ci, cons in enumerate(CONS):
        for blk, k in (("X", 0), ("X", 2), ("Y", 0), ("K", 1)):
            out.append((spec, [{"op": "ins", "b": blk, "k": k, "p": [["p", 0]], "cons": cons}]))
        out.append((spec, [{"op": "ins", "b": "X", "k": 1, "p": [["p", 0]], "cons": cons}, {"op": "ins", "b": "Z", "k": 0, "p": [["p", 0]], "cons": CONS[(ci + 1) % len(CONS)]}]))
    # a block that is already zero-sized (what an earlier rewrite leaves of an emptied function entry) next to the edit
    from . import c02

    for kinds in ("czcc", "czdc"):
        spec = c02.make_spec(kinds, c02.FUNCS[0], ())
        pc = [["p", 0]] if kinds[2] == "c" else {"bytes": [0]}
        out.append((spec, [{"op": "del", "b": "C", "k": 0, "n": 1}]))
        out.append((spec, [{"op": "ins", "b": "C", "k": 1, "p": pc}]))
        out.append((spec, [{"op": "ins", "b": "C", "k": 0, "p": pc}]))
        out.append((spec, [{"op": "ins", "b": "C", "k": 1, "p": pc}, {"op": "del", "b": "C", "k": 0, "n": 1}]))
        out.append((spec, [{"op": "del", "b": "A", "k": 1, "n": 1}, {"op": "del", "b": "C", "k": 0, "n": 1}]))
    # ARM64: flag save/restore and register choice of the generated prologue
    from . import c07

    aspec = c07.make_spec(None, ["jcc", "A"], ("f", "f", "g"), True, "arm64-elf")
    for cons in (
        {"clobbers_flags": True, "clobbers_registers": ["x9", "x10", "x11", "x12"]},
        {"clobbers_flags": True, "clobbers_registers": ["x0", "x19"], "reads_registers": ["x0"]},
        {"clobbers_flags": True, "scratch_registers": 2},
        {"preserve_caller_saved_registers": True, "clobbers_flags": True},
        {"scratch_registers": 3, "clobbers_registers": ["x1", "x2"], "align_stack": True},
    ):
        out.append((aspec, [{"op": "ins", "b": "A", "k": 1, "p": [["p", 0]], "cons": cons}]))
        out.append((aspec, [{"op": "ins", "b": "B", "k": 0, "p": [["p", 0]], "cons": cons}, {"op": "ins", "b": "C", "k": 0, "p": [["p", 0]], "cons": cons}]))
    # a function whose returning blocks do not all return to the same places (legal IR: hand-edited or partially
    # analysed CFG) and patches that add returns / calls to it
    out.extend(uneven_return_scenarios())
    out.extend(shared_block_scenarios())
    # one patch that calls the same function twice (two call edges, one callee), and two such patches
    spec = c03.make_spec("none", "same", 1, True)
    for pn in ("callG2", "callX2"):
        for blk, k in (("X", 1), ("Y", 0), ("K2", 0)):
            out.append((spec, [{"op": "ins", "b": blk, "k": k, "p": c03.PATCHES[pn]}]))
        out.append((spec, [{"op": "ins", "b": "X", "k": 1, "p": c03.PATCHES[pn]}, {"op": "ins", "b": "Z", "k": 0, "p": c03.PATCHES["callG2"]}]))
    return [(s, scen.retag(m)) for s, m in out]


def shared_block_scenarios():
    """a tail block that two functions list in their functionBlocks (legal IR: merged / shared tails), edited so that
    new blocks appear in it"""
    X = {"n": "X", "k": "c", "i": [["o", 1], ["jmp", "T"]], "f": "f", "e": True}
    G = {"n": "G", "k": "c", "i": [["o", 7], ["jmp", "T"]], "f": "g", "e": True}
    T_ = {"n": "T", "k": "c", "i": [["o", 3], ["o", 4], ["ret"]], "f": "f", "e": False}
    H = {"n": "H", "k": "c", "i": [["o", 5], ["ret"]], "f": "h", "e": True}
    out = []
    for order in ([X, G, T_, H], [G, X, T_, H]):
        import copy

        spec = scen.spec_of(copy.deepcopy(order))
        spec["tweak"] = "share-block:T:g"
        for k in (0, 1, 2, 3):
            out.append((spec, [{"op": "ins", "b": "T", "k": k, "p": [["lab", ".Lx"], ["p", 0], ["jcc", ".Lx"], ["p", 0]]}]))
            out.append((spec, [{"op": "ins", "b": "T", "k": k, "p": [["call", "H"], ["p", 0]]}]))
        out.append((spec, [{"op": "ins", "b": "T", "k": 1, "p": [["p", 0]]}]))
        out.append((spec, [{"op": "rep", "b": "T", "k": 1, "n": 1, "p": [["p", 0], ["jcc", "X"], ["p", 0]]}]))
        out.append((spec, [{"op": "ins", "b": "T", "k": 1, "p": [["p", 0], ["jcc", "H"], ["p", 0]]}, {"op": "del", "b": "X", "k": 0, "n": 2}]))
    return out


def uneven_return_scenarios():
    K = {"n": "K", "k": "c", "i": [["o", 8], ["call", "X"]], "f": "k", "e": True}
    K2 = {"n": "K2", "k": "c", "i": [["o", 9], ["call", "X"]], "f": "k", "e": False}
    K3 = {"n": "K3", "k": "c", "i": [["o", 10], ["ret"]], "f": "k", "e": False}
    X = {"n": "X", "k": "c", "i": [["o", 1], ["o", 2], ["jcc", "Z"]], "f": "f", "e": True}
    Y = {"n": "Y", "k": "c", "i": [["o", 3], ["ret"]], "f": "f", "e": False}
    Z = {"n": "Z", "k": "c", "i": [["o", 5], ["ret"]], "f": "f", "e": False}
    spec = scen.spec_of([K, K2, K3, X, Y, Z])
    spec["tweak"] = "drop-return-edge:Z:K3"
    out = []
    for blk, k in (("X", 1), ("X", 0), ("Y", 1), ("Z", 0)):
        out.append((spec, [{"op": "ins", "b": blk, "k": k, "p": [["p", 0], ["ret"]]}]))
        out.append((spec, [{"op": "ins", "b": blk, "k": k, "p": [["p", 0], ["call", "X"], ["p", 0]]}]))
    out.append((spec, [{"op": "ins", "b": "X", "k": 1, "p": [["p", 0], ["ret"]]}, {"op": "del", "b": "Y", "k": 0, "n": 2}]))
    out.append((spec, [{"op": "ins", "b": "K3", "k": 0, "p": [["call", "X"], ["p", 0]]}, {"op": "ins", "b": "X", "k": 2, "p": [["ret"]]}]))
    return out


def _prepare(spec):
    tw = spec.get("tweak")
    if not tw:
        return None

    def prep(w):
        if tw.startswith("share-block:"):
            import gtirb_functions

            _, blk, fname = tw.split(":")
            names = w.m.aux_data["functionNames"].data
            (u,) = [u for u, sy in names.items() if sy.name == Lg.fsym_name(fname)]
            w.m.aux_data["functionBlocks"].data[u].add(w.blocks[blk])
            w.funcs = gtirb_functions.Function.build_functions(w.m)
            return
        _, src, dst = tw.split(":")
        for e in list(w.ir.cfg.out_edges(w.blocks[src])):
            if e.label.type == gtirb.Edge.Type.Return and e.target is w.blocks[dst]:
                w.ir.cfg.discard(e)
                return
        raise AssertionError("harness: no return edge %s" % tw)

    return prep


def _tag(spec, diffs, mods=None):
    """role for signatures, computed from the request (scen.zero_block_role)"""
    role = scen.zero_block_role(spec, mods)
    for d in diffs:
        d["r_shape"] = role
    return diffs


def _strip(a):
    return {k: v for k, v in a.items() if k != "pn"}


def run_dump(spec, mods):
    w, exc = Lg.rewrite(spec, mods, prepare=_prepare(spec))
    if exc is not None:
        return "EXC:" + type(exc).__name__ + ":" + str(exc)[:60]
    return canon.dump(w.ir)


def digest(d):
    return hashlib.sha1(json.dumps(d, sort_keys=True, default=str).encode()).hexdigest()[:16]


# ----------------------------------------------------------------------------- (2) schedules
class Scheduler:
    """Owns the order of gtirb's unordered views."""

    def __init__(self):
        self.plan = {}  # call index -> alternative name
        self.count = 0
        self.points = []  # (index, view name, size)
        self.active = False

    def order(self, view, items, key):
        items = list(items)
        if not self.active or len(items) < 2:
            return items
        try:
            items.sort(key=key)
        except TypeError:
            pass
        i = self.count
        self.count += 1
        self.points.append((i, view, len(items)))
        alt = self.plan.get(i)
        if alt == "reverse":
            items.reverse()
        elif alt == "rotate":
            items = items[1:] + items[:1]
        return items


SCHED = Scheduler()
_installed = False


def _bkey(b):
    if isinstance(b, gtirb.ProxyBlock):
        return (2, 0, 0, 0)
    bi = b.byte_interval
    return (0 if bi is not None else 1, bi.address if bi is not None and bi.address is not None else -1, b.offset, b.size)


def _ekey(e):
    lab = e.label
    return (_bkey(e.source), _bkey(e.target), (lab.type.value, lab.conditional, lab.direct) if lab else (-1, False, False))


def install():
    """Wrap the unordered views once per process (monkeypatching from the harness, no source change)."""
    global _installed
    if _installed:
        return
    _installed = True
    CFG = gtirb.CFG
    o_in, o_out, o_iter = CFG.in_edges, CFG.out_edges, CFG.__iter__

    def in_edges(self, node):
        return iter(SCHED.order("in_edges", o_in(self, node), _ekey))

    def out_edges(self, node):
        return iter(SCHED.order("out_edges", o_out(self, node), _ekey))

    def cfg_iter(self):
        return iter(SCHED.order("cfg_iter", o_iter(self), _ekey))

    CFG.in_edges, CFG.out_edges, CFG.__iter__ = in_edges, out_edges, cfg_iter
    # the ReturnEdgeCache subclass inherits them
    o_refs = gtirb.Block.references.fget

    def references(self):
        return iter(SCHED.order("references", o_refs(self), lambda s: (s.name, s.at_end)))

    gtirb.Block.references = property(references)
    o_named = gtirb.Module.symbols_named

    def symbols_named(self, name):
        return iter(SCHED.order("symbols_named", o_named(self, name), lambda s: (s.name, s.at_end)))

    gtirb.Module.symbols_named = symbols_named
    for cls, attr, key in (
        (gtirb.Module, "byte_blocks", _bkey),
        (gtirb.Module, "code_blocks", _bkey),
        (gtirb.Module, "data_blocks", _bkey),
        (gtirb.Section, "byte_blocks", _bkey),
        (gtirb.Module, "byte_intervals", lambda bi: (bi.address if bi.address is not None else -1, bi.size)),
    ):
        orig = getattr(cls, attr).fget

        def getter(self, orig=orig, attr=attr, key=key):
            return iter(SCHED.order(attr, orig(self), key))

        setattr(cls, attr, property(getter))


def run_scheduled(spec, mods, plan):
    install()
    SCHED.plan = dict(plan)
    SCHED.count = 0
    SCHED.points = []
    w = Lg.build(spec)
    if _prepare(spec):
        _prepare(spec)(w)
    from gtirb_rewriting import RewritingContext

    ctx = RewritingContext(w.m, w.funcs)
    Lg.register(w, ctx, mods)
    SCHED.active = True
    try:
        try:
            ctx.apply()
            out = None
        except Exception as e:
            out = "EXC:" + type(e).__name__ + ":" + str(e)[:60]
    finally:
        SCHED.active = False
    if out is None:
        out = canon.dump(w.ir)
    return out, list(SCHED.points)


def check_schedules(spec, mods, alts, res, deviations=1):
    base, points = run_scheduled(spec, mods, {})
    again, points2 = run_scheduled(spec, mods, {})
    diffs = []
    if digest(base) != digest(again) or points != points2:
        return [C.D("harness-default-schedule-not-reproducible")], 0
    n = 0
    for (i, view, size) in points:
        for alt in alts:
            if alt == "rotate" and size < 3:
                continue
            out, pts = run_scheduled(spec, mods, {i: alt})
            res.states += 1
            res.transitions += 1
            res.traces += 1
            n += 1
            if pts[: i + 1] != points[: i + 1]:
                diffs.append(C.D("harness-prefix-diverged", index=i))
                continue
            if digest(out) != digest(base):
                d = canon.diff(base, out) if isinstance(base, dict) and isinstance(out, dict) else [str(base)[:80], str(out)[:80]]
                diffs.append(C.D("result-depends-on-iteration-order", r_view=view, index=i, alt=alt, r_where=_where(d), detail=d[:3]))
    return diffs, n


def _where(d):
    if not d:
        return "?"
    p = str(d[0]).split(":")[0]
    for k in ("edges", "symbols", "blocks", "contents", "symexprs", "proxies", "aux"):
        if k in p:
            return k
    return p[-24:]


# ----------------------------------------------------------------------------- (3) seeds, in sub-processes
SEED_RUNNER = r"""
import sys, json, os, uuid, itertools, hashlib
sys.path.insert(0, %(root)r)
mode = %(mode)r
if mode != "random":
    ctr = itertools.count(1)
    uuid.uuid4 = lambda: uuid.UUID(int=(next(ctr) if mode == "asc" else 2**120 - next(ctr)))
pad = [object() for _ in range(%(pad)d)]   # moves id()-based hashes
from vf.props import c11
out = []
scs = c11.scenarios(%(tier)r)[%(lo)d:%(hi)d]
if %(rev)d:  # the same scenarios in the opposite order: every scenario then has the other half of its chunk as process history
    out = [c11.digest(c11.run_dump(spec, mods)) for spec, mods in reversed(scs)][::-1]
else:
    out = [c11.digest(c11.run_dump(spec, mods)) for spec, mods in scs]
print(json.dumps(out))
"""


def seed_run(tier, lo, hi, hashseed, mode, pad, rev=0):
    env = dict(os.environ)
    env["PYTHONHASHSEED"] = str(hashseed)
    env["GTIRB_REWRITING_VERIF"] = "1"
    code = SEED_RUNNER % {"root": os.path.dirname(os.path.dirname(os.path.dirname(os.path.abspath(__file__)))), "mode": mode, "pad": pad, "tier": tier, "lo": lo, "hi": hi, "rev": rev}
    p = subprocess.run([sys.executable, "-c", code], capture_output=True, text=True, env=env, timeout=900)
    if p.returncode != 0:
        raise RuntimeError("seed sub-process failed: " + p.stderr[-400:])
    return json.loads(p.stdout.strip().splitlines()[-1])


# ----------------------------------------------------------------------------- tasks
def tasks(tier):
    n = len(scenarios(tier))
    t = []
    chunk = 8
    for lo in range(0, n, chunk):
        t.append(("perm+sched", tier, lo, min(lo + chunk, n)))
    for lo in range(0, n, 60):
        t.append(("seeds", tier, lo, min(lo + 60, n)))
    return t


def task_group(task):
    return task[0]


def run_task(task):
    mode, tier, lo, hi = task
    res = TaskResult()
    scs = scenarios(tier)
    if mode == "seeds":
        seeds = BOUNDS[tier]["hash_seeds"]
        extra = int(os.environ.get("VERIF_SEED", "0") or 0)
        if extra and extra not in seeds:
            seeds = seeds + [1000 + extra]
        runs = {}
        for hs in seeds:
            for um, pad in (("asc", 0), ("desc", 7), ("random", 131)):
                if um != "asc" and hs not in seeds[:2]:
                    continue
                runs[(hs, um)] = seed_run(tier, lo, hi, hs, um, pad)
                res.states += hi - lo
                res.traces += hi - lo
        # the chunk once more in reverse order (first seed, ascending uuids): a scenario's result may not depend on which
        # other rewrites the interpreter performed before it
        runs[(seeds[0], "asc-reversed-order")] = seed_run(tier, lo, hi, seeds[0], "asc", 0, rev=1)
        res.states += hi - lo
        res.traces += hi - lo
        ref_key = sorted(runs)[0]
        for i in range(hi - lo):
            vals = {k: v[i] for k, v in runs.items()}
            res.case(("seeds", lo + i), nontrivial=True, outcome="ok" if len(set(vals.values())) == 1 else "differs")
            res.transitions += len(vals)
            if len(set(vals.values())) != 1:
                bad = sorted(k for k, v in vals.items() if v != vals[ref_key])
                res.bad({"kind": "seeds", "tier": tier, "index": lo + i, "runs": [list(k) for k in sorted(runs)]},
                        _tag(scs[lo + i][0], [C.D("result-depends-on-hash-seed-or-uuids", differing=[list(b) for b in bad])], scs[lo + i][1]))
        res.sample({"kind": "seeds", "scenarios": [lo, hi], "runs": [list(k) for k in sorted(runs)]}, cap=1)
        return res
    alts = BOUNDS[tier]["alternatives"]
    for idx in range(lo, hi):
        spec, mods = scs[idx]
        # (1) registration order
        base = run_dump(spec, mods)
        res.states += 1
        if len(mods) > 1:
            for perm in itertools.permutations(range(len(mods))):
                if list(perm) == list(range(len(mods))):
                    continue
                # patch tags stay with their modification so that only the registration order changes
                pm = [mods[i] for i in perm]
                out = run_dump(spec, pm)
                res.states += 1
                res.transitions += 1
                res.traces += 1
                res.case(("perm", idx, perm), nontrivial=True, outcome="same" if digest(out) == digest(base) else "differs")
                if digest(out) != digest(base):
                    d = canon.diff(base, out) if isinstance(base, dict) and isinstance(out, dict) else [str(base)[:80], str(out)[:80]]
                    res.bad({"kind": "perm", "tier": tier, "index": idx, "perm": list(perm)}, _tag(spec, [C.D("result-depends-on-registration-order", r_where=_where(d), detail=d[:3])], mods))
        # (2) schedules
        diffs, n = check_schedules(spec, mods, alts, res)
        res.case(("sched", idx), nontrivial=n > 0, outcome="ok" if not diffs else "differs")
        res.extra["schedule_points"] += n
        if diffs:
            res.bad({"kind": "sched", "tier": tier, "index": idx}, _tag(spec, diffs, mods))
        res.sample({"kind": "sched", "spec_blocks": [b["n"] for s in spec["sections"] for b in s["blocks"]], "mods": mods, "interception_points": n}, cap=1)
    return res


def replay(case):
    scs = scenarios(case["tier"])
    res = TaskResult()
    if case["kind"] == "sched":
        spec, mods = scs[case["index"]]
        return _tag(spec, check_schedules(spec, mods, BOUNDS[case["tier"]]["alternatives"], res)[0], mods)
    if case["kind"] == "perm":
        spec, mods = scs[case["index"]]
        base = run_dump(spec, mods)
        out = run_dump(spec, [mods[i] for i in case["perm"]])
        if digest(out) != digest(base):
            d = canon.diff(base, out) if isinstance(base, dict) and isinstance(out, dict) else []
            return _tag(spec, [C.D("result-depends-on-registration-order", r_where=_where(d), detail=d[:3])], mods)
        return []
    if case["kind"] == "seeds":
        i = case["index"]
        plain = [k for k in case["runs"] if k[1] in ("asc", "desc", "random")]
        runs = {tuple(k): seed_run(case["tier"], i, i + 1, k[0], k[1], {"asc": 0, "desc": 7, "random": 131}[k[1]]) for k in plain}
        if len(plain) != len(case["runs"]):
            # the reversed-order run: replay the whole chunk the scenario belongs to, both ways
            lo = (i // 60) * 60
            hi = min(lo + 60, len(scs))
            fwd = seed_run(case["tier"], lo, hi, plain[0][0], "asc", 0)
            bwd = seed_run(case["tier"], lo, hi, plain[0][0], "asc", 0, rev=1)
            runs[("order", "fwd")] = [fwd[i - lo]]
            runs[("order", "bwd")] = [bwd[i - lo]]
        if len({v[0] for v in runs.values()}) != 1:
            return _tag(scs[i][0], [C.D("result-depends-on-hash-seed-or-uuids")], scs[i][1])
        return []
    return []
