"""
C19  delete_symbol removes every trace of the symbol, and only that.

Bounded exhaustive enumeration.  A case is a small real GTIRB module (ELF or
PE, built with gtirb_test_helpers) holding three named symbols S1, S2, K, each
placed in a subset of the places the statement names, plus a set of deletion
requests (which of the three are deleted, with which force flags, including
the "force=True then force=False" re-request).  The real public API is driven:
RewritingContext.delete_symbol(...) for every request, then apply().

The oracle is written from the statement and works on a canonical, UUID-free
snapshot of the module (symbols, every aux table, every symbolic expression,
all block bytes) taken before and after apply():

  expected_after = oracle_after(snapshot_before, deleted names)

plus a generic scan of *every* aux-data table (module and IR level) of the live
objects for the deleted Symbol objects / their UUIDs, and a protobuf round trip.
Nothing of gtirb_rewriting is called to compute an expectation.
"""
import collections.abc
import io
import uuid

import gtirb
from gtirb_test_helpers import (
    add_code_block,
    add_data_block,
    add_elf_symbol_info,
    add_proxy_block,
    add_symbol,
    add_text_section,
    add_data_section,
    create_test_module,
)

import gtirb_rewriting

from ..core import TaskResult

PROPERTY = "C19"
LEVEL = "exploration"
RULE = (
    "a case = (file format, place subset of S1, of S2, of K, private/shared realisation of the places, "
    "elfSymbolVersions configuration, deletion requests with force modes); families 'one' (full subset lattice "
    "of all places for one deleted symbol), 'pair' (full product of grouped place subsets for two deleted "
    "symbols), 'ver' (full product of version modes x id sharing x base flags x deleted set), 'count' (0..3 "
    "symbols deleted, everything placed everywhere), 'rt' (deletion requests combined, in either registration order, with "
    "retarget_symbol_uses requests of the same context: S1->K, S1->S2, S1->K+S2->K; expectation from the module a context with "
    "only the retargets leaves), 'stale' (an earlier, abandoned RewritingContext on the same module had queued deletions) "
    "are each enumerated completely by mixed-radix index; "
    "distinct = distinct case descriptors; non-trivial = at least one deleted symbol occurs in at least one place"
)
ASSUMPTIONS = [
    "bounded: 3 named symbols (+ private helper symbols for symbolForwarding partners), x86-64 only, one entry per "
    "symbol and table, one code and one data expression per symbol; apart from the 'rt' family no other modification is "
    "registered in the same apply(), so 'expressions still use it' is decided by the input module",
    "gtirb (containers, protobuf codec) and gtirb_test_helpers are trusted; the 'before' snapshot is read back from the "
    "built IR through gtirb, the expectation is computed on that snapshot",
    "only the tables named in the statement are populated with symbol references; every table (module and IR level) is "
    "scanned afterwards; comments / sectionProperties / alignment / functionEntries / functionBlocks carry bystander "
    "entries that must not change; ten always-empty tables of gtirb_test_helpers are removed before the run (codec time)",
    "tables that apply() itself adds (leafFunctions) are ignored unless they mention a deleted symbol",
    "not covered: the quantifier's 'any subset' for two deleted symbols is enumerated over grouped places (5 / 7 "
    "groups), not over all 2^22 combinations; libraries that are already empty before the deletion are not generated",
    "leniency: symbolicExpressionSizes entries at the offset of a removed expression may stay or go (statement silent)",
    "leniency: request sequence force=False then force=True (mode 'FT', thorough only): statement silent, both "
    "'forced' and 'not forced' accepted; True-then-False means not forced (docstring and task text)",
    "leniency: when SymbolUsesRemainingError is raised the state the module is left in is only classified and "
    "counted (outcome histogram), never alarmed on; only the exception type and the symbol it names are checked",
    "literal reading: a version definition / requirement that no remaining symbol uses is expected to be dropped even "
    "if no deleted symbol used it ('orphan' dimension), unless it is a base definition (flags & VER_FLG_BASE)",
    "error-path classification is kept independent of gtirb's id()-ordered set iteration (which byte interval is "
    "visited first): it records whether the removed expressions are a subset of the forced ones, not how many",
]

ELF_PLACES = ("esi", "tab", "ver", "fn", "fwk", "fwv", "cfiP", "cfiL", "cfiO", "xc", "xd")
PE_PLACES = ("imp", "exp", "fn", "fwk", "fwv", "cfiP", "cfiL", "cfiO", "xc", "xd")
PLACES = {"ELF": ELF_PLACES, "PE": PE_PLACES}
GROUPS = {
    # grouped places for the two-symbol product
    ("ELF", 5): (("esi", "tab", "ver", "fn"), ("fwk", "fwv"), ("cfiP", "cfiL", "cfiO"), ("xc",), ("xd",)),
    ("PE", 5): (("imp", "exp", "fn"), ("fwk", "fwv"), ("cfiP", "cfiL", "cfiO"), ("xc",), ("xd",)),
    ("ELF", 7): (("esi", "tab", "ver"), ("fn",), ("fwk",), ("fwv",), ("cfiP", "cfiL", "cfiO"), ("xc",), ("xd",)),
    ("PE", 7): (("imp", "exp"), ("fn",), ("fwk",), ("fwv",), ("cfiP", "cfiL", "cfiO"), ("xc",), ("xd",)),
}

BOUNDS = {
    "quick": {
        "places": "ELF: elfSymbolInfo, elfSymbolTabIdxInfo, elfSymbolVersions, functionNames, symbolForwarding key, "
        "symbolForwarding value, cfi personality, cfi lsda, cfi other operand, expression in code, expression in data "
        "(11); PE: peImportedSymbols, peExportedSymbols instead of the three elf tables (10)",
        "one": "S1 deleted: all 2^11 (ELF) / 2^10 (PE) place subsets of S1 x K everywhere x {private, shared} x "
        "req {F,T,TF}; plus 'one-alone': all subsets x K nowhere x private x req T",
        "pair": "S1,S2 deleted: 5 place groups per symbol (aux tables | forwarding | cfi | code expr | data expr), all "
        "2^5 x 2^5 x K everywhere x {private, shared} x req pairs ELF {F,T}^2 + (TF,T), PE (T,T),(F,T),(T,TF); plus "
        "'pair5-alone': 2^5 x 2^5 x K nowhere x (T,T)",
        "ver": "version mode {-,defined,needed,uses-base-id}^3 x id sharing {own ids and libraries, shared id, same "
        "library different ids} x base definition {none, flags 1, flags 3} x orphan def/need {0,1} x deleted "
        "{S1},{S1,S2}, forced",
        "count": "0..3 of the three symbols deleted, all places (with / without expressions), {private, shared}, req "
        "modes {F,T,TF}^k, ELF and PE",
    },
    "thorough": {
        "one": "all place subsets of S1 x K in {nowhere, same places as S1, everywhere} x {private, shared} x req "
        "{F,T,TF,FT,FF,TT} x referent kinds {S1 code/S2 proxy/K code, S1 proxy/S2 data/K proxy}",
        "pair": "7 place groups per symbol (elf or pe tables | functionNames | fwd key | fwd value | cfi | code expr | "
        "data expr): 2^7 x 2^7 x (ELF: K nowhere+private, K everywhere x {private, shared}; PE: K everywhere x "
        "{private, shared}) x req ELF {F,T,TF}^2, PE {F,T,TF}x{F,T}; plus the 5-group product x K {nowhere, same, "
        "everywhere} x {private, shared} x all req pairs containing FT",
        "ver": "version mode {-,d,n,b,id-0-without-definition}^3 x sharing x base x orphan x deleted "
        "{S1},{S1,S2},{S1,S2,K} x extra places {none, elfSymbolInfo + data expression}",
        "count": "as quick with req modes {F,T,TF,FT}^k and both request orders",
    },
}
CAP_S = {"quick": 400, "thorough": 1800}

NULL = uuid.UUID(int=0)
DW_EH_PE_omit = 0xFF
VER_FLG_BASE = 0x1

SYMS = ("S1", "S2", "K")
NEXT = {"S1": "S2", "S2": "K", "K": "S1"}  # partner in mixed data expressions (shared)
FWD_RING = {"S1": "K", "S2": "S1", "K": "S2"}  # symbolForwarding key -> value (shared)
REFKIND = {
    0: {"S1": "code", "S2": "proxy", "K": "code"},
    1: {"S1": "proxy", "S2": "data", "K": "proxy"},
}
EFFECTIVE = {"F": (False,), "T": (True,), "TF": (False,), "FF": (False,), "TT": (True,), "FT": (False, True)}
REQUESTS = {
    "F": (None,),  # default argument
    "T": (True,),
    "TF": (True, False),
    "FT": (False, True),
    "FF": (False, False),
    "TT": (True, True),
}
CFI_DIRECTIVE = {
    "cfiP": (".cfi_personality", [0x9B]),
    "cfiL": (".cfi_lsda", [0x1B]),
    "cfiO": (".cfi_val_encoded_addr", [7, 0x1B]),
}


DROPPED_EMPTY_TABLES = (
    "binaryType", "encodings", "libraries", "libraryPaths", "padding", "SCCs", "dynamicEntries",
    "peExportEntries", "peImportEntries", "peResources",
)


def D(kind, **kw):
    d = {"kind": kind}
    d.update(kw)
    return d


# ------------------------------------------------------------------ building
class World:
    pass


def build(case):
    """case -> real gtirb IR/module with S1, S2, K placed as described."""
    fmt = case["fmt"]
    share = case["share"]
    pl = {s: set(case["pl"].get(s, ())) for s in SYMS}
    refkind = REFKIND[case.get("ref", 0)]
    ff = gtirb.Module.FileFormat.ELF if fmt == "ELF" else gtirb.Module.FileFormat.PE
    ir, m = create_test_module(ff, gtirb.Module.ISA.X64)
    names = {}
    for t in DROPPED_EMPTY_TABLES:  # always-empty helper tables: only cost (protobuf codec time), no content
        m.aux_data.pop(t, None)

    tsec, tbi0 = add_text_section(m, address=0x1000)
    dsec, dbi0 = add_data_section(m, address=0x2000)
    cb, db, cbi, dbi = {}, {}, {}, {}
    for i, s in enumerate(SYMS):
        if share or i == 0:
            tbi, dbi_ = tbi0, dbi0
        else:
            tbi = gtirb.ByteInterval(contents=b"", address=0x1000 + 0x40 * i)
            tbi.section = tsec
            dbi_ = gtirb.ByteInterval(contents=b"", address=0x2000 + 0x40 * i)
            dbi_.section = dsec
        code = b"\xe8\x00\x00\x00\x00\xc3" if "xc" in pl[s] else b"\x90\x90\x90\x90\x90\xc3"
        cb[s] = add_code_block(tbi, code)
        db[s] = add_data_block(dbi_, bytes([0x10 + i]) * 8)
        cbi[s], dbi[s] = tbi, dbi_

    # bystander entries in tables that never mention a symbol
    m.aux_data["comments"].data[gtirb.Offset(cb["S1"], 0)] = "comment on S1's block"
    m.aux_data["comments"].data[gtirb.Offset(db["K"], 0)] = "comment on K's data"
    m.aux_data["sectionProperties"].data[tsec] = (1, 6)
    m.aux_data["sectionProperties"].data[dsec] = (1, 3)
    if fmt == "ELF":
        m.aux_data["alignment"].data[cb["S1"]] = 16
        m.aux_data["alignment"].data[db["S2"]] = 8

    sym = {}
    for s in SYMS:
        k = refkind[s]
        if k == "code":
            ref = cb[s]
        elif k == "data":
            ref = db[s]
        else:
            ref = add_proxy_block(m)
            names[ref.uuid] = "proxy:" + s
        sym[s] = add_symbol(m, s, ref)

    def helper(name):
        if name not in sym:
            p = add_proxy_block(m)
            names[p.uuid] = "proxy:" + name
            sym[name] = add_symbol(m, name, p)
        return sym[name]

    sizes = m.aux_data["symbolicExpressionSizes"].data
    for s in SYMS:
        if "xc" in pl[s]:
            off = cb[s].offset + 1
            cbi[s].symbolic_expressions[off] = gtirb.SymAddrConst(0, sym[s])
            sizes[gtirb.Offset(cbi[s], off)] = 4
        if "xd" in pl[s]:
            off = db[s].offset
            if share:
                e = gtirb.SymAddrAddr(1, 0, sym[s], sym[NEXT[s]])
            else:
                e = gtirb.SymAddrConst(0, sym[s])
            dbi[s].symbolic_expressions[off] = e
            sizes[gtirb.Offset(dbi[s], off)] = 8

    # functionNames (+ the two companion tables); not via add_function, which would also add elfSymbolInfo
    for i, s in enumerate(SYMS):
        if "fn" in pl[s]:
            fu = uuid.UUID(int=0xF0 + i)
            names[fu] = "func:" + s
            m.aux_data["functionNames"].data[fu] = sym[s]
            m.aux_data["functionEntries"].data[fu] = {cb[s]}
            m.aux_data["functionBlocks"].data[fu] = {cb[s]}
            if share:
                # one symbol naming two functions (two UUIDs, e.g. a function split in two by an analysis)
                fu2 = uuid.UUID(int=0xE0 + i)
                names[fu2] = "func2:" + s
                m.aux_data["functionNames"].data[fu2] = sym[s]
                m.aux_data["functionEntries"].data[fu2] = set()
                m.aux_data["functionBlocks"].data[fu2] = set()

    # symbolForwarding
    fwd = m.aux_data["symbolForwarding"].data
    for s in SYMS:
        if "fwk" in pl[s]:
            fwd[sym[s]] = sym[FWD_RING[s]] if share else helper(s + "_t")
    for s in SYMS:
        if "fwv" in pl[s]:
            fwd[helper(s + "_u")] = sym[s]

    # cfiDirectives
    cfi = m.aux_data["cfiDirectives"].data
    anycfi = {s: [p for p in ("cfiP", "cfiL", "cfiO") if p in pl[s]] for s in SYMS}
    if share:
        if any(anycfi.values()):
            lst = [(".cfi_startproc", [], NULL), (".cfi_def_cfa_offset", [16], NULL)]
            for p in ("cfiP", "cfiL", "cfiO"):
                for s in ("S1", "K", "S2"):
                    if p in pl[s]:
                        lst.append((CFI_DIRECTIVE[p][0], list(CFI_DIRECTIVE[p][1]), sym[s]))
            cfi[gtirb.Offset(cb["S1"], 0)] = lst
            cfi[gtirb.Offset(cb["K"], cb["K"].size)] = [(".cfi_endproc", [], NULL)]
    else:
        for s in SYMS:
            if anycfi[s]:
                lst = [(".cfi_startproc", [], NULL), (".cfi_def_cfa_offset", [16], NULL)]
                for p in anycfi[s]:
                    lst.append((CFI_DIRECTIVE[p][0], list(CFI_DIRECTIVE[p][1]), sym[s]))
                cfi[gtirb.Offset(cb[s], 0)] = lst
                cfi[gtirb.Offset(cb[s], cb[s].size)] = [(".cfi_endproc", [], NULL)]

    if fmt == "ELF":
        for i, s in enumerate(SYMS):
            if "esi" in pl[s]:
                add_elf_symbol_info(m, sym[s], 8 * i, "FUNC" if i != 1 else "OBJECT", section_index=i + 1)
            if "tab" in pl[s]:
                m.aux_data["elfSymbolTabIdxInfo"].data[sym[s]] = [(".symtab", i + 1), (".dynsym", i + 4)]
        ver = case.get("ver")
        if ver is not None:
            defs, reqs, entries = {}, {}, {}
            nxt = [2]

            def newid():
                nxt[0] += 1
                return nxt[0] - 1

            if ver.get("base"):
                defs[1] = (["libtest.so"], ver["base"])
            vshare = ver.get("vshare", 0)
            shared_def = shared_need = None
            for s in SYMS:
                mode = ver["modes"].get(s, "-")
                hidden = s == "K"
                if mode == "d":
                    if vshare == 1:
                        if shared_def is None:
                            shared_def = newid()
                            defs[shared_def] = (["VERS_1", "VERS_0"], 0)
                        i = shared_def
                    else:
                        i = newid()
                        defs[i] = (["VERS_" + s], 0)
                    entries[sym[s]] = (i, hidden)
                elif mode == "n":
                    if vshare == 1:
                        if shared_need is None:
                            shared_need = newid()
                            reqs.setdefault("libshared.so", {})[shared_need] = "GLIBC_2.2.5"
                        i = shared_need
                    elif vshare == 2:
                        i = newid()
                        reqs.setdefault("libshared.so", {})[i] = "GLIBC_" + s
                    else:
                        i = newid()
                        reqs.setdefault("lib%s.so" % s, {})[i] = "GLIBC_" + s
                    entries[sym[s]] = (i, hidden)
                elif mode == "b":
                    entries[sym[s]] = (1, hidden)
                elif mode == "g":
                    entries[sym[s]] = (0, hidden)
            if ver.get("orphan"):
                defs[newid()] = (["ORPHAN_DEF"], 0)
                reqs["liborphan.so"] = {newid(): "ORPHAN_1"}
                if vshare == 2 and "libshared.so" in reqs:
                    reqs["libshared.so"][newid()] = "ORPHAN_2"
            m.aux_data["elfSymbolVersions"] = gtirb.AuxData(
                (defs, reqs, entries),
                "tuple<mapping<uint16_t,tuple<sequence<string>,uint16_t>>,"
                "mapping<string,mapping<uint16_t,string>>,"
                "mapping<UUID,tuple<uint16_t,bool>>>",
            )
    else:
        imp = [sym[s] for s in ("S1", "K", "S2") if "imp" in pl[s]]
        exp = [sym[s] for s in ("K", "S2", "S1") if "exp" in pl[s]]
        m.aux_data["peImportedSymbols"].data = imp
        m.aux_data["peExportedSymbols"].data = exp

    for name, s in sym.items():
        names[s.uuid] = "symuuid:" + name
    w = World()
    w.ir, w.m, w.sym, w.names = ir, m, sym, names
    return w


# ------------------------------------------------------------------ canonical snapshot
class Canon:
    def __init__(self, m, names):
        self.m = m
        self.names = names

    def node(self, x):
        if isinstance(x, gtirb.Symbol):
            return ("sym" if x.module is self.m else "sym!", x.name)
        if isinstance(x, (gtirb.CodeBlock, gtirb.DataBlock)):
            kind = "code" if isinstance(x, gtirb.CodeBlock) else "data"
            if x.byte_interval is None or x.section is None or x.module is not self.m:
                return (kind + "!", "detached")
            return (kind, x.section.name, x.address)
        if isinstance(x, gtirb.ByteInterval):
            if x.section is None or x.module is not self.m:
                return ("bi!", "detached")
            return ("bi", x.section.name, x.address)
        if isinstance(x, gtirb.ProxyBlock):
            return ("proxy" if x.module is self.m else "proxy!", self.names.get(x.uuid, "?"))
        if isinstance(x, gtirb.Section):
            return ("sec", x.name)
        return ("node", type(x).__name__)

    def val(self, v):
        if isinstance(v, gtirb.Offset):
            e = v.element_id
            if isinstance(e, gtirb.ByteInterval) and e.section is not None and e.address is not None:
                return ("off-bi", e.section.name, e.address + v.displacement)
            return ("off", self.val(e), v.displacement)
        if isinstance(v, gtirb.Node):
            return self.node(v)
        if isinstance(v, uuid.UUID):
            return "NULL" if v.int == 0 else ("uuid", self.names.get(v, "?"))
        if isinstance(v, collections.abc.Mapping):  # dict or gtirb_rewriting's OffsetMapping
            return {self.val(k): self.val(x) for k, x in v.items()}
        if isinstance(v, (list, tuple)):
            return tuple(self.val(x) for x in v)
        if isinstance(v, (set, frozenset, collections.abc.Set)):
            return ("set",) + tuple(sorted((self.val(x) for x in v), key=repr))
        return v

    def expr(self, e):
        attrs = tuple(sorted(str(a) for a in e.attributes))
        if isinstance(e, gtirb.SymAddrConst):
            return ("SAC", e.offset, (self.node(e.symbol),), attrs)
        if isinstance(e, gtirb.SymAddrAddr):
            return ("SAA", e.scale, e.offset, (self.node(e.symbol1), self.node(e.symbol2)), attrs)
        return ("expr", type(e).__name__, tuple(self.node(s) for s in e.symbols), attrs)


def expr_syms(ce):
    return {n for (_, n) in ce[-2]}


def snapshot(ir, m, names):
    C = Canon(m, names)
    symbols = {}
    for s in m.symbols:
        r = s.referent
        symbols.setdefault(s.name, []).append((C.node(r) if r is not None else ("value", s.value), s.at_end))
    aux = {}
    for name, t in m.aux_data.items():
        aux[name] = (t.type_name, C.val(t.data))
    for name, t in ir.aux_data.items():
        aux["ir:" + name] = (t.type_name, C.val(t.data))
    exprs = {}
    blocks = []
    for sec in m.sections:
        for bi in sec.byte_intervals:
            for off, e in bi.symbolic_expressions.items():
                exprs[(sec.name, bi.address + off)] = C.expr(e)
            for b in bi.blocks:
                kind = "code" if isinstance(b, gtirb.CodeBlock) else "data"
                blocks.append((sec.name, b.address, kind, b.size, bytes(b.contents).hex()))
    blocks.sort()
    return {
        "symbols": {k: tuple(sorted(v, key=repr)) for k, v in symbols.items()},
        "aux": aux,
        "exprs": exprs,
        "blocks": tuple(blocks),
    }


def mentions(cv, dnames):
    """Does a canonical value mention one of the (deleted) symbol names?"""
    if isinstance(cv, tuple):
        if len(cv) == 2 and cv[0] in ("sym", "sym!") and cv[1] in dnames:
            return True
        if len(cv) == 2 and cv[0] == "uuid" and isinstance(cv[1], str) and cv[1].startswith("symuuid:") and cv[1][8:] in dnames:
            return True
        return any(mentions(x, dnames) for x in cv)
    if isinstance(cv, dict):
        return any(mentions(k, dnames) or mentions(v, dnames) for k, v in cv.items())
    return False


def owner(cv):
    if mentions(cv, ("K",)):
        return "K"
    if mentions(cv, ("S1", "S2")):
        return "S1-or-S2"
    return "bystander"


# ------------------------------------------------------------------ the oracle (from the statement)
def oracle_versions(data, symD):
    defs, reqs, entries = data
    entries2 = {k: v for k, v in entries.items() if k not in symD}
    used = {v[0] for v in entries2.values()}
    defs2 = {i: d for i, d in defs.items() if i in used or (d[1] & VER_FLG_BASE)}
    reqs2 = {}
    for lib, vs in reqs.items():
        vs2 = {i: v for i, v in vs.items() if i in used}
        if vs2 or not vs:
            reqs2[lib] = vs2
    return (defs2, reqs2, entries2)


def oracle_after(before, dnames):
    symD = {("sym", d) for d in dnames}

    def null(d):
        name, args, s = d
        if s in symD:
            if name in (".cfi_personality", ".cfi_lsda"):
                return (name, (DW_EH_PE_omit,), "NULL")
            return (name, args, "NULL")
        return d

    aux = {}
    for tname, (ty, data) in before["aux"].items():
        if tname in ("elfSymbolInfo", "elfSymbolTabIdxInfo"):
            data = {k: v for k, v in data.items() if k not in symD}
        elif tname == "functionNames":
            data = {k: v for k, v in data.items() if v not in symD}
        elif tname in ("peImportedSymbols", "peExportedSymbols"):
            data = tuple(x for x in data if x not in symD)
        elif tname == "symbolForwarding":
            data = {k: v for k, v in data.items() if k not in symD and v not in symD}
        elif tname == "cfiDirectives":
            data = {off: tuple(null(d) for d in lst) for off, lst in data.items()}
        elif tname == "elfSymbolVersions":
            data = oracle_versions(data, symD)
        aux[tname] = (ty, data)
    return {
        "symbols": {n: v for n, v in before["symbols"].items() if n not in dnames},
        "aux": aux,
        "exprs": {k: e for k, e in before["exprs"].items() if not (expr_syms(e) & set(dnames))},
        "blocks": before["blocks"],
    }


def short(x, n=160):
    s = repr(x)
    return s if len(s) <= n else s[:n] + "..."


def diff_mapping(table, exp, obs, dnames, diffs):
    for k in exp:
        if k not in obs:
            diffs.append(D("entry-wrongly-removed", r_table=table, r_owner=owner((k, exp[k])), entry=short((k, exp[k]))))
        elif obs[k] != exp[k]:
            if mentions(obs[k], dnames):
                diffs.append(D("stale-entry", r_table=table, r_where="value", entry=short((k, obs[k]))))
            else:
                diffs.append(D("entry-changed", r_table=table, r_owner=owner((k, exp[k])), expected=short(exp[k]), got=short(obs[k])))
    for k in obs:
        if k not in exp:
            if mentions(k, dnames):
                diffs.append(D("stale-entry", r_table=table, r_where="key", entry=short((k, obs[k]))))
            elif mentions(obs[k], dnames):
                diffs.append(D("stale-entry", r_table=table, r_where="value", entry=short((k, obs[k]))))
            else:
                diffs.append(D("entry-appeared", r_table=table, entry=short((k, obs[k]))))


def diff_cfi(exp, obs, before, dnames, diffs):
    for off in exp:
        if off not in obs:
            diffs.append(D("entry-wrongly-removed", r_table="cfiDirectives", r_owner=owner(before[off]), entry=short(off)))
            continue
        le, lo, lb = exp[off], obs[off], before[off]
        if not isinstance(lo, tuple) or len(lo) != len(le):
            diffs.append(D("cfi-list-changed", expected=short(le), got=short(lo)))
            continue
        for de, do, dbf in zip(le, lo, lb):
            if de == do:
                continue
            named_deleted = mentions(dbf[2], dnames)
            if not (isinstance(do, tuple) and len(do) == 3):
                diffs.append(D("cfi-directive-malformed", r_directive=dbf[0], got=short(do)))
            elif do[0] != de[0]:
                diffs.append(D("cfi-directive-renamed", r_directive=dbf[0], got=short(do)))
            elif named_deleted and do[2] != "NULL":
                diffs.append(D("cfi-symbol-not-nulled", r_directive=dbf[0], got=short(do)))
            elif named_deleted and do[1] != de[1]:
                k = "cfi-encoding-not-omit" if dbf[0] in (".cfi_personality", ".cfi_lsda") else "cfi-args-changed"
                diffs.append(D(k, r_directive=dbf[0], got=short(do), expected=short(de)))
            else:
                diffs.append(D("cfi-bystander-changed", r_directive=dbf[0], r_owner=owner(dbf), got=short(do), expected=short(de)))
    for off in obs:
        if off not in exp:
            diffs.append(D("entry-appeared", r_table="cfiDirectives", entry=short((off, obs[off]))))


def diff_versions(exp, obs, before, dnames, diffs):
    if not (isinstance(obs, tuple) and len(obs) == 3 and all(isinstance(x, dict) for x in obs)):
        diffs.append(D("versions-table-malformed", got=short(obs)))
        return
    bdefs, breqs, bentries = before
    edefs, ereqs, eentries = exp
    odefs, oreqs, oentries = obs
    used_before = {v[0] for v in bentries.values()}
    for i, d in bdefs.items():
        role = "base" if d[1] & VER_FLG_BASE else ("in-use" if i in edefs else ("orphan" if i not in used_before else "released"))
        if i in edefs and i not in odefs:
            diffs.append(D("verdef-wrongly-dropped", r_role=role, r_flags=d[1], id=i))
        elif i not in edefs and i in odefs:
            diffs.append(D("verdef-not-dropped", r_role=role, r_flags=d[1], id=i))
        elif i in edefs and odefs[i] != edefs[i]:
            diffs.append(D("verdef-changed", r_role=role, got=short(odefs[i]), expected=short(edefs[i])))
    for i in odefs:
        if i not in bdefs:
            diffs.append(D("verdef-appeared", id=i))
    for lib, vs in breqs.items():
        for i, v in vs.items():
            role = "in-use" if i in ereqs.get(lib, {}) else ("orphan" if i not in used_before else "released")
            e_has = i in ereqs.get(lib, {})
            o_has = i in oreqs.get(lib, {})
            if e_has and not o_has:
                diffs.append(D("verneed-wrongly-dropped", r_role=role, lib=lib, id=i))
            elif not e_has and o_has:
                diffs.append(D("verneed-not-dropped", r_role=role, lib=lib, id=i))
            elif e_has and oreqs[lib][i] != v:
                diffs.append(D("verneed-changed", lib=lib, id=i))
        if lib in ereqs and lib not in oreqs:
            if all(i in oreqs.get(lib, {}) for i in ereqs[lib]):
                diffs.append(D("verlib-wrongly-dropped", lib=lib))
        elif lib not in ereqs and lib in oreqs and not oreqs[lib]:
            diffs.append(D("verlib-left-empty", lib=lib))
    for lib, vs in oreqs.items():
        if lib not in breqs:
            diffs.append(D("verlib-appeared", lib=lib))
        else:
            for i in vs:
                if i not in breqs[lib]:
                    diffs.append(D("verneed-appeared", lib=lib, id=i))
    diff_mapping("elfSymbolVersions.entries", eentries, oentries, dnames, diffs)


def compare(exp, obs, before, dnames, diffs, tag=""):
    """Typed differences between the expected and the observed snapshot."""
    # symbols
    for n in dnames:
        if n in obs["symbols"]:
            diffs.append(D(tag + "symbol-still-in-module", sym=n))
    for n, v in exp["symbols"].items():
        if n not in obs["symbols"]:
            diffs.append(D(tag + "kept-symbol-removed", r_owner="K" if n == "K" else "other", sym=n))
        elif obs["symbols"][n] != v:
            diffs.append(D(tag + "kept-symbol-changed", r_owner="K" if n == "K" else "other", sym=n, got=short(obs["symbols"][n]), expected=short(v)))
    for n in obs["symbols"]:
        if n not in before["symbols"]:
            diffs.append(D(tag + "symbol-appeared", sym=n))
    # aux tables
    sub = []
    removed_expr_keys = set(before["exprs"]) - set(exp["exprs"])
    for t, (ty, edata) in exp["aux"].items():
        if t not in obs["aux"]:
            sub.append(D("aux-table-removed", r_table=t))
            continue
        oty, odata = obs["aux"][t]
        if oty != ty:
            sub.append(D("aux-table-type-changed", r_table=t))
        if odata == edata:
            continue
        if t == "cfiDirectives" and isinstance(odata, dict):
            diff_cfi(edata, odata, before["aux"][t][1], dnames, sub)
        elif t == "elfSymbolVersions":
            diff_versions(edata, odata, before["aux"][t][1], dnames, sub)
        elif t == "symbolicExpressionSizes" and isinstance(odata, dict):
            # lenient on entries at offsets of removed expressions
            lenient = {("off-bi", s, a) for (s, a) in removed_expr_keys}
            e2 = {k: v for k, v in edata.items() if k not in lenient}
            o2 = {k: v for k, v in odata.items() if k not in lenient}
            if e2 != o2:
                diff_mapping(t, e2, o2, dnames, sub)
        elif isinstance(edata, dict) and isinstance(odata, dict):
            diff_mapping(t, edata, odata, dnames, sub)
        elif isinstance(edata, tuple) and isinstance(odata, tuple):
            for x in edata:
                if x not in odata:
                    sub.append(D("entry-wrongly-removed", r_table=t, r_owner=owner(x), entry=short(x)))
            for x in odata:
                if x not in edata:
                    if mentions(x, dnames):
                        sub.append(D("stale-entry", r_table=t, r_where="element", entry=short(x)))
                    else:
                        sub.append(D("entry-appeared", r_table=t, entry=short(x)))
            if not sub and list(edata) != list(odata):
                sub.append(D("sequence-reordered-or-duplicated", r_table=t, got=short(odata), expected=short(edata)))
        else:
            sub.append(D("aux-table-changed", r_table=t, got=short(odata), expected=short(edata)))
    # tables that apply() itself creates (leafFunctions) are not this property's business; a stale
    # mention inside any table, old or new, is reported by live_scan
    for d in sub:
        d["kind"] = tag + d["kind"]
    diffs.extend(sub)
    # expressions
    for k, e in before["exprs"].items():
        where = "code" if k[0] == ".text" else "data"
        uses = "deleted+kept" if (expr_syms(e) - set(dnames)) else "deleted-only"
        if k in exp["exprs"]:
            if k not in obs["exprs"]:
                diffs.append(D(tag + "expr-wrongly-removed", r_where=where, r_owner=owner(e), at=short(k)))
            elif obs["exprs"][k] != e:
                diffs.append(D(tag + "expr-changed", r_where=where, at=short(k), got=short(obs["exprs"][k])))
        elif k in obs["exprs"]:
            diffs.append(D(tag + "expr-not-removed", r_where=where, r_uses=uses, at=short(k), got=short(obs["exprs"][k])))
    for k in obs["exprs"]:
        if k not in before["exprs"]:
            diffs.append(D(tag + "expr-appeared", at=short(k)))
    if obs["blocks"] != exp["blocks"]:
        diffs.append(D(tag + "blocks-or-bytes-changed"))


def live_scan(w, deleted, diffs):
    """Generic scan of the live IR for the deleted Symbol objects / UUIDs:
    module.symbols, every aux table (module and IR), every symbolic
    expression, the IR's UUID index."""
    m, ir = w.m, w.ir
    dead = {id(s): n for n, s in deleted.items()}
    dead_uuid = {s.uuid: n for n, s in deleted.items()}

    def walk(v, path):
        if isinstance(v, gtirb.Offset):
            yield from walk(v.element_id, path + "/offset")
        elif isinstance(v, collections.abc.Mapping):
            for k, x in v.items():
                yield from walk(k, path + "/key")
                yield from walk(x, path + "/value")
        elif isinstance(v, (list, tuple, set, frozenset, collections.abc.Set)):
            for x in v:
                yield from walk(x, path)
        else:
            yield v, path

    for n, s in deleted.items():
        if any(x is s for x in m.symbols) or s.module is not None:
            diffs.append(D("live-symbol-still-attached", sym=n))
    for cont, pre in ((m, ""), (ir, "ir:")):
        for tname, t in cont.aux_data.items():
            hit = set()
            for leaf, path in walk(t.data, ""):
                if id(leaf) in dead:
                    hit.add(("object", path))
                elif isinstance(leaf, uuid.UUID) and leaf in dead_uuid:
                    hit.add(("uuid", path))
                elif isinstance(leaf, gtirb.Symbol) and leaf.module is not m:
                    hit.add(("foreign-symbol", path))
            for how, path in sorted(hit):
                diffs.append(D("live-stale-mention", r_table=pre + tname, r_how=how, path=path))
    for bi in m.byte_intervals:
        for off, e in bi.symbolic_expressions.items():
            for s in e.symbols:
                if id(s) in dead:
                    diffs.append(D("live-expression-uses-deleted", sym=dead[id(s)]))


def roundtrip(w):
    buf = io.BytesIO()
    w.ir.save_protobuf_file(buf)
    buf.seek(0)
    ir2 = gtirb.IR.load_protobuf_file(buf)
    return snapshot(ir2, ir2.modules[0], w.names)


# ------------------------------------------------------------------ one case
def uses_of(before, name):
    return [k for k, e in before["exprs"].items() if name in expr_syms(e)]


def check_built(case, before):
    """Harness self-check: every requested place really holds the symbol in the module that was built
    (so that a case cannot be vacuous because of a builder slip)."""
    aux = {t: d for t, (_, d) in before["aux"].items()}
    cfi_name = {p: v[0] for p, v in CFI_DIRECTIVE.items()}
    for s in SYMS:
        y = ("sym", s)
        for p in case["pl"].get(s, ()):
            if p == "esi":
                ok = y in aux["elfSymbolInfo"]
            elif p == "tab":
                ok = y in aux["elfSymbolTabIdxInfo"]
            elif p == "fn":
                ok = y in aux["functionNames"].values()
            elif p == "fwk":
                ok = y in aux["symbolForwarding"]
            elif p == "fwv":
                ok = y in aux["symbolForwarding"].values()
            elif p in cfi_name:
                ok = any(d[0] == cfi_name[p] and d[2] == y for lst in aux["cfiDirectives"].values() for d in lst)
            elif p in ("xc", "xd"):
                sec = ".text" if p == "xc" else ".data"
                ok = any(k[0] == sec and s in expr_syms(e) for k, e in before["exprs"].items())
            elif p == "imp":
                ok = y in aux["peImportedSymbols"]
            elif p == "exp":
                ok = y in aux["peExportedSymbols"]
            else:
                ok = False
            if not ok:
                raise RuntimeError("builder did not realise place %s of %s in %r" % (p, s, case))
        mode = (case.get("ver") or {}).get("modes", {}).get(s, "-")
        if mode != "-" and y not in aux["elfSymbolVersions"][2]:
            raise RuntimeError("builder did not realise version mode of %s in %r" % (s, case))
    if before["symbols"].keys() < set(SYMS):
        raise RuntimeError("symbols missing")


def run_case(case):
    """Returns (diffs, outcome, nontrivial)."""
    w = build(case)
    m, ir = w.m, w.ir
    req = case["req"]
    order = case.get("order") or [s for s in SYMS if s in req]
    before = snapshot(ir, m, w.names)
    check_built(case, before)
    deleted = {n: w.sym[n] for n in order}
    dnames = tuple(sorted(deleted))

    if case.get("stale"):
        # an earlier context on this module queued requests and was abandoned without apply(): nothing of it may survive
        c0 = gtirb_rewriting.RewritingContext(m, [])
        for n0, f0 in case["stale"]:
            c0.delete_symbol(w.sym[n0], force=bool(f0))
        del c0
    ctx = gtirb_rewriting.RewritingContext(m, [])
    if case.get("rt"):
        # the same context also retargets uses: "still use it" is decided at the end of rewriting, i.e. on the module a
        # context with only the retarget requests leaves (differential baseline; what a retarget does is C18's subject)
        wb = build(case)
        cb = gtirb_rewriting.RewritingContext(wb.m, [])
        for a, b in case["rt"]:
            cb.retarget_symbol_uses(wb.sym[a], wb.sym[b])
        try:
            cb.apply()
        except NotImplementedError:
            # the library does not retarget SymAddrAddr expressions (shared data expressions): no baseline, not a C19 matter
            return [], "skipped:retarget-not-implemented", False
        before = snapshot(wb.ir, wb.m, wb.names)
        rt_first = case.get("rt_first", 1)
        if rt_first:
            for a, b in case["rt"]:
                ctx.retarget_symbol_uses(w.sym[a], w.sym[b])
    for n in order:
        for f in REQUESTS[req[n]]:
            if f is None:
                ctx.delete_symbol(w.sym[n])
            else:
                ctx.delete_symbol(w.sym[n], force=f)
    if case.get("rt") and not case.get("rt_first", 1):
        for a, b in case["rt"]:
            ctx.retarget_symbol_uses(w.sym[a], w.sym[b])
    exc = None
    try:
        ctx.apply()
    except Exception as e:  # classified below
        exc = e

    must = sorted(n for n in dnames if EFFECTIVE[req[n]] == (False,) and uses_of(before, n))
    may = sorted(n for n in dnames if len(EFFECTIVE[req[n]]) == 2 and uses_of(before, n))
    diffs = []
    after = snapshot(ir, m, w.names)
    exp = oracle_after(before, dnames)
    nontrivial = any(case["pl"].get(n) for n in dnames) or any(
        (case.get("ver") or {}).get("modes", {}).get(n, "-") != "-" for n in dnames
    )

    if exc is not None:
        if not isinstance(exc, gtirb_rewriting.SymbolUsesRemainingError):
            diffs.append(D("unexpected-exception", r_exc=type(exc).__name__, msg=str(exc)[:160]))
            return diffs, "exception:" + type(exc).__name__, nontrivial
        if not must and not may:
            forced_with_uses = sorted(req[n] for n in dnames if uses_of(before, n))
            diffs.append(D("spurious-error", r_req="+".join(forced_with_uses) or "no-uses", msg=str(exc)[:100]))
        else:
            named = getattr(exc, "symbol", None)
            ok = [n for n in must + may if named is w.sym[n]]
            if not ok:
                diffs.append(D("error-names-wrong-symbol", got=getattr(named, "name", repr(named)), allowed=must + may))
        # the statement is silent about the state after a refused deletion: classify, count, never alarm
        st = []
        left = [n for n in dnames if n in after["symbols"]]
        st.append("syms=" + ("all-kept" if len(left) == len(dnames) else ("none-kept" if not left else "some-kept")))
        aft = {t: after["aux"].get(t) for t in before["aux"]}  # tables apply() adds itself are ignored
        if aft == before["aux"]:
            st.append("aux=untouched(no-mention)" if exp["aux"] == before["aux"] else "aux=untouched")
        elif aft == exp["aux"]:
            st.append("aux=fully-scrubbed")
        else:
            st.append("aux=partly-scrubbed")
        removed = set(before["exprs"]) - set(after["exprs"])
        forced = {n for n in dnames if True in EFFECTIVE[req[n]]}
        removable = {k for k, e in before["exprs"].items() if expr_syms(e) & forced}
        if any(after["exprs"].get(k) != e for k, e in before["exprs"].items() if k not in removed) or set(after["exprs"]) - set(before["exprs"]):
            st.append("exprs=OTHER-CHANGED")
        elif not removed <= removable:
            st.append("exprs=UNFORCED-REMOVED")
        elif not removable:
            st.append("exprs=intact(nothing-forced)")
        else:
            st.append("exprs=forced-subset-removed-or-intact")
        kd = []
        compare(
            {"symbols": {"K": before["symbols"]["K"]} if "K" not in dnames else {}, "aux": {}, "exprs": {}, "blocks": before["blocks"]},
            {"symbols": after["symbols"], "aux": {}, "exprs": {}, "blocks": after["blocks"]},
            {"symbols": after["symbols"], "aux": {}, "exprs": {}, "blocks": before["blocks"]},
            (),
            kd,
        )
        st.append("K+bytes=" + ("same" if not kd else "CHANGED"))
        try:
            rt = roundtrip(w)
            st.append("serializes=" + ("yes" if rt == after else "yes-but-differs"))
        except Exception as e:
            st.append("serializes=NO:" + type(e).__name__)
        return diffs, "refused|" + "|".join(st), nontrivial

    if must:
        where = sorted({("code" if k[0] == ".text" else "data") for n in must for k in uses_of(before, n)})
        diffs.append(D("missing-error", r_req="+".join(sorted({req[n] for n in must})), r_where="+".join(where)))
    live_scan(w, deleted, diffs)
    compare(exp, after, before, dnames, diffs)
    try:
        rt = roundtrip(w)
        if rt != after:
            sub = []
            compare(after, rt, after, dnames, sub, tag="roundtrip-")
            diffs.extend(sub or [D("roundtrip-changed")])
    except Exception as e:
        diffs.append(D("roundtrip-failed", r_exc=type(e).__name__, msg=str(e)[:160]))
    n_removed = len(set(before["exprs"]) - set(after["exprs"]))
    outcome = "deleted%d|exprs-removed=%d|aux-changed=%s" % (
        len(dnames),
        n_removed,
        ",".join(sorted(t for t in before["aux"] if after["aux"].get(t) != before["aux"][t])) or "-",
    )
    return diffs, outcome, nontrivial


# ------------------------------------------------------------------ the bounded space
def _subset(places, mask):
    return [p for i, p in enumerate(places) if mask >> i & 1]


def _with_ver(case):
    """Translate the 'ver' place bit into an elfSymbolVersions configuration."""
    pl = case["pl"]
    modes = {}
    for s, mode in (("S1", "d"), ("S2", "n"), ("K", "d")):
        if "ver" in pl.get(s, ()):
            modes[s] = mode
            pl[s] = [p for p in pl[s] if p != "ver"]
    if modes and case["fmt"] == "ELF":
        case["ver"] = {"modes": modes, "vshare": case["share"], "base": 1}
    return case


KFULL = [("full", 0), ("full", 1)]
KALONE = [("none", 0)]
KSHARE_T = [(k, sh) for k in ("none", "same", "full") for sh in (0, 1)]


def fam_one(tier):
    th = tier == "thorough"
    out = []
    for fmt in ("ELF", "PE"):
        masks = list(range(2 ** len(PLACES[fmt])))
        if th:
            out.append(("one/" + fmt, [masks, KSHARE_T, ["F", "T", "TF", "FT", "FF", "TT"], [0, 1]]))
        else:
            out.append(("one/" + fmt, [masks, KFULL, ["F", "T", "TF"], [0]]))
            out.append(("one-alone/" + fmt, [masks, KALONE, ["T"], [0]]))
    return out


def make_one(name, ch):
    fmt = name.split("/")[1]
    mask, (kprof, share), r, ref = ch
    P = PLACES[fmt]
    s1 = _subset(P, mask)
    k = {"none": [], "same": list(s1), "full": list(P)}[kprof]
    return _with_ver({"fam": "one", "fmt": fmt, "pl": {"S1": s1, "S2": [], "K": k}, "share": share, "req": {"S1": r}, "ref": ref})


def fam_pair(tier):
    th = tier == "thorough"
    out = []
    for fmt in ("ELF", "PE"):
        if th:
            reqs = [(a, b) for a in ("F", "T", "TF") for b in ("F", "T", "TF")]
            ks = KALONE + KFULL
            if fmt == "PE":
                ks, reqs = KFULL, [(a, b) for a in ("F", "T", "TF") for b in ("F", "T")]
            m7 = list(range(128))
            out.append(("pair7/" + fmt, [m7, m7, ks, reqs]))
            reqs2 = [(a, b) for a in ("F", "T", "FT") for b in ("F", "T", "FT") if "FT" in (a, b)]
            out.append(("pair5/" + fmt, [list(range(32)), list(range(32)), KSHARE_T, reqs2]))
        else:
            m5 = list(range(32))
            if fmt == "ELF":
                reqs = [(a, b) for a in ("F", "T") for b in ("F", "T")] + [("TF", "T")]
                alone = [("T", "T")]
            else:
                reqs = [("T", "T"), ("F", "T"), ("T", "TF")]
                alone = [("T", "T")]
            out.append(("pair5/" + fmt, [m5, m5, KFULL, reqs]))
            out.append(("pair5-alone/" + fmt, [m5, m5, KALONE, alone]))
    return out


def make_pair(name, ch):
    fmt = name.split("/")[1]
    g = int(name[4])
    m1, m2, (kprof, share), (r1, r2) = ch
    G = GROUPS[(fmt, g)]

    def places(mask):
        return [p for i, grp in enumerate(G) if mask >> i & 1 for p in grp]

    s1 = places(m1)
    k = {"none": [], "same": list(s1), "full": list(PLACES[fmt])}[kprof]
    return _with_ver({"fam": "pair", "fmt": fmt, "pl": {"S1": s1, "S2": places(m2), "K": k}, "share": share, "req": {"S1": r1, "S2": r2}, "ref": 0})


def fam_ver(tier):
    th = tier == "thorough"
    modes = ["-", "d", "n", "b", "g"] if th else ["-", "d", "n", "b"]
    dels = [["S1"], ["S1", "S2"], ["S1", "S2", "K"]] if th else [["S1"], ["S1", "S2"]]
    return [("ver/ELF", [modes, modes, modes, [0, 1, 2], [None, 1, 3], [0, 1], dels, ["none", "esi+xd"] if th else ["none"]])]


def make_ver(name, ch):
    a, b, c, vshare, base, orphan, dels, extra = ch
    modes = {"S1": a, "S2": b, "K": c}
    if base is None and "b" in (a, b, c):
        return None
    pl = {s: (["esi", "xd"] if extra != "none" else []) for s in SYMS}
    return {
        "fam": "ver",
        "fmt": "ELF",
        "pl": pl,
        "share": 0,
        "ver": {"modes": modes, "vshare": vshare, "base": base, "orphan": orphan},
        "req": {s: "T" for s in dels},
        "ref": 0,
    }


def fam_count(tier):
    th = tier == "thorough"
    R = ["F", "T", "TF", "FT"] if th else ["F", "T", "TF"]
    out = []
    for fmt in ("ELF", "PE"):
        for k in (0, 1, 2, 3):
            out.append(("count%d/%s" % (k, fmt), [[0, 1]] + [R] * k + [[0, 1] if th and k >= 2 else [0]] + [["all", "noexpr"]]))
    return out


def make_count(name, ch):
    fmt = name.split("/")[1]
    k = int(name[5])
    share = ch[0]
    rs = ch[1 : 1 + k]
    rev = ch[1 + k]
    prof = ch[2 + k]
    P = [p for p in PLACES[fmt] if prof == "all" or p not in ("xc", "xd")]
    dels = list(SYMS[:k])
    case = {"fam": "count", "fmt": fmt, "pl": {s: list(P) for s in SYMS}, "share": share, "req": dict(zip(dels, rs)), "ref": 0}
    if rev:
        case["order"] = dels[::-1]
    return _with_ver(case)


def fam_rt(tier):
    th = tier == "thorough"
    out = []
    for fmt in ("ELF", "PE"):
        m5 = list(range(32))
        rts = [(("S1", "K"),), (("S1", "S2"),), (("S1", "K"), ("S2", "K"))]
        reqs = [("F", None), ("T", None), ("F", "T"), ("F", "F")] + ([("TF", "F"), ("T", "T")] if th else [])
        out.append(("rt5/" + fmt, [m5, m5 if th else [0, 31], KFULL if th else [("full", 0)], rts, reqs, [1, 0]]))
    return out


def make_rt(name, ch):
    fmt = name.split("/")[1]
    m1, m2, (kprof, share), rt, (r1, r2), first = ch
    G = GROUPS[(fmt, 5)]

    def places(mask):
        return [p for i, grp in enumerate(G) if mask >> i & 1 for p in grp]

    s1 = places(m1)
    k = {"none": [], "same": list(s1), "full": list(PLACES[fmt])}[kprof]
    req = {"S1": r1}
    if r2 is not None:
        req["S2"] = r2
    return _with_ver({"fam": "rt", "fmt": fmt, "pl": {"S1": s1, "S2": places(m2), "K": k}, "share": share, "req": req, "ref": 0,
                      "rt": [list(x) for x in rt], "rt_first": first})


def fam_stale(tier):
    out = []
    for fmt in ("ELF", "PE"):
        stale = [(("S2", 1),), (("S2", 0),), (("S1", 1),), (("K", 1), ("S2", 1))]
        out.append(("stale5/" + fmt, [[0, 31] if tier == "quick" else list(range(32)), [0, 31], stale, ["F", "T"], [("full", 0)]]))
    return out


def make_stale(name, ch):
    fmt = name.split("/")[1]
    m1, m2, stale, r1, (kprof, share) = ch
    G = GROUPS[(fmt, 5)]

    def places(mask):
        return [p for i, grp in enumerate(G) if mask >> i & 1 for p in grp]

    s1 = places(m1)
    k = {"none": [], "same": list(s1), "full": list(PLACES[fmt])}[kprof]
    return _with_ver({"fam": "stale", "fmt": fmt, "pl": {"S1": s1, "S2": places(m2), "K": k}, "share": share, "req": {"S1": r1}, "ref": 0,
                      "stale": [list(x) for x in stale]})


FAMILIES = {"stale": (fam_stale, make_stale), "one": (fam_one, make_one), "pair": (fam_pair, make_pair), "ver": (fam_ver, make_ver), "count": (fam_count, make_count), "rt": (fam_rt, make_rt)}
CHUNK = {"quick": 1024, "thorough": 8192}


def _spaces(tier):
    for fam, (lister, maker) in FAMILIES.items():
        for name, dims in lister(tier):
            total = 1
            for d in dims:
                total *= len(d)
            yield fam, name, dims, total


def tasks(tier):
    out = []
    for fam, name, dims, total in _spaces(tier):
        n = max(1, -(-total // CHUNK[tier]))
        for i in range(n):
            out.append([tier, fam, name, i, n])
    return out


def task_group(task):
    return task[2]


def _decode(dims, idx):
    ch = []
    for d in reversed(dims):
        idx, r = divmod(idx, len(d))
        ch.append(d[r])
    return tuple(reversed(ch))


def run_task(task):
    tier, fam, name, i, n = task
    res = TaskResult()
    dims = total = None
    for f, nm, d, t in _spaces(tier):
        if nm == name and f == fam:
            dims, total = d, t
    maker = FAMILIES[fam][1]
    for idx in range(i, total, n):
        case = maker(name, _decode(dims, idx))
        if case is None:
            continue
        diffs, outcome, nontrivial = run_case(case)
        res.case(case, nontrivial=nontrivial, outcome=outcome)
        if outcome.startswith("refused|"):
            res.extra["refused:" + outcome[8:]] += 1
        if idx % 997 == 0:
            res.sample(case, cap=1)
        if diffs:
            res.bad(case, diffs)
    return res


def replay(case):
    diffs, _, _ = run_case(case)
    return diffs
