"""
C07  Each registered insertion lands exactly once, exactly where asked.

Modules x scope kinds x positions x function-name filters x 1-3 registrations
over 1-2 passes, run through the real PassManager.  The designated block set is
computed by the reference model from the listing; the invocation multiset, the
InsertionContext and the resulting bytes are compared.
"""
import itertools
import re

from ..core import TaskResult
from ..world import compare as C
from ..world import listing as Lg
from ..world import scen

PROPERTY = "C07"
LEVEL = "exploration"
RULE = (
    "(3-block modules over every pair of terminators x 7 function partitions incl. function-less code before, between and after functions, a function named "
    "main, entry point inside/outside a function, with and without function tables, a data block) x (AllBlocksScope x "
    "3 positions x 6 exclusion filters (none, literal, regex, MAIN, ENTRYPOINT, empty set), AllFunctionsScope x {ENTRY,EXIT} x 3 block positions x 5 filters (incl. empty set and matching nothing), SingleBlockScope "
    "per block x 3 positions) for single registrations; ordered pairs and triples of registrations spread over 1-2 passes "
    "on a reduced module set (two different exclusion filters in one run included; the first patch with and without contents for "
    "another section); all through the real PassManager. A case is one PassManager.run(); non-trivial = the scope "
    "designates at least one block; distinct by (module, registrations)"
)
ASSUMPTIONS = [
    "exit block of a function = a block of it with a return edge or with any non-call edge (a fallthrough after a call included) "
    "to a node outside the function's block set - gtirb_functions' definition, evaluated on the input CFG",
    "ANYWHERE may choose any instruction boundary not after the terminator; the offset handed to the patch is then used as the expected one",
    "x86-64 ELF only",
]
BOUNDS = {"quick": {"registrations": "1 (all), 2 (reduced)", "passes": 2}, "thorough": {"registrations": "1, 2, 3", "passes": 2}}
CAP_S = {"quick": 300, "thorough": 2400}

TERMS = [None, ["jmp", "A"], ["jcc", "A"], ["call", "A"], ["ret"], ["ijmp"], ["icall"], ["syscall"]]
FUNCS = (("f", "f", "g"), ("f", "g", "g"), (None, "f", "f"), ("main", "main", "g"), ("f", "f", "f"), ("f", None, "g"), ("f", "g", None),
         # names with characters that mean something in a regular expression: a literal filter entry is compared, not matched
         ("a.b", "axb", "c$d"))
POS = ("ENTRY", "EXIT", "ANYWHERE")
SCOPES = (
    ["all", None], ["all", "lit"], ["all", "re"], ["all", "main"], ["all", "ep"], ["all", "empty"],
    ["fn-entry", None], ["fn-exit", None], ["fn-entry", "lit-g"], ["fn-exit", "re"], ["fn-entry", "ep"],
    ["fn-entry", "empty"], ["fn-exit", "empty"], ["fn-entry", "nomatch"],
    ["all", "lit-dot"], ["fn-entry", "lit-dot"], ["all", "lit-dollar"], ["fn-exit", "lit-dollar"],
    ["single", "A"], ["single", "B"], ["single", "C"],
)


def make_spec(ta, tb, funcs, functions=True, target="x64-elf"):
    seen = set()
    blocks = []
    for j, (nm, t, f) in enumerate((("A", ta, funcs[0]), ("B", tb, funcs[1]), ("C", ["ret"], funcs[2]))):
        ent = f is not None and f not in seen
        seen.add(f)
        b = scen.code_block(nm, [10 * (j + 1)] if t else [10 * (j + 1), 10 * (j + 1) + 1], t, f=f, e=ent)
        blocks.append(b)
    blocks.append(scen.data_block("D", [1, 2]))
    sp = scen.spec_of(blocks, functions=functions, target=target)
    sp["entry_point"] = "A"
    return sp


def build_scope(w, sc, pos):
    from gtirb_rewriting import AllBlocksScope, AllFunctionsScope, BlockPosition, FunctionPosition, SingleBlockScope
    from gtirb_rewriting.scopes import ENTRYPOINT_NAME, MAIN_NAME

    bp = getattr(BlockPosition, pos)
    kind, flt = sc
    fset = {None: None, "lit": {"F_f"}, "re": {re.compile("F_[fg]")}, "main": {MAIN_NAME}, "ep": {ENTRYPOINT_NAME}, "lit-g": {"F_g"},
            "lit-dot": {"F_a.b"}, "lit-dollar": {"F_c$d"}, "empty": set(), "nomatch": {"F_nope", re.compile("G_.*")}}.get(flt)
    if kind == "all":
        return AllBlocksScope(bp, fset)
    if kind == "fn-entry":
        return AllFunctionsScope(FunctionPosition.ENTRY, bp, fset)
    if kind == "fn-exit":
        return AllFunctionsScope(FunctionPosition.EXIT, bp, fset)
    return SingleBlockScope(w.blocks[flt], bp)


def func_matches(spec, fname, flt):
    """does function `fname` (model id) match the filter?"""
    sym = Lg.fsym_name(fname)
    if flt == "lit":
        return sym == "F_f"
    if flt == "lit-g":
        return sym == "F_g"
    if flt == "lit-dot":
        return sym == "F_a.b"
    if flt == "lit-dollar":
        return sym == "F_c$d"
    if flt == "re":
        return re.fullmatch("F_[fg]", sym) is not None
    if flt == "main":
        return sym == "main"
    if flt in ("empty", "nomatch"):
        return False  # a filter that is an empty set (or matches no name) selects no function
    if flt == "ep":
        _, b = Lg.block_of(spec, spec["entry_point"])
        return b.get("f") == fname and b.get("e")
    raise ValueError(flt)


def designated(spec, sc):
    """model: names of the blocks the scope designates"""
    kind, flt = sc
    blocks = [b for s in spec["sections"] for b in s["blocks"]]
    code = [b for b in blocks if b["k"] == "c"]
    has_f = spec.get("functions", True)
    fn = lambda b: b.get("f") if has_f else None
    if kind == "single":
        return [flt]
    if kind == "all":
        if flt is None:
            return [b["n"] for b in code]
        return [b["n"] for b in code if fn(b) is None or not func_matches(spec, fn(b), flt)]
    sel = [b for b in code if fn(b) is not None and (flt is None or func_matches(spec, fn(b), flt))]
    if kind == "fn-entry":
        return [b["n"] for b in sel if b.get("e")]
    # exit blocks from the input control flow of the listing
    inp = Lg.flatten(spec, Lg.tokens_of(spec), set())
    isa_ = Lg.isamod.TARGETS[spec["target"]][0]
    out = []
    for b in sel:
        # position of the last instruction
        pos = 0
        for s in spec["sections"]:
            p = 0
            for bb in s["blocks"]:
                sz = [isa_.size(tuple(i)) for i in bb["i"]]
                if bb is b:
                    pos = (s["name"], p + sum(sz[:-1]))
                p += sum(sz)
        is_exit = False
        for (src, typ, cond, direct, tg) in inp.edges:
            if src != pos:
                continue
            if typ == "Return":
                is_exit = True
            elif typ not in ("Call", "Syscall"):
                if not isinstance(tg, tuple):
                    is_exit = True  # proxy: outside the function
                else:
                    tf = inp.insns[tg]["f"] if tg in inp.insns else None
                    tk = inp.insns[tg]["bk"] if tg in inp.insns else None
                    if tk != "c" or tf != fn(b):
                        is_exit = True
        if is_exit:
            out.append(b["n"])
    return out


def expected_k(spec, bname, pos):
    _, b = Lg.block_of(spec, bname)
    isa_ = Lg.isamod.TARGETS[spec["target"]][0]
    n = len(b["i"])
    term = n - 1 if n and isa_.is_cti(tuple(b["i"][-1])) else n
    if pos == "ENTRY":
        return [0]
    if pos == "EXIT":
        return [term]
    return list(range(0, term + 1))


def run_case(spec, regs):
    """regs: list of (pass index, scope descriptor, position). -> (diffs, outcome, designated count)"""
    from gtirb_rewriting import Constraints, Pass, PassManager, Patch
    from gtirb_rewriting.rewriting import UnresolvableScopeError

    w = Lg.build(spec)
    if spec.get("entry_point"):
        w.m.entry_point = w.blocks[spec["entry_point"]]
    if not spec.get("functions", True):
        for t in ("functionBlocks", "functionEntries", "functionNames"):
            del w.m.aux_data[t]
    names = {id(v): k for k, v in w.blocks.items()}
    isa_ = w.isa
    log = []
    npass = max(r[0] for r in regs) + 1
    regs3 = [tuple(r[:3]) for r in regs]
    unresolvable = []

    def mk_pass(pi):
        class P(Pass):
            def begin_module(self, module, functions, ctx):
                for ri, reg in enumerate(regs):
                    p, sc, pos = reg[:3]
                    side = len(reg) > 3 and reg[3]
                    if p != pi:
                        continue

                    def asm(ic, ri=ri, side=side):
                        log.append((ri, names.get(id(ic.block), "?"), ic.offset, ic.function.get_name() if ic.function else None))
                        text = isa_.asm(("p", 100 + len(log)))
                        if side:  # the patch also brings contents for another section: they are no part of the block's text
                            text += '\n.section .vfside,"a",@progbits\n.byte 1, 2, 3\n.text\n'
                        return text

                    try:
                        ctx.register_insert(build_scope(w, sc, pos), Patch.from_function(asm, Constraints()))
                    except UnresolvableScopeError:
                        unresolvable.append(ri)

        return P()

    pm = PassManager()
    for pi in range(npass):
        pm.add(mk_pass(pi))
    try:
        pm.run(w.ir)
    except Exception as e:
        return [C.D("passmanager-raised", r_exc=type(e).__name__, msg=str(e)[:100])], "raised", 0
    diffs = []
    mods = []
    ndes = 0
    for ri, (p, sc, pos) in enumerate(regs3):
        needs_f = sc[0].startswith("fn-")
        if needs_f and not spec.get("functions", True):
            if ri not in unresolvable:
                diffs.append(C.D("unresolvable-scope-accepted", r_scope=sc[0]))
            continue
        if ri in unresolvable:
            diffs.append(C.D("scope-spuriously-unresolvable", r_scope=sc[0]))
            continue
        want = sorted(designated(spec, sc))
        got = sorted(e[1] for e in log if e[0] == ri)
        ndes += len(want)
        if got != want:
            diffs.append(C.D("designated-blocks", r_scope=sc[0], r_filter=str(sc[1]), r_pos=pos, expected=want, observed=got,
                             r_rel="missed" if set(want) - set(got) else ("twice" if len(got) != len(set(got)) else "extra")))
            continue
        for li, e in enumerate(log):
            if e[0] != ri:
                continue
            _, bn, off, fname = e
            _, b = Lg.block_of(spec, bn)
            offs = Lg.insn_offsets(isa_, b)
            ks = expected_k(spec, bn, pos)
            if off not in [offs[k] for k in ks]:
                diffs.append(C.D("context-offset", r_pos=pos, block=bn, observed=off, allowed=[offs[k] for k in ks]))
                continue
            f = b.get("f") if spec.get("functions", True) else None
            if fname != (Lg.fsym_name(f) if f else None):
                diffs.append(C.D("context-function", block=bn, observed=fname, expected=f))
            mods.append({"op": "ins", "b": bn, "k": offs.index(off), "p": [["p", 100 + li + 1]], "_reg": ri})
    if diffs:
        return diffs, "diff", ndes
    # bytes: every invocation's tag exactly once, at the designated position, registration order at equal positions
    mods.sort(key=lambda m_: m_["_reg"])
    E, _ = Lg.expected(spec, [{k: v for k, v in m_.items() if k != "_reg"} for m_ in mods])
    O = Lg.observe(w)
    nside = sum(1 for e in log if len(regs[e[0]]) > 3 and regs[e[0]][3])
    if nside:
        E.bytes[".vfside"] = bytes([1, 2, 3]) * nside  # one copy per invocation, in a section of their own
    diffs.extend(C.bytes_diffs(E, O))
    return diffs, ("ok" if not diffs else "diff"), ndes


SPLIT_PATCH = [["p", 0], ["jcc", ".Lsp"], ["p", 0], ["lab", ".Lsp"], ["p", 0]]  # control flow of its own: splits the block it lands in


def run_twice(spec, reg1, reg2, same_manager):
    """Two PassManager runs on one IR: run 1 registers reg1 with a patch that splits blocks, run 2 registers reg2.
    same_manager: both runs use ONE PassManager object; else a fresh one per run.  -> (canonical dump, log of run 2)"""
    from gtirb_rewriting import Constraints, Pass, PassManager, Patch
    from ..world import canon

    w = Lg.build(spec)
    if spec.get("entry_point"):
        w.m.entry_point = w.blocks[spec["entry_point"]]
    isa_ = w.isa
    state = {"run": 0}
    log = []
    split_text = Lg.patch_text(isa_, scen.retag([{"op": "ins", "b": "A", "k": 0, "p": SPLIT_PATCH}])[0]["p"]).replace(".Lsp", ".Lsp")

    class P(Pass):
        def begin_module(self, module, functions, ctx):
            sc, pos = (reg1, reg2)[state["run"]]
            run = state["run"]

            def asm(ic):
                if run == 1:
                    log.append((ic.block.address, ic.offset, ic.function.get_name() if ic.function else None))
                    return isa_.asm(("p", 200 + len(log)))
                return split_text

            ctx.register_insert(build_scope(w, sc, pos), Patch.from_function(asm, Constraints()))

    pm = PassManager()
    pm.add(P())
    pm.run(w.ir)
    state["run"] = 1
    if not same_manager:
        pm = PassManager()
        pm.add(P())
    pm.run(w.ir)
    return canon.dump(w.ir), sorted(log, key=str)


def check_rerun(spec, reg1, reg2):
    try:
        a = run_twice(spec, reg1, reg2, True)
        b = run_twice(spec, reg1, reg2, False)
    except Exception as e:
        return [C.D("passmanager-raised", r_exc=type(e).__name__, msg=str(e)[:100], r_family="rerun")], "raised"
    diffs = []
    if a[1] != b[1]:
        diffs.append(C.D("second-run-of-one-manager-designates-differently", r_scope=reg2[0][0], r_pos=reg2[1], reused=a[1][:6], fresh=b[1][:6]))
    elif a[0] != b[0]:
        from ..world import canon

        diffs.append(C.D("second-run-of-one-manager-differs", r_scope=reg2[0][0], detail=canon.diff(a[0], b[0])[:3]))
    return diffs, ("rerun:ok" if not diffs else "rerun:diff") + ":%d" % len(a[1])


def tasks(tier):
    t = []
    for ai, bi in itertools.product(range(len(TERMS)), repeat=2):
        t.append(("single", ai, bi))
    for ai, bi in ((0, 4), (3, 1), (2, 0)) if tier == "quick" else itertools.product(range(len(TERMS)), repeat=2):
        t.append(("rerun", ai, bi))
    for ai, bi in ((0, 4), (3, 1), (2, 5), (6, 0)) if tier == "quick" else itertools.product(range(len(TERMS)), repeat=2):
        t.append(("multi", ai, bi))
    # the offsets come from disassembly: repeat the single registrations on ARM64 (4-byte instructions)
    for ai, bi in itertools.product(range(len(TERMS) - 1), repeat=2):
        if tier == "thorough" or (ai + bi) % 2 == 0:
            t.append(("single-arm64", ai, bi))
    return t


def task_group(task):
    return task[0]


def run_task(task):
    mode, ai, bi = task
    res = TaskResult()
    ta, tb = TERMS[ai], TERMS[bi]
    if mode in ("single", "single-arm64"):
        target = "arm64-elf" if mode == "single-arm64" else "x64-elf"
        for fi, funcs in enumerate(FUNCS if mode == "single" else FUNCS[:2]):
            for functions in (True, False):
                if not functions and fi > 0:
                    continue
                spec = make_spec(ta, tb, funcs, functions, target)
                for sc in SCOPES:
                    for pos in POS:
                        regs = [(0, sc, pos)]
                        diffs, outcome, nd = run_case(spec, regs)
                        res.case((target, ai, bi, fi, functions, regs), nontrivial=nd > 0, outcome=outcome)
                        if diffs:
                            res.bad({"ta": ai, "tb": bi, "funcs": fi, "functions": functions, "regs": [list(r) for r in regs], "target": target}, diffs)
        res.sample({"module": [ta, tb, list(FUNCS[0])], "regs": [[0, ["all", None], "EXIT"]]}, cap=1)
        return res
    if mode == "rerun":
        # run 1 puts a block-splitting patch at function entries / into every block; run 2 (same manager) designates again
        first = [(["fn-entry", None], "ENTRY"), (["all", None], "ENTRY"), (["fn-exit", "lit"], "EXIT")]
        second = [(sc, pos) for sc in SCOPES if sc[0] != "single" and sc[1] in (None, "lit", "re") for pos in POS]
        for fi in (0, 1, 4):
            spec = make_spec(ta, tb, FUNCS[fi], True)
            for r1 in first:
                for r2 in second:
                    diffs, outcome = check_rerun(spec, r1, r2)
                    res.case(("rerun", ai, bi, fi, r1, r2), nontrivial=not outcome.endswith(":0"), outcome=outcome[:9])
                    if diffs:
                        res.bad({"ta": ai, "tb": bi, "funcs": fi, "functions": True, "rerun": [list(r1), list(r2)]}, diffs)
        res.sample({"module": [ta, tb, list(FUNCS[0])], "rerun": [[["fn-entry", None], "ENTRY"], [["fn-exit", None], "EXIT"]]}, cap=1)
        return res
    # several registrations, 1-2 passes
    scs = [s for s in SCOPES if s in (["all", None], ["all", "lit"], ["all", "re"], ["fn-entry", None], ["fn-exit", None], ["single", "B"])]
    for fi in (0, 2):
        spec = make_spec(ta, tb, FUNCS[fi], True)
        for (s1, p1), (s2, p2) in itertools.product(itertools.product(scs, POS), repeat=2):
            for passes in ((0, 0), (0, 1)):
                # (.., True): the first registration's patch also emits bytes into another section
                for side in ((False, True) if passes == (0, 0) and p1 == "ENTRY" else (False,)):
                    regs = [(passes[0], s1, p1, side), (passes[1], s2, p2, False)]
                    diffs, outcome, nd = run_case(spec, regs)
                    res.case((ai, bi, fi, regs), nontrivial=nd > 0, outcome=outcome)
                    if diffs:
                        res.bad({"ta": ai, "tb": bi, "funcs": fi, "functions": True, "regs": [list(r) for r in regs]}, diffs)
        res.sample({"module": [ta, tb, list(FUNCS[fi])], "regs": [[0, ["all", None], "EXIT"], [1, ["single", "B"], "EXIT"]]}, cap=1)
    return res


def replay(case):
    spec = make_spec(TERMS[case["ta"]], TERMS[case["tb"]], FUNCS[case["funcs"]], case["functions"], case.get("target", "x64-elf"))
    if "rerun" in case:
        r1, r2 = case["rerun"]
        return check_rerun(spec, (r1[0], r1[1]), (r2[0], r2[1]))[0]
    regs = [tuple(r) for r in case["regs"]]
    return run_case(spec, regs)[0]
