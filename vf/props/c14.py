"""
C14  DWARF expression / CFI encodings round-trip and match the standard.

Bounded exhaustive enumeration of the real encoders/decoders in
gtirb_rewriting.dwarf against vf/dwarfref.py, an independent DWARF v4 codec
typed in from the standard (sections 7.6, 7.7.1, 7.23, 6.4.2).

Sub-spaces (task groups):

  static  enum numbers, class inventory, opcode registry, long blocks
  enc     every modelled class x boundary operand vectors x {little,big} x {4,8}
  nest    the three *_expression instructions x register boundaries x nested
          expressions of length <= 2 (thorough: + length 3 over a small alphabet)
  dec     all 256 first bytes of both opcode spaces x operand byte tails
  parse   parse_cfi_instructions on all concatenations of <= 3 instructions
  const   make_const_op / OpConst(v)
"""
import dataclasses
import io
import itertools
import json
import uuid

from gtirb_rewriting.dwarf import _encodable as lib_encodable
from gtirb_rewriting.dwarf import cfi as lib_cfi
from gtirb_rewriting.dwarf import dwarf2 as lib_dwarf2
from gtirb_rewriting.dwarf import expr as lib_expr

from .. import dwarfref as R
from ..core import TaskResult

PROPERTY = "C14"
LEVEL = "exploration"
RULE = (
    "a case is one (operation/instruction class, operand vector, byte order, pointer size) "
    "[enc/nest], one (opcode space, byte string, byte order, pointer size) [dec], one "
    "(instruction sequence, byte order, pointer size) [parse] or one integer [const]; operand "
    "vectors are the cartesian product of each field's boundary set (every point where an "
    "encoder's length or validity changes, +-halo); a case is non-trivial unless it is a second "
    "or later byte tail behind a first byte that is not a DWARF v4 opcode"
)
ASSUMPTIONS = [
    "Decoding of MALFORMED byte strings (unknown opcodes, an operation crossing the end of its block) is outside the "
    "statement, which speaks about encodings of objects the library accepts: such inputs are still enumerated and "
    "their outcomes counted (outcome 'info:...'), but they never raise an alarm (see notes/findings_C14.md, F-C14-1).",
    "The reference codec vf/dwarfref.py is trusted: its tables were typed in from DWARF v4 Figures 24 and 40 and "
    "it is checked against the worked LEB128 examples of Figures 22/23 and known readelf output (dwarfref.selftest).",
    "The 64-bit integer range (operands and make_const_op arguments) is NOT covered value by value: it is covered "
    "by exhaustive windows around every point where any encoder's length or validity changes (2^(7k), 2^(7k-1), "
    "2^(8k), 2^(8k-1), their negatives, range ends, +-halo) plus, for make_const_op, the full window "
    "[-2^17, 2^17] (thorough: [-2^22, 2^22]).  exhaustive:true refers to the stated bounds; the 64-bit sub-space "
    "is a boundary partition (coverage.subspace_exhaustive says which sub-spaces are complete).",
    "Out-of-range operands: the statement does not say when the ValueError has to come, so it is accepted from "
    "the constructor or from encode(); any other exception type, or bytes, is a discrepancy.  The same is "
    "demanded when a valid object is mutated into an out-of-range one before encode().",
    "LEB128 operand forms are unbounded in the standard; the library accepts arbitrarily large values there and "
    "so does the oracle (only the sign is checked for ULEB128).  make_const_op's domain is taken to be "
    "[-2^63, 2^64) as the statement's quantifier says; outside it ValueError is demanded.",
    "make_const_op 'pushes exactly v' is judged on unbounded mathematical integers by the reference evaluator "
    "(no truncation to the target's address size); DW_OP_addr is one of the offered constant encodings but never "
    "strictly shorter than const4u/const8u, so it does not change the minimum.",
    "Decoder on arbitrary bytes: non-canonical (padded) LEB128 is legal DWARF, so 're-encoding equals the consumed "
    "bytes' is checked as 're-encoding equals the canonical encoding of what the reference decoded from the same "
    "bytes, and the consumed count equals the reference's'.  Standard opcodes the library does not model "
    "(fbreg, piece, call*, advance_loc*, set_loc ...) may be rejected with ValueError or decoded consistently.",
    "Truncated input (stream ends inside an instruction) is outside the statement and not part of the oracle; "
    "every byte string in the dec space carries >= 12 filler bytes.  (Observed, not reported as a violation: "
    "truncated fixed-size operands are silently zero-extended, see notes/findings_C14.md.)",
    "gtirb_encoding(): only the re-encoding of (directive, operands) is checked, with the reference's directive "
    "encoder (GNU as / LLVM MC behaviour); that operands fit the aux-data element type int64 is not demanded "
    "(counted in coverage.counters as info:gtirb-operand-beyond-int64).",
    "Byte orders little/big, pointer sizes 4 and 8 only.",
]
BOUNDS = {
    "quick": {
        "halo": 0, "leb_k": 10, "nest_len": 2, "nest_alphabet": "E1", "nest_regs": 6,
        "dec_block_alphabet": 10, "parse_len": 3, "parse_alphabet": 26, "const_window_log2": 17, "const_halo": 3,
    },
    "thorough": {
        "halo": 2, "leb_k": 10, "nest_len": 2, "nest_alphabet": "E2", "nest_len3_alphabet": 14, "nest_regs": 10,
        "dec_block_alphabet": 18, "parse_len": 3, "parse_alphabet": 44, "const_window_log2": 22, "const_halo": 64,
    },
}
CAP_S = {"quick": 400, "thorough": 1800}

CONFIGS = [("little", 4), ("little", 8), ("big", 4), ("big", 8)]
NULL_UUID = uuid.UUID(int=0)

# ---------------------------------------------------------------------------
# library class  <->  DWARF name, typed in from the class names / docstrings of expr.py and cfi.py
# (abstract classes Operation, OpConst, Instruction are not listed)

OP_CLASSES = {
    "OpDup": "DW_OP_dup", "OpDrop": "DW_OP_drop", "OpPick": "DW_OP_pick", "OpOver": "DW_OP_over",
    "OpSwap": "DW_OP_swap", "OpRot": "DW_OP_rot", "OpXDeref": "DW_OP_xderef", "OpDeref": "DW_OP_deref",
    "OpDerefSize": "DW_OP_deref_size",
    "OpAbs": "DW_OP_abs", "OpAnd": "DW_OP_and", "OpDiv": "DW_OP_div", "OpMinus": "DW_OP_minus",
    "OpMod": "DW_OP_mod", "OpMul": "DW_OP_mul", "OpNeg": "DW_OP_neg", "OpNot": "DW_OP_not", "OpOr": "DW_OP_or",
    "OpPlus": "DW_OP_plus", "OpPlusUConst": "DW_OP_plus_uconst", "OpShl": "DW_OP_shl", "OpShr": "DW_OP_shr",
    "OpShrA": "DW_OP_shra", "OpXor": "DW_OP_xor",
    "OpSkip": "DW_OP_skip", "OpBra": "DW_OP_bra", "OpEq": "DW_OP_eq", "OpGe": "DW_OP_ge", "OpGt": "DW_OP_gt",
    "OpLe": "DW_OP_le", "OpLt": "DW_OP_lt", "OpNe": "DW_OP_ne",
    "OpAddr": "DW_OP_addr", "OpConst1U": "DW_OP_const1u", "OpConst1S": "DW_OP_const1s",
    "OpConst2U": "DW_OP_const2u", "OpConst2S": "DW_OP_const2s", "OpConst4U": "DW_OP_const4u",
    "OpConst4S": "DW_OP_const4s", "OpConst8U": "DW_OP_const8u", "OpConst8S": "DW_OP_const8s",
    "OpConstS": "DW_OP_consts", "OpConstU": "DW_OP_constu", "OpLit": "DW_OP_lit",
    "OpReg": "DW_OP_reg", "OpRegX": "DW_OP_regx", "OpBReg": "DW_OP_breg", "OpBRegX": "DW_OP_bregx",
}
CFA_CLASSES = {
    "InstDefCFA": "DW_CFA_def_cfa", "InstDefCFASF": "DW_CFA_def_cfa_sf",
    "InstDefCFARegister": "DW_CFA_def_cfa_register", "InstDefCFAOffset": "DW_CFA_def_cfa_offset",
    "InstDefCFAOffsetSF": "DW_CFA_def_cfa_offset_sf", "InstDefCFAExpression": "DW_CFA_def_cfa_expression",
    "InstUndefined": "DW_CFA_undefined", "InstSameValue": "DW_CFA_same_value", "InstOffset": "DW_CFA_offset",
    "InstOffsetExtended": "DW_CFA_offset_extended", "InstOffsetExtendedSF": "DW_CFA_offset_extended_sf",
    "InstValOffset": "DW_CFA_val_offset", "InstValOffsetSF": "DW_CFA_val_offset_sf",
    "InstRegister": "DW_CFA_register", "InstExpression": "DW_CFA_expression",
    "InstValExpression": "DW_CFA_val_expression", "InstRestore": "DW_CFA_restore",
    "InstRestoreExtended": "DW_CFA_restore_extended", "InstRememberState": "DW_CFA_remember_state",
    "InstRestoreState": "DW_CFA_restore_state", "InstNop": "DW_CFA_nop",
}
OP_BY_DW = {v: k for k, v in OP_CLASSES.items()}
CFA_BY_DW = {v: k for k, v in CFA_CLASSES.items()}
assert len(OP_BY_DW) == len(OP_CLASSES) and len(CFA_BY_DW) == len(CFA_CLASSES)

SPACES = {
    "op": dict(by_dw=OP_BY_DW, classes=OP_CLASSES, mod=lib_expr, table=R.DW_OP, forms=R.op_forms,
               encode=R.op_encode, decode=R.op_decode, base="Operation"),
    "cfa": dict(by_dw=CFA_BY_DW, classes=CFA_CLASSES, mod=lib_cfi, table=R.DW_CFA, forms=R.cfa_forms,
                encode=R.cfa_encode, decode=R.cfa_decode, base="Instruction"),
}
# constant encodings the library offers (the OpConst family, by the table above)
CONST_OFFERED = tuple(n for n in R._CONST_OPS if n in OP_BY_DW)


class Unmodelled(Exception):
    pass


def D(kind, **kw):
    d = {"kind": kind}
    d.update(kw)
    return d


def lib_base(space):
    return getattr(SPACES[space]["mod"], SPACES[space]["base"])


def to_lib(space, t):
    """neutral tuple -> library object (may raise what the constructor raises, or Unmodelled)"""
    sp = SPACES[space]
    name = t[0]
    clsname = sp["by_dw"].get(name)
    if clsname is None:
        raise Unmodelled(name)
    cls = getattr(sp["mod"], clsname)
    args = []
    for form, v in zip(sp["forms"](name), t[1:]):
        if form == "block":
            args.append([to_lib("op", o) for o in v])
        elif form == "bytes":
            raise Unmodelled(name)
        else:
            args.append(v)
    return cls(*args)


def from_lib(obj):
    """library object -> neutral tuple (for diagnostics and comparison)"""
    cn = type(obj).__name__
    name = OP_CLASSES.get(cn) or CFA_CLASSES.get(cn) or ("?" + cn)
    out = [name]
    for f in dataclasses.fields(obj):
        v = getattr(obj, f.name)
        if isinstance(v, list):
            v = [from_lib(o) for o in v]
        out.append(v)
    return tuple(out)


def models(space, t):
    """does the library (per the tables above) model this neutral object, including nested ops?"""
    sp = SPACES[space]
    if t[0] not in sp["by_dw"]:
        return False
    for form, v in zip(sp["forms"](t[0]), t[1:]):
        if form == "block" and not all(models("op", o) for o in v):
            return False
        if form == "bytes":
            return False
    return True


def jsonable(t):
    if isinstance(t, (tuple, list)):
        return [jsonable(x) for x in t]
    if isinstance(t, (bytes, bytearray)):
        return {"hex": bytes(t).hex()}
    return t


def neutral(j):
    """inverse of jsonable for neutral tuples: lists whose first element is a str are tuples"""
    if isinstance(j, list):
        if j and isinstance(j[0], str):
            return tuple(neutral(x) for x in j)
        return [neutral(x) for x in j]
    return j


def exc_name(e):
    return type(e).__name__


# ---------------------------------------------------------------------------
# boundary sets


def leb_points(k_max):
    pts = set()
    for k in range(1, k_max + 1):
        pts |= {2 ** (7 * k) - 1, 2 ** (7 * k), 2 ** (7 * k - 1) - 1, 2 ** (7 * k - 1)}
    for k in range(1, 9):
        pts |= {2 ** (8 * k) - 1, 2 ** (8 * k), 2 ** (8 * k - 1) - 1, 2 ** (8 * k - 1)}
    return pts


def halo_of(points, h):
    out = set()
    for p in points:
        out.update(range(p - h, p + h + 1))
    return out


def boundary(form, tier, embedded_count=None):
    b = BOUNDS[tier]
    h = b["halo"]
    pts = leb_points(b["leb_k"])
    if form == "embedded":
        n = embedded_count
        return sorted(set(range(-1 - h, n + 2 + h)) | {-n, 127, 128, 255, 256})
    core = {-1, 0, 1}
    if form in R.FIXED or form == "addr":
        sizes = (4, 8) if form == "addr" else (R.FIXED[form][0],)
        signed = form != "addr" and R.FIXED[form][1]
        for size in sizes:
            lo, hi = (-(1 << (8 * size - 1)), (1 << (8 * size - 1)) - 1) if signed else (0, (1 << (8 * size)) - 1)
            core |= {lo - 1, lo, hi, hi + 1}
            cand = set(pts)
            if signed:
                cand |= {-p for p in pts} | {-p - 1 for p in pts}
            core |= {p for p in cand if lo - 1 <= p <= hi + 1}
            # far outside / values that would wrap to something valid if truncated
            core |= {(1 << (8 * size)) - 1, 1 << (8 * size), (1 << (8 * size)) + 1, -(1 << (8 * size - 1)),
                     -(1 << (8 * size)), 1 << 64, -(1 << 64)}
        return sorted(halo_of(core, h))
    if form == "uleb":
        core |= pts | {-128, -(1 << 63), 1 << 100}
        return sorted(halo_of(core, h))
    if form == "sleb":
        core |= pts | {-p for p in pts} | {-p - 1 for p in pts} | {1 << 100, -(1 << 100)}
        return sorted(halo_of(core, h))
    raise KeyError(form)


def field_sets(space, name, tier):
    sp = SPACES[space]
    _code, _forms, count = sp["table"][name]
    return [boundary(f, tier, count) for f in sp["forms"](name)]


# ---------------------------------------------------------------------------
# nested expression alphabets


def nest_alphabet(which):
    nullary = [(n,) for n, (c, forms, cnt) in sorted(R.DW_OP.items(), key=lambda kv: kv[1][0])
               if n in OP_BY_DW and not forms and cnt is None]
    e1 = nullary + [
        ("DW_OP_addr", 0), ("DW_OP_addr", 0xFFFFFFFF), ("DW_OP_addr", 1 << 32), ("DW_OP_addr", 1 << 64),
        ("DW_OP_const1u", 255), ("DW_OP_const1s", -128), ("DW_OP_const2u", 0x0102), ("DW_OP_const2s", -32768),
        ("DW_OP_const4u", 0x01020304), ("DW_OP_const4s", -(1 << 31)), ("DW_OP_const8u", (1 << 64) - 1),
        ("DW_OP_const8s", -(1 << 63)), ("DW_OP_constu", 1 << 64), ("DW_OP_constu", 127), ("DW_OP_consts", -65),
        ("DW_OP_consts", 64), ("DW_OP_pick", 255), ("DW_OP_deref_size", 8), ("DW_OP_plus_uconst", 128),
        ("DW_OP_skip", -1), ("DW_OP_bra", 32767), ("DW_OP_lit", 0), ("DW_OP_lit", 31), ("DW_OP_reg", 0),
        ("DW_OP_reg", 31), ("DW_OP_breg", 0, 0), ("DW_OP_breg", 31, -(1 << 63)), ("DW_OP_regx", 128),
        ("DW_OP_bregx", 1 << 32, 1 << 13),
    ]
    if which == "E1":
        return e1
    e2 = e1 + [
        ("DW_OP_addr", 0x01020304), ("DW_OP_addr", 0x0102030405060708), ("DW_OP_addr", (1 << 64) - 1),
        ("DW_OP_const1u", 0), ("DW_OP_const1s", 127), ("DW_OP_const1s", -1), ("DW_OP_const2u", 65535),
        ("DW_OP_const2s", 32767), ("DW_OP_const4u", (1 << 32) - 1), ("DW_OP_const4s", (1 << 31) - 1),
        ("DW_OP_const8u", 0x0102030405060708), ("DW_OP_const8s", (1 << 63) - 1), ("DW_OP_constu", 0),
        ("DW_OP_constu", 16384), ("DW_OP_consts", -(1 << 63)), ("DW_OP_consts", (1 << 63) - 1),
        ("DW_OP_consts", -8193), ("DW_OP_pick", 0), ("DW_OP_deref_size", 0), ("DW_OP_plus_uconst", 0),
        ("DW_OP_skip", 32767), ("DW_OP_skip", -32768), ("DW_OP_bra", -32768), ("DW_OP_bra", 0x0102),
        ("DW_OP_lit", 15), ("DW_OP_lit", 16), ("DW_OP_reg", 16), ("DW_OP_breg", 16, 63), ("DW_OP_breg", 15, -64),
        ("DW_OP_breg", 7, 8), ("DW_OP_regx", 0), ("DW_OP_regx", 1 << 63), ("DW_OP_bregx", 0, 0),
        ("DW_OP_bregx", 127, -(1 << 70)),
    ]
    if which == "E2":
        return e2
    if which == "E3":  # small alphabet for length-3 expressions
        return [("DW_OP_dup",), ("DW_OP_plus",), ("DW_OP_deref",), ("DW_OP_lit", 0), ("DW_OP_lit", 31),
                ("DW_OP_reg", 31), ("DW_OP_breg", 7, 8), ("DW_OP_breg", 31, -129), ("DW_OP_const1u", 0x0F),
                ("DW_OP_const2s", -2), ("DW_OP_constu", 128), ("DW_OP_bregx", 128, -1), ("DW_OP_addr", 0x10),
                ("DW_OP_skip", 3)]
    raise KeyError(which)


def nest_exprs(tier):
    b = BOUNDS[tier]
    alpha = nest_alphabet(b["nest_alphabet"])
    out = [[]]
    for n in range(1, b["nest_len"] + 1):
        out += [list(p) for p in itertools.product(alpha, repeat=n)]
    if b.get("nest_len3_alphabet"):
        a3 = nest_alphabet("E3")[: b["nest_len3_alphabet"]]
        out += [list(p) for p in itertools.product(a3, repeat=3)]
    return out


def nest_regs(tier):
    full = boundary("uleb", tier)
    n = BOUNDS[tier]["nest_regs"]
    pick = [-1, 0, 1, 127, 128, 1 << 64, 16383, 16384, (1 << 32) - 1, 1 << 63][:n]
    return pick, full


BLOCK_INSTS = ("DW_CFA_def_cfa_expression", "DW_CFA_expression", "DW_CFA_val_expression")


# ---------------------------------------------------------------------------
# check of one (object, configuration): encode / decode / directive form


def _decode(space, data, bo, ptr, via=None):
    """-> ('ok', obj, count, position) | ('exc', name, text)"""
    rd = io.BytesIO(data)
    cls = via or lib_base(space)
    try:
        obj, n = cls.decode(rd, bo, ptr)
    except Exception as e:  # noqa: B902  (classified by the caller)
        return ("exc", exc_name(e), str(e)[:120])
    return ("ok", obj, n, rd.tell())


def check_encode(space, t, bo, ptr, res=None):
    """One enc/nest case.  Returns (outcome, diffs)."""
    sp = SPACES[space]
    name = t[0]
    _code, _f, count = sp["table"][name]
    forms = sp["forms"](name)
    ref_ok = R.operands_in_range(forms, t[1:], ptr, count)
    role = dict(r_space=space, r_name=name)
    diffs = []

    # --- construct
    try:
        obj = to_lib(space, t)
    except ValueError:
        if ref_ok:
            return "BAD", [D("valid-operand-rejected", r_stage="construct", **role)]
        # second path: a valid object mutated into this operand vector must be refused by encode() as well
        if "block" not in forms:
            if res is not None:
                res.extra["info:mutated-object-encode-checks"] += 1
            diffs = check_mutated(space, t, bo, ptr)
        return ("rejected-construct" if not diffs else "BAD"), diffs
    except Exception as e:  # noqa: B902
        return "BAD", [D("unclean-exception", r_stage="construct", r_exc=exc_name(e), r_valid=ref_ok, **role)]

    # --- encode
    try:
        enc = bytes(obj.encode(bo, ptr))
    except ValueError:
        if ref_ok:
            return "BAD", [D("valid-operand-rejected", r_stage="encode", **role)]
        outcome = "rejected-encode"
        enc = None
    except Exception as e:  # noqa: B902
        return "BAD", [D("unclean-exception", r_stage="encode", r_exc=exc_name(e), r_valid=ref_ok, **role)]
    else:
        outcome = "ok"
        if not ref_ok:
            return "BAD", [D("out-of-range-operand-encoded", got=enc.hex(), **role)]

    if not ref_ok:
        # second path: a valid object mutated into this operand vector must be refused by encode() as well
        if "block" not in forms:
            if res is not None:
                res.extra["info:mutated-object-encode-checks"] += 1
            diffs += check_mutated(space, t, bo, ptr)
        return (outcome if not diffs else "BAD"), diffs

    want = sp["encode"](t, bo, ptr)
    if enc != want:
        diffs.append(D("bytes-differ-from-standard", got=enc.hex(), want=want.hex(), **role))
        return "BAD", diffs

    # --- decode: exact bytes through the concrete class, bytes + one extra byte through the base class
    for extra, via in ((b"", type(obj)), (b"\xa5", None)):
        r = _decode(space, enc + extra, bo, ptr, via)
        tag = "exact" if not extra else "trailing"
        if r[0] == "exc":
            diffs.append(D("decode-of-own-encoding-raises", r_exc=r[1], r_input=tag, msg=r[2], **role))
            continue
        _ok, dec, n, pos = r
        if not (dec == obj) or type(dec) is not type(obj):
            diffs.append(D("roundtrip-not-equal", r_input=tag, got=jsonable(from_lib(dec)), **role))
        if n != len(enc) or pos != len(enc):
            diffs.append(D("decode-consumed-wrong-count", r_input=tag, reported=n, position=pos, want=len(enc), **role))

    # --- directive form handed to GTIRB
    if space == "cfa":
        diffs += check_directive(obj, want, bo, ptr, role, res)
    return ("ok" if not diffs else "BAD"), diffs


def check_reuse(space, t):
    """ONE object emitted for every configuration in turn (forwards, then backwards): what it hands out for a
    configuration must not depend on what it was asked before.  Returns discrepancies."""
    sp = SPACES[space]
    name = t[0]
    _code, _f, count = sp["table"][name]
    forms = sp["forms"](name)
    role = dict(r_space=space, r_name=name)
    try:
        obj = to_lib(space, t)
    except Exception:  # noqa: B902 (construction is check_encode's business)
        return []
    diffs = []
    for bo, ptr in list(CONFIGS) + list(reversed(CONFIGS)):
        if not R.operands_in_range(forms, t[1:], ptr, count):
            continue
        want = sp["encode"](t, bo, ptr)
        try:
            enc = bytes(obj.encode(bo, ptr))
        except Exception as e:  # noqa: B902
            diffs.append(D("reused-object-encode-raises", r_exc=exc_name(e), r_cfg="%s/%d" % (bo, ptr), **role))
            continue
        if enc != want:
            diffs.append(D("reused-object-bytes-differ", r_form="encode", r_cfg="%s/%d" % (bo, ptr), got=enc.hex(), want=want.hex(), **role))
        if space == "cfa":
            for d in check_directive(obj, want, bo, ptr, role):
                d["kind"] = "reused-object-" + d["kind"]
                d["r_cfg"] = "%s/%d" % (bo, ptr)
                diffs.append(d)
        if diffs:
            break
    if not diffs:
        diffs += check_inplace(space, t, role)
    return diffs


# operations appended to / written into a nested expression after the object was already encoded once
INPLACE_OPS = (("DW_OP_nop",), ("DW_OP_plus_uconst", 300))


def check_inplace(space, t, role):
    """An object that owns an expression list is encoded, the list is then changed IN PLACE (an operation appended, an
    item replaced, an operand of a nested operation assigned) and the object is encoded again: the second encoding must
    be that of the object as it is now."""
    sp = SPACES[space]
    forms = sp["forms"](t[0])
    if "block" not in forms:
        return []
    diffs = []
    bi = list(forms).index("block")
    for bo, ptr in (CONFIGS[0], CONFIGS[-1]):
        for mut in ("append", "replace-first", "assign-nested-operand"):
            try:
                obj = to_lib(space, t)
                first = bytes(obj.encode(bo, ptr))
            except Exception:  # noqa: B902
                return diffs
            lst = getattr(obj, dataclasses.fields(obj)[bi].name)
            new_block = [tuple(o) for o in t[1 + bi]]
            try:
                if mut == "append":
                    lst.append(to_lib("op", INPLACE_OPS[1]))
                    new_block.append(INPLACE_OPS[1])
                elif mut == "replace-first":
                    if not lst:
                        continue
                    lst[0] = to_lib("op", INPLACE_OPS[0])
                    new_block[0] = INPLACE_OPS[0]
                else:
                    k = next((i for i, o in enumerate(new_block) if len(o) > 1 and isinstance(o[1], int)), None)
                    if k is None:
                        continue
                    f0 = dataclasses.fields(lst[k])[0].name
                    nv = 1 if new_block[k][1] != 1 else 2
                    setattr(lst[k], f0, nv)
                    new_block[k] = (new_block[k][0], nv) + tuple(new_block[k][2:])
            except Exception:  # noqa: B902
                continue
            t2 = t[: 1 + bi] + (new_block,) + t[2 + bi:]
            try:
                want = sp["encode"](t2, bo, ptr)
            except Exception:  # noqa: B902 (the mutated vector is outside the reference's domain)
                continue
            r2 = dict(role, r_mutation=mut, r_cfg="%s/%d" % (bo, ptr))
            try:
                enc = bytes(obj.encode(bo, ptr))
            except Exception as e:  # noqa: B902
                diffs.append(D("reencode-after-inplace-change-raises", r_exc=exc_name(e), **r2))
                continue
            if enc != want:
                diffs.append(D("reencode-after-inplace-change-stale" if enc == first else "reencode-after-inplace-change-differs", got=enc.hex(), want=want.hex(), **r2))
            elif space == "cfa":
                for d in check_directive(obj, want, bo, ptr, role):
                    d["kind"] = "inplace-" + d["kind"]
                    d.update(r_mutation=mut)
                    diffs.append(d)
        if diffs:
            break
    return diffs


def check_mutated(space, t, bo, ptr):
    sp = SPACES[space]
    name = t[0]
    forms = sp["forms"](name)
    base = (name,) + tuple([] if f == "block" else 0 for f in forms)
    obj = to_lib(space, base)  # must work: all-zero operands are valid everywhere
    for f, v in zip(dataclasses.fields(obj), t[1:]):
        setattr(obj, f.name, v)
    role = dict(r_space=space, r_name=name)
    try:
        enc = bytes(obj.encode(bo, ptr))
    except ValueError:
        return []
    except Exception as e:  # noqa: B902
        return [D("unclean-exception", r_stage="encode-after-mutation", r_exc=exc_name(e), r_valid=False, **role)]
    return [D("out-of-range-operand-encoded", r_stage="encode-after-mutation", got=enc.hex(), **role)]


def check_directive(obj, want, bo, ptr, role, res=None):
    diffs = []
    try:
        enc = obj.gtirb_encoding(bo, ptr)
        text = obj.assembly_string(bo, ptr)
    except Exception as e:  # noqa: B902
        return [D("directive-form-raises", r_exc=exc_name(e), **role)]
    if not (isinstance(enc, tuple) and len(enc) == 3):
        return [D("directive-form-shape", got=repr(enc)[:100], **role)]
    directive, operands, sym = enc
    if sym != NULL_UUID:
        diffs.append(D("directive-form-symbol", got=repr(sym), **role))
    if not isinstance(operands, list) or any(type(o) is not int for o in operands):
        diffs.append(D("directive-form-operand-type", got=repr(operands)[:100], **role))
        return diffs
    if res is not None and any(not -(1 << 63) <= o < (1 << 63) for o in operands):
        res.extra["info:gtirb-operand-beyond-int64"] += 1
    for what, (d, ops) in (("gtirb_encoding", (directive, operands)), ("assembly_string", (None, None))):
        try:
            if what == "assembly_string":
                d, ops = R.parse_directive_text(text)
            back = R.directive_encode(d, ops, bo, ptr)
        except (R.RefError, ValueError) as e:
            diffs.append(D("directive-form-not-encodable", r_form=what, r_directive=str(d), why=str(e)[:80], **role))
            continue
        if back != want:
            diffs.append(D("directive-form-reencodes-differently", r_form=what, r_directive=d, got=back.hex(),
                           want=want.hex(), **role))
    return diffs


# ---------------------------------------------------------------------------
# dec: decode arbitrary bytes


def classify_malformed(space, data, bo, ptr):
    """Why does the reference refuse `data`?  (coarse, for the discrepancy signature)"""
    table = R.DW_OP_BY_CODE if space == "op" else R.DW_CFA_BY_CODE
    if data[0] not in table:
        return "unknown-opcode"
    # a standard opcode whose block operand is ill-formed
    forms = table[data[0]][2]
    pos = 1
    try:
        for f in forms:
            if f == "block":
                length, p2 = R.uleb_decode(data, pos)
                body = data[p2:p2 + length]
                if p2 + length > len(data):
                    return "truncated"
                q = 0
                try:
                    while q < len(body):
                        _o, q = R.op_decode(body, q, bo, ptr)
                except R.Malformed as e:
                    if "not a DWARF v4 operation" in str(e):
                        return "unknown-opcode-in-block"
                    return "operation-crosses-block-end"
                pos = p2 + length
            else:
                _v, pos = R.operand_decode(f, data, pos, bo, ptr)
    except R.Malformed:
        return "truncated"
    return "other"


def check_decode(space, data, bo, ptr):
    """One dec case.  Returns (outcome, diffs)."""
    sp = SPACES[space]
    role = dict(r_space=space)
    try:
        rt, rn = sp["decode"](data, 0, bo, ptr)
        why = None
    except R.Malformed:
        rt = None
        why = classify_malformed(space, data, bo, ptr)
        if why == "truncated":
            raise AssertionError("harness: truncated byte string in the dec space: " + data.hex())
    got = _decode(space, data, bo, ptr)

    if got[0] == "exc":
        if got[1] != "ValueError":
            if rt is None:
                # malformed byte strings are outside the property statement (it speaks about the
                # encodings of objects the library accepts): counted, never an alarm
                return "info:malformed-input-raised-" + got[1], []
            return "BAD", [D("decode-unclean-exception", r_exc=got[1], r_input=why or "well-formed", msg=got[2], **role)]
        if rt is None:
            return "rejected:" + why, []
        if not models(space, rt):
            return "rejected:unmodelled-standard-opcode", []
        return "BAD", [D("decode-rejects-valid-encoding", r_name=rt[0], msg=got[2], **role)]

    _ok, obj, n, pos = got
    if rt is None:
        # F-C14-1 (notes/findings_C14.md): an operation crossing the end of its block is accepted.
        # Decoding malformed input is outside the statement -> informational outcome, no alarm.
        return "info:decode-accepts-malformed:" + why, []
    diffs = []
    role["r_name"] = rt[0]
    canon = sp["encode"](rt, bo, ptr)
    if n != rn or pos != rn:
        diffs.append(D("decode-consumed-wrong-count", r_input="arbitrary", reported=n, position=pos, want=rn, **role))
    if models(space, rt):
        want_obj = to_lib(space, rt)
        if not (obj == want_obj) or type(obj) is not type(want_obj):
            diffs.append(D("decode-wrong-object", got=jsonable(from_lib(obj)), want=jsonable(rt), **role))
        outcome = "decoded" if canon == data[:rn] else "decoded-noncanonical-leb"
    else:
        outcome = "decoded-unmodelled"
    try:
        back = bytes(obj.encode(bo, ptr))
    except Exception as e:  # noqa: B902
        diffs.append(D("decoded-object-does-not-encode", r_exc=exc_name(e), **role))
    else:
        if back != canon:
            diffs.append(D("decoded-object-reencodes-differently", got=back.hex(), want=canon.hex(), **role))
    return (outcome if not diffs else "BAD"), diffs


FILLERS = (b"\x00" * 12, b"\xa5" * 12)
GENERIC_TAILS = (b"\x00" * 16, b"\xff" * 15 + b"\x00", bytes(range(1, 17)), b"\xa5" * 15 + b"\x25", b"\x01\x30" + b"\x00" * 14)

_FORM_BYTES = {
    "u1": ["00", "01", "7f", "80", "ff"],
    "u2": ["0000", "0100", "0001", "ff7f", "0080", "7fff", "8000", "ffff"],
    "u4": ["00000000", "01020304", "ffffff7f", "00000080", "7fffffff", "80000000", "ffffffff"],
    "u8": ["0000000000000000", "0102030405060708", "ffffffffffffff7f", "0000000000000080", "7fffffffffffffff",
           "8000000000000000", "ffffffffffffffff"],
    "uleb": ["00", "01", "7f", "8001", "ff01", "ff7f", "808001", "8000", "ff00", "80808000", "ffffffffffffffffff01",
             "80808080808080808002"],
    "sleb": ["00", "01", "3f", "40", "7f", "8001", "bf7f", "c000", "ff7e", "8000", "ff7f", "807f",
             "ffffffffffffffffff00", "8080808080808080807f"],
}
for _a, _b in (("s1", "u1"), ("s2", "u2"), ("s4", "u4"), ("s8", "u8"), ("addr", "u8"), ("ref", "u4")):
    _FORM_BYTES[_a] = _FORM_BYTES[_b]


def dec_block_alphabet(tier):
    full = [
        ("DW_OP_dup",), ("DW_OP_lit", 0), ("DW_OP_lit", 31), ("DW_OP_breg", 7, 8), ("DW_OP_breg", 31, -129),
        ("DW_OP_const1u", 0x0F), ("DW_OP_const2s", -2), ("DW_OP_constu", 128), ("DW_OP_addr", 0x10),
        ("DW_OP_bregx", 128, -1),
        ("DW_OP_plus",), ("DW_OP_deref",), ("DW_OP_reg", 31), ("DW_OP_skip", 3), ("DW_OP_const8u", 1 << 63),
        ("DW_OP_plus_uconst", 127), ("DW_OP_regx", 16384), ("DW_OP_ne",),
    ]
    return full[: BOUNDS[tier]["dec_block_alphabet"]]


def dec_blocks(tier, bo, ptr):
    """byte strings for a 'block' operand: well-formed ones and deliberately ill-formed ones"""
    alpha = dec_block_alphabet(tier)
    out = []
    for n in range(0, 3):
        for p in itertools.product(alpha, repeat=n):
            body = R.expr_encode(p, bo, ptr)
            out.append(R.uleb_encode(len(body)) + body)
    out += [
        bytes.fromhex("8000"),  # padded length 0
        bytes.fromhex("810012"),  # padded length 1, DW_OP_dup
        bytes.fromhex("010805"),  # length 1 but DW_OP_const1u needs 2: operation crosses the end of the block
        bytes.fromhex("02310a05"),  # lit1; const2u crossing the end
        bytes.fromhex("0110ff7f"),  # constu whose LEB crosses the end
        bytes.fromhex("0100"),  # 0x00 is not an operation
        bytes.fromhex("023100"),  # lit1, then a non-operation
        bytes.fromhex("01e0"),  # DW_OP_lo_user
        bytes.fromhex("029108"),  # DW_OP_fbreg 8: standard, not modelled by the library
        bytes.fromhex("0196"),  # DW_OP_nop: standard, not modelled
        bytes.fromhex("019c"),  # DW_OP_call_frame_cfa: standard, not modelled
    ]
    return out


def dec_tails(space, first, tier, bo, ptr):
    table = R.DW_OP_BY_CODE if space == "op" else R.DW_CFA_BY_CODE
    ent = table.get(first)
    if ent is None:
        return list(GENERIC_TAILS)
    forms = ent[2]
    per_form = []
    for f in forms:
        if f == "block":
            per_form.append(dec_blocks(tier, bo, ptr))
        elif f == "bytes":
            per_form.append([bytes.fromhex(x) for x in ("00", "01aa", "03010203", "8000")])
        else:
            per_form.append([bytes.fromhex(x) for x in _FORM_BYTES[f]])
    out = []
    for combo in itertools.product(*per_form):
        for fill in FILLERS:
            out.append(b"".join(combo) + fill)
    return out


# ---------------------------------------------------------------------------
# parse: representative instruction set


def parse_alphabet(tier):
    plt = [("DW_OP_breg", 7, 8), ("DW_OP_breg", 16, 0), ("DW_OP_lit", 15), ("DW_OP_and",), ("DW_OP_lit", 11),
           ("DW_OP_ge",), ("DW_OP_lit", 3), ("DW_OP_shl",), ("DW_OP_plus",)]
    full = [
        ("DW_CFA_nop",), ("DW_CFA_remember_state",), ("DW_CFA_restore_state",),
        ("DW_CFA_def_cfa", 7, 8), ("DW_CFA_def_cfa", 128, 16384), ("DW_CFA_def_cfa_sf", 7, -8),
        ("DW_CFA_def_cfa_register", 6), ("DW_CFA_def_cfa_offset", 16), ("DW_CFA_def_cfa_offset_sf", -65),
        ("DW_CFA_def_cfa_expression", plt), ("DW_CFA_def_cfa_expression", []),
        ("DW_CFA_undefined", 16), ("DW_CFA_same_value", 3), ("DW_CFA_offset", 0, 0), ("DW_CFA_offset", 63, 128),
        ("DW_CFA_offset_extended", 64, 2), ("DW_CFA_offset_extended_sf", 64, -2), ("DW_CFA_val_offset", 1, 1),
        ("DW_CFA_val_offset_sf", 1, -1), ("DW_CFA_register", 16, 0),
        ("DW_CFA_expression", 6, [("DW_OP_addr", 0x0C), ("DW_OP_deref",)]),
        ("DW_CFA_val_expression", 16, [("DW_OP_lit", 1)]),
        ("DW_CFA_val_expression", 0, [("DW_OP_const1u", 0x0F), ("DW_OP_skip", 0x0C0B)]),
        ("DW_CFA_restore", 0), ("DW_CFA_restore", 63), ("DW_CFA_restore_extended", 64),
        # ---- thorough only from here
        ("DW_CFA_offset", 32, 1 << 64), ("DW_CFA_offset", 16, 1), ("DW_CFA_restore", 6),
        ("DW_CFA_def_cfa", 0, 0), ("DW_CFA_def_cfa_sf", 1 << 32, 1 << 62), ("DW_CFA_def_cfa_register", 1 << 21),
        ("DW_CFA_def_cfa_offset", 0), ("DW_CFA_def_cfa_offset_sf", 64), ("DW_CFA_undefined", 0),
        ("DW_CFA_same_value", 127), ("DW_CFA_register", 128, 129), ("DW_CFA_restore_extended", 0),
        ("DW_CFA_val_offset", 300, 70000), ("DW_CFA_offset_extended", 0, 0),
        ("DW_CFA_expression", 0, []), ("DW_CFA_expression", 128, [("DW_OP_dup",)] * 128),
        ("DW_CFA_val_expression", 7, [("DW_OP_bregx", 200, -300), ("DW_OP_const8s", -2)]),
        ("DW_CFA_def_cfa_expression", [("DW_OP_const4u", 0x0F100016), ("DW_OP_constu", 0x0F)]),
    ]
    return full[: BOUNDS[tier]["parse_alphabet"]]


def check_parse(seq, bo, ptr):
    data = b"".join(R.cfa_encode(i, bo, ptr) for i in seq)
    assert R.cfa_decode_all(data, bo, ptr) == list(seq), "harness: reference does not invert itself"
    want = [to_lib("cfa", i) for i in seq]
    role = dict(r_len=len(seq))
    try:
        got = list(lib_cfi.parse_cfi_instructions(data, bo, ptr))
    except Exception as e:  # noqa: B902
        return "BAD", [D("parse-raises", r_exc=exc_name(e), msg=str(e)[:100], **role)]
    if got != want or [type(g) for g in got] != [type(w) for w in want]:
        return "BAD", [D("parse-does-not-invert-concatenation", got=jsonable([from_lib(g) for g in got]), **role)]
    return "ok", []


# ---------------------------------------------------------------------------
# const


def const_boundary_values(tier):
    h = BOUNDS[tier]["const_halo"]
    vals = set()
    for k in range(0, 65):
        for d in range(-h, h + 1):
            vals.add((1 << k) + d)
            vals.add(-(1 << k) + d)
    for k in range(1, 11):  # every LEB128 length boundary, unsigned and signed
        for e in (7 * k, 7 * k - 1):
            for d in range(-h, h + 1):
                vals.add((1 << e) + d)
                vals.add(-(1 << e) + d)
    for d in range(0, h + 1):  # just outside the 64-bit domain
        vals.add((1 << 64) + d)
        vals.add(-(1 << 63) - 1 - d)
    vals |= {1 << 65, -(1 << 64), 1 << 100, -(1 << 100), (1 << 70) - 1}
    return sorted(vals)


def check_const(v, factory):
    fn = lib_expr.make_const_op if factory == "make_const_op" else lib_expr.OpConst
    role = dict(r_factory=factory)
    domain = R.const_min_len(v, 8, CONST_OFFERED) is not None
    try:
        op = fn(v)
    except ValueError:
        if domain:
            return "BAD", [D("const-valid-value-rejected", **role)]
        return "rejected", []
    except Exception as e:  # noqa: B902
        return "BAD", [D("unclean-exception", r_stage="make_const_op", r_exc=exc_name(e), r_valid=domain, **role)]
    if not domain:
        return "BAD", [D("const-out-of-domain-accepted", got=repr(op), **role)]
    cn = type(op).__name__
    if OP_CLASSES.get(cn) not in CONST_OFFERED:
        return "BAD", [D("const-not-a-literal-encoding", r_class=cn, **role)]
    diffs = []
    for bo, ptr in CONFIGS:
        try:
            enc = bytes(op.encode(bo, ptr))
        except Exception as e:  # noqa: B902
            diffs.append(D("const-does-not-encode", r_exc=exc_name(e), r_class=cn, **role))
            break
        try:
            ops = R.expr_decode(enc, bo, ptr)
            stack = R.eval_expr(ops)
        except R.RefError as e:
            diffs.append(D("const-bytes-not-a-literal", r_class=cn, got=enc.hex(), why=str(e)[:60], **role))
            break
        if stack != [v]:
            diffs.append(D("const-pushes-wrong-value", r_class=cn, got=stack[-1:] and stack[-1], bytes=enc.hex(), **role))
            break
        best = R.const_min_len(v, ptr, CONST_OFFERED)
        if len(enc) != best:
            alts = R.const_encodings(v, ptr, CONST_OFFERED)
            diffs.append(D("const-not-shortest", r_class=cn, length=len(enc), shortest=best,
                           r_shorter=sorted(n for n, ln in alts.items() if ln == best)[0], **role))
            break
    return (OP_CLASSES[cn] if not diffs else "BAD"), diffs


# ---------------------------------------------------------------------------
# static checks


def all_concrete_subclasses(base):
    out = []
    todo = [base]
    while todo:
        c = todo.pop()
        for s in c.__subclasses__():
            todo.append(s)
            if s._opcode is not None:
                out.append(s)
    return sorted(set(out), key=lambda c: c.__name__)


def static_checks(which):
    """-> list of (key, outcome, diffs)"""
    out = []
    if which == "enum":
        for space, enum, table, prefix, lo_user, hi_user in (
            ("op", lib_dwarf2.ExpressionOperations, R.DW_OP, "DW_OP_", R.DW_OP_lo_user, R.DW_OP_hi_user),
            ("cfa", lib_dwarf2.CallFrameInstructions, R.DW_CFA, "DW_CFA_", R.DW_CFA_lo_user, R.DW_CFA_hi_user),
        ):
            for member, val in enum.__members__.items():
                val = int(val)
                std = prefix + member.rstrip("_")
                fam = std.rstrip("0123456789")
                want = None
                if std in table:
                    want = table[std][0]
                elif fam in table and table[fam][2] and std != fam:
                    want = table[fam][0] + int(std[len(fam):])
                diffs = []
                if want is None:
                    if not lo_user <= val <= hi_user:
                        diffs.append(D("enum-member-neither-standard-nor-user-range", r_space=space, member=member, value=val))
                    oc = "vendor-extension"
                elif want != val:
                    diffs.append(D("enum-number-differs-from-standard", r_space=space, member=member, value=val, want=want))
                    oc = "BAD"
                else:
                    oc = "standard-number"
                out.append((("enum", space, member), oc, diffs))
    elif which == "classes":
        for space in ("op", "cfa"):
            sp = SPACES[space]
            have = {c.__name__ for c in all_concrete_subclasses(lib_base(space))}
            for cn in sorted(have | set(sp["classes"])):
                diffs = []
                if cn not in sp["classes"]:
                    diffs.append(D("class-unknown-to-the-reference-map", r_space=space, r_class=cn))
                elif cn not in have:
                    diffs.append(D("class-missing-from-library", r_space=space, r_class=cn))
                else:
                    # field count / arity agrees with the standard's operand list
                    cls = getattr(sp["mod"], cn)
                    nf = len(dataclasses.fields(cls))
                    if nf != len(sp["forms"](sp["classes"][cn])):
                        diffs.append(D("class-arity-differs-from-standard", r_space=space, r_class=cn, fields=nf))
                out.append((("class", space, cn), "inventory", diffs))
    elif which == "registry":
        for space, enum, by_code in (("op", lib_dwarf2.ExpressionOperations, R.DW_OP_BY_CODE),
                                     ("cfa", lib_dwarf2.CallFrameInstructions, R.DW_CFA_BY_CODE)):
            sp = SPACES[space]
            reg = lib_encodable._OpcodeEncodable._per_type_storage[enum].opcodes
            for code in range(256):
                cls = reg.get(code)
                std = by_code.get(code)
                diffs = []
                if cls is None:
                    oc = "unregistered"
                else:
                    dw = sp["classes"].get(cls.__name__)
                    if std is None or dw != std[0]:
                        diffs.append(D("registry-maps-opcode-to-wrong-class", r_space=space, code=code,
                                       r_class=cls.__name__, want=std and std[0]))
                    oc = "registered"
                if cls is None and std is not None and std[0] in sp["by_dw"]:
                    diffs.append(D("registry-misses-modelled-opcode", r_space=space, code=code, want=std[0]))
                out.append((("registry", space, code), oc, diffs))
    elif which == "longblock":
        # block length prefixes at the ULEB128 length boundaries
        for n in (127, 128, 16383, 16384):
            for name, args in (("DW_CFA_def_cfa_expression", ()), ("DW_CFA_val_expression", (129,))):
                t = (name,) + args + ([("DW_OP_dup",)] * n,)
                for bo, ptr in CONFIGS:
                    oc, diffs = check_encode("cfa", t, bo, ptr)
                    out.append((("longblock", name, n, bo, ptr), oc, diffs))
    elif which == "nestmut":
        # an operation inside an instruction is mutated out of range after construction
        for opname, attr, bad in (("DW_OP_const1u", "value", 256), ("DW_OP_const2s", "value", -32769),
                                  ("DW_OP_lit", "value", 32), ("DW_OP_breg", "register", 32),
                                  ("DW_OP_regx", "register", -1), ("DW_OP_addr", "value", 1 << 64)):
            for bo, ptr in CONFIGS:
                forms = R.op_forms(opname)
                op = to_lib("op", (opname,) + tuple(0 for _ in forms))
                inst = lib_cfi.InstValExpression(1, [lib_expr.OpDup(), op])
                setattr(op, attr, bad)
                role = dict(r_space="cfa", r_name="DW_CFA_val_expression", r_inner=opname)
                try:
                    enc = bytes(inst.encode(bo, ptr))
                    diffs = [D("out-of-range-operand-encoded", r_stage="nested-after-mutation", got=enc.hex(), **role)]
                except ValueError:
                    diffs = []
                except Exception as e:  # noqa: B902
                    diffs = [D("unclean-exception", r_stage="nested-after-mutation", r_exc=exc_name(e), r_valid=False, **role)]
                out.append((("nestmut", opname, bo, ptr), "rejected-encode" if not diffs else "BAD", diffs))
    else:
        raise KeyError(which)
    return out


STATIC = ("enum", "classes", "registry", "longblock", "nestmut")

# ---------------------------------------------------------------------------
# task list

TARGET = {"quick": 9000, "thorough": 60000}  # operand vectors (x4 configurations) per task


def _enc_names(space):
    sp = SPACES[space]
    return [n for n in sorted(sp["by_dw"], key=lambda n: sp["table"][n][0])]


def _vector_count(space, name, tier):
    n = 1
    for s in field_sets(space, name, tier):
        n *= len(s)
    return n


def _tasks_plain(tier):
    t = [["static", w] for w in STATIC]
    # enc: nullary classes in one task per space, the others split by size
    for space in ("op", "cfa"):
        nullary = []
        for name in _enc_names(space):
            forms = SPACES[space]["forms"](name)
            if "block" in forms:
                continue
            if not forms:
                nullary.append(name)
                continue
            total = _vector_count(space, name, tier)
            chunks = max(1, -(-total // TARGET[tier]))
            t += [["enc", space, [name], c, chunks] for c in range(chunks)]
        t.append(["enc", space, nullary, 0, 1])
    # nest
    nexpr = len(nest_exprs(tier))
    pick, full = nest_regs(tier)
    for name in BLOCK_INSTS:
        nregs = 1 if name == "DW_CFA_def_cfa_expression" else len(pick)
        total = nexpr * nregs
        chunks = max(2, -(-total // (TARGET[tier] // 2)))
        t += [["nest", name, c, chunks] for c in range(chunks)]
    t.append(["nestregs"])
    # dec: 16 first bytes per task; the block-carrying CFA opcodes on their own
    for space in ("op", "cfa"):
        for lo in range(0, 256, 16):
            firsts = [b for b in range(lo, lo + 16) if not (space == "cfa" and b in (0x0F, 0x10, 0x16))]
            t.append(["dec", space, firsts, None])
    for first in (0x0F, 0x10, 0x16):
        for bo, ptr in CONFIGS:
            t.append(["dec", "cfa", [first], [bo, ptr]])
    # parse
    t += [["parse", i] for i in range(len(parse_alphabet(tier)))]
    # const
    w = 1 << BOUNDS[tier]["const_window_log2"]
    nchunk = 32 if tier == "quick" else 256
    step = -(-(2 * w + 1) // nchunk)
    lo = -w
    while lo <= w:
        t.append(["const", "window", lo, min(w, lo + step - 1)])
        lo += step
    t.append(["const", "boundary", 0, 0])
    return t


def task_group(task):
    return task[0] if task[0] != "nestregs" else "nest"


def _run(task, tier):
    res = TaskResult()
    res.notes["subspace_exhaustive"] = {
        "opcode spaces (256 first bytes x 2)": True,
        "modelled classes x boundary operand vectors": True,
        "make_const_op full window": True,
        "64-bit operand / make_const_op range": False,
    }
    kind = task[0]
    if kind == "static":
        for key, oc, diffs in static_checks(task[1]):
            res.case(key, outcome="static:" + oc)
            if diffs:
                res.bad({"t": "static", "which": task[1], "key": jsonable(key)}, diffs)
        res.sample({"t": "static", "which": task[1]}, cap=1)
    elif kind == "enc":
        _k, space, names, chunk, chunks = task
        for name in names:
            vectors = itertools.product(*field_sets(space, name, tier))
            for args in itertools.islice(vectors, chunk, None, chunks):
                t = (name,) + tuple(args)
                for bo, ptr in CONFIGS:
                    _one_enc(res, space, t, bo, ptr)
    elif kind == "nest":
        _k, name, chunk, chunks = task
        exprs = nest_exprs(tier)
        pick, _full = nest_regs(tier)
        regs = [()] if name == "DW_CFA_def_cfa_expression" else [(r,) for r in pick]
        vectors = itertools.product(regs, exprs)
        for reg, ex in itertools.islice(vectors, chunk, None, chunks):
            t = (name,) + reg + (ex,)
            for bo, ptr in CONFIGS:
                _one_enc(res, "cfa", t, bo, ptr, group="nest")
    elif kind == "nestregs":
        # full register boundary set x expressions of length <= 1
        alpha = nest_alphabet(BOUNDS[tier]["nest_alphabet"])
        exprs = [[]] + [[a] for a in alpha]
        _pick, full = nest_regs(tier)
        for name in BLOCK_INSTS[1:]:
            for r in full:
                for ex in exprs:
                    for bo, ptr in CONFIGS:
                        _one_enc(res, "cfa", (name, r, ex), bo, ptr, group="nest")
    elif kind == "dec":
        _k, space, firsts, cfg = task
        cfgs = [tuple(cfg)] if cfg else CONFIGS
        table = R.DW_OP_BY_CODE if space == "op" else R.DW_CFA_BY_CODE
        for first in firsts:
            for bo, ptr in cfgs:
                for i, tail in enumerate(dec_tails(space, first, tier, bo, ptr)):
                    data = bytes([first]) + tail
                    oc, diffs = check_decode(space, data, bo, ptr)
                    case = {"t": "dec", "space": space, "hex": data.hex(), "bo": bo, "ptr": ptr}
                    res.case(("dec", space, data.hex(), bo, ptr), nontrivial=(first in table or i == 0),
                             outcome="dec:" + space + ":" + oc)
                    if diffs:
                        res.bad(case, diffs)
                    elif first in table:
                        res.sample(case, cap=2)
    elif kind == "parse":
        alpha = parse_alphabet(tier)
        first = alpha[task[1]]
        seqs = [(first,)] + [(first, a) for a in alpha] + [(first, a, b) for a in alpha for b in alpha]
        if task[1] == 0:
            seqs.insert(0, ())
        for seq in seqs:
            for bo, ptr in CONFIGS:
                oc, diffs = check_parse(seq, bo, ptr)
                res.case(("parse", jsonable(seq), bo, ptr), outcome="parse:%d:%s" % (len(seq), oc))
                case = {"t": "parse", "seq": jsonable(seq), "bo": bo, "ptr": ptr}
                if diffs:
                    res.bad(case, diffs)
                elif len(seq) == 3:
                    res.sample(case, cap=1)
    elif kind == "const":
        _k, sub, lo, hi = task
        if sub == "window":
            values = range(lo, hi + 1)
        else:
            values = const_boundary_values(tier)
        for v in values:
            factories = ("make_const_op", "OpConst") if (sub == "boundary" or abs(v) <= 4096) else ("make_const_op",)
            for factory in factories:
                oc, diffs = check_const(v, factory)
                res.case(("const", v, factory), outcome="const:" + oc)
                case = {"t": "const", "v": v, "factory": factory}
                if diffs:
                    res.bad(case, diffs)
                elif sub == "boundary" and abs(v) > (1 << 32):
                    res.sample(case, cap=2)
    elif kind == "hist":
        # every sequence of 2 (thorough: 2 or 3) configurations, each in an interpreter of its own: what one configuration
        # leaves behind in the process (memoised domains, caches on shared encoder objects) must not reach the next
        depth = 3 if tier == "thorough" else 2
        for n in range(2, depth + 1):
            for rest in itertools.product(range(len(CONFIGS)), repeat=n - 1):
                cfgs = [list(CONFIGS[i]) for i in (task[1],) + rest]
                diffs = run_hist(cfgs)
                res.case(("hist", jsonable(cfgs)), outcome="hist:" + ("ok" if not diffs else "diff"))
                if diffs:
                    res.bad({"t": "hist", "cfgs": cfgs}, diffs)
                else:
                    res.sample({"t": "hist", "cfgs": cfgs}, cap=1)
    else:
        raise KeyError(kind)
    return res


def _one_enc(res, space, t, bo, ptr, group="enc"):
    if (bo, ptr) == CONFIGS[0] and (group == "nest" or space == "cfa" or t[0] == "DW_OP_addr"):
        # once per operand vector: the object-reuse check (objects whose bytes can depend on the configuration)
        rd = check_reuse(space, t)
        res.case((group, "reuse", space, jsonable(t)), outcome=group + ":reuse-" + ("ok" if not rd else "BAD"))
        if rd:
            res.bad({"t": "reuse", "space": space, "obj": jsonable(t)}, rd)
    oc, diffs = check_encode(space, t, bo, ptr, res)
    res.case((group, space, jsonable(t), bo, ptr), outcome=group + ":" + oc)
    case = {"t": "enc", "space": space, "obj": jsonable(t), "bo": bo, "ptr": ptr}
    if diffs:
        res.bad(case, diffs)
    elif len(t) > 1 and oc == "ok":
        res.sample(case, cap=2)


# ---------------------------------------------------------------------------
# process histories: the same objects under one configuration after another, in a fresh interpreter
HIST_RUNNER = r"""
import sys, json
sys.path.insert(0, %(root)r)
from vf.props import c14
print(json.dumps(c14.run_hist_inproc(json.loads(%(cfgs)r))))
"""


def hist_objects():
    e1 = nest_alphabet("E1")
    objs = [("op", t) for t in e1]
    objs += [("cfa", ("DW_CFA_def_cfa_expression", [t])) for t in e1 if t[0] in ("DW_OP_addr", "DW_OP_const8u", "DW_OP_constu", "DW_OP_breg")]
    objs += [("cfa", ("DW_CFA_val_expression", 7, [t, ("DW_OP_plus",)])) for t in e1 if t[0] == "DW_OP_addr"]
    return objs


def run_hist_inproc(cfgs):
    out = []
    for step, (bo, ptr) in enumerate(cfgs):
        for space, t in hist_objects():
            _oc, diffs = check_encode(space, t, bo, ptr)
            for d in diffs:
                d["r_step"] = step
                out.append(d)
        seq = (("DW_CFA_def_cfa_expression", [("DW_OP_addr", 0x10), ("DW_OP_deref",)]), ("DW_CFA_nop",), ("DW_CFA_def_cfa_expression", [("DW_OP_addr", 0x10), ("DW_OP_deref",)]))
        for _ in range(2):  # the same bytes parsed twice
            _oc, diffs = check_parse(seq, bo, ptr)
            for d in diffs:
                d["r_step"] = step
                out.append(d)
    return out


def run_hist(cfgs):
    import os
    import subprocess
    import sys

    root = os.path.dirname(os.path.dirname(os.path.dirname(os.path.abspath(__file__))))
    code = HIST_RUNNER % {"root": root, "cfgs": json.dumps(cfgs)}
    p = subprocess.run([sys.executable, "-c", code], capture_output=True, text=True, env=dict(os.environ), timeout=600)
    if p.returncode != 0:
        raise RuntimeError("history sub-process failed: " + p.stderr[-400:])
    return json.loads(p.stdout.strip().splitlines()[-1])


# tasks carry their tier as the last element so that workers need no global state
def tasks(tier):
    return [t + [tier] for t in _tasks_plain(tier)] + [["hist", i, tier] for i in range(len(CONFIGS))]


def run_task(task):
    return _run(task[:-1], task[-1])


def replay(case):
    t = case["t"]
    if t == "static":
        key = case["key"]
        out = []
        for k, _oc, diffs in static_checks(case["which"]):
            if jsonable(k) == key:
                out += diffs
        return out
    if t == "enc":
        return check_encode(case["space"], neutral(case["obj"]), case["bo"], case["ptr"])[1]
    if t == "dec":
        return check_decode(case["space"], bytes.fromhex(case["hex"]), case["bo"], case["ptr"])[1]
    if t == "parse":
        return check_parse(tuple(neutral(case["seq"])), case["bo"], case["ptr"])[1]
    if t == "const":
        return check_const(case["v"], case["factory"])[1]
    if t == "hist":
        return run_hist(case["cfgs"])
    if t == "reuse":
        return check_reuse(case["space"], neutral(case["obj"]))
    raise KeyError(t)


R.selftest()
