"""
C04  Symbolic expressions and offset-keyed aux data travel with bytes.
"""
import itertools

import gtirb

from ..core import TaskResult
from ..world import compare as C
from ..world import listing as Lg
from ..world import scen
from ..world.run import run_scenario

PROPERTY = "C04"
LEVEL = "exploration"
RULE = (
    "(3-block interval with symbolic expressions in code operands and data words) x (comment/padding annotations on "
    "every subset of <= 2 byte offsets, keyed by block or by byte interval) x (all non-overlapping sets of <= N edit "
    "atoms at every boundary, patches creating expressions to an existing code/data/external symbol, to their own "
    "label, with addend and with @PLT, PIE and non-PIE); a case is one apply(); non-trivial = some annotation or "
    "expression is expected at a different position than in the input, or is created/removed; distinct by (layout, "
    "annotation placement, mods)"
)
ASSUMPTIONS = [
    "annotations sit on instruction/data-cell bytes (any byte of them); an annotation of a removed byte must disappear",
    "symbolic expression = (position, symbol identity, addend, attributes, symbolicExpressionSizes entry)",
    "CFI directives are covered by C08; x86-64 ELF plus one ARM64 ELF module for relocation-modifier expressions (adrp / :lo12: with addends)",
]
BOUNDS = {"quick": {"set_size": 2, "annotation_subsets": 2}, "thorough": {"set_size": 3, "annotation_subsets": 2}}
CAP_S = {"quick": 400, "thorough": 2400}

PATCHES = {
    "ord": [["p", 0]],
    "lea_code": [["lea", "C"], ["p", 0]],
    "lea_data": [["p", 0], ["lea", "DD"]],
    "lea_add": [["leaa", "DD", 4]],
    "call_ext": [["call", "ext"], ["p", 0]],
    "call_plt": [["callplt", "ext"], ["p", 0]],
    "own_label": [["lab", ".Lx"], ["p", 0], ["jcc", ".Lx"], ["lea", ".Lx"]],
    # a pc-relative operand that is not the last field of its instruction (an immediate follows it)
    "cmp_mem": [["cmpm", "DD"], ["p", 0], ["cmpm", "C", 2]],
    # patches that arrive as several blocks: what is behind the insertion point is re-joined onto a *patch* block
    "multi_jcc": [["p", 0], ["jcc", "C"], ["p", 0]],
    "multi_call": [["call", "C"], ["p", 0]],
    "multi_label": [["p", 0], ["lab", ".Ly"], ["p", 0], ["jcc", ".Ly"], ["p", 0]],
}
DPATCHES = {"bytes": {"bytes": [0, 0]}}


def make_spec(variant, pie):
    """A: code with lea/call operands; B: code; C: code ending in ret; DD: data with pointers."""
    A = scen.code_block("A", [1], None, f="f", e=True)
    A["i"] = [["o", 1], ["lea", "DD"], ["call", "C"]]
    B = scen.code_block("B", [2, 3], ["jcc", "A"], f="f")
    Cb = scen.code_block("C", [4], ["ret"], f="g", e=True)
    DD = {"n": "DD", "k": "d", "i": [["d", 0xD1], ["q", "B"], ["qa", "C", 2]], "f": None, "e": False}
    if variant == "data-in-text":
        blocks = [A, DD, B, Cb]
        return scen.spec_of(blocks, pie=pie)
    return scen.spec_of([A, B, Cb], data_blocks=[DD], pie=pie)


ARM_PATCHES = {
    "ord": [["p", 0]],
    "page+lo12": [["adrp", "DD"], ["addlo12", "DD"], ["p", 0]],
    "lo12+addend": [["adrp", "DD", 16], ["addlo12", "DD", 16]],
    "lo12-code": [["p", 0], ["addlo12", "C", 4]],
    "own-label": [["lab", ".Lx"], ["p", 0], ["addlo12", ".Lx", 8], ["jcc", ".Lx"]],
    "call": [["call", "ext"], ["p", 0]],
}


def make_arm_spec():
    A = {"n": "A", "k": "c", "i": [["o", 1], ["adrp", "DD"], ["addlo12", "DD", 8], ["call", "C"]], "f": "f", "e": True}
    B = scen.code_block("B", [2, 3], ["jcc", "A"], f="f")
    Cb = scen.code_block("C", [4], ["ret"], f="g", e=True)
    DD = {"n": "DD", "k": "d", "i": [["d", 0xD1], ["d", 0xD2], ["d", 0xD3], ["d", 0xD4], ["q", "B"]], "f": None, "e": False}
    return scen.spec_of([A, B, Cb], data_blocks=[DD], target="arm64-elf")


def make_bare_spec(mode):
    """no symbolic expression and no annotation on input: the offset-keyed tables start out empty or absent and only
    patches bring entries; the edited blocks are not the first ones of their interval"""
    A = scen.code_block("A", [1], None, f="f", e=True)
    B = scen.code_block("B", [2, 3], None, f="f")
    Cb = scen.code_block("C", [4], ["ret"], f="f")
    DD = scen.data_block("DD", [0xD1, 0xD2])
    sp = scen.spec_of([A, B, Cb, DD])
    sp["tables"] = {"symbolicExpressionSizes": mode, "comments": mode, "padding": mode}
    return sp


def byte_offsets(spec):
    isa_ = Lg.isamod.TARGETS[spec["target"]][0]
    out = []
    for s in spec["sections"]:
        for b in s["blocks"]:
            off = 0
            for ins in b["i"]:
                sz = isa_.size(tuple(ins))
                out.append((b["n"], off))  # first byte of the cell
                if sz > 2:
                    out.append((b["n"], off + sz - 1))  # last byte of a long cell
                off += sz
    return out


def annotate(spec, placement):
    """placement: list of (block, offset, keyed-by) -> new spec with comment+padding there"""
    import copy

    sp = copy.deepcopy(spec)
    for i, (bn, off, key) in enumerate(placement):
        _, b = Lg.block_of(sp, bn)
        b.setdefault("ann", {})[str(off)] = {"comment": "c%d" % i, "padding": 1 + i, **({"key": "bi"} if key == "bi" else {})}
    return sp


def atoms_for(spec, rich):
    out = []
    arm = spec["target"].startswith("arm64")
    for s in spec["sections"]:
        for b in s["blocks"]:
            n = len(b["i"])
            if b["k"] == "c" and arm:
                pl = list(ARM_PATCHES.values())
            elif b["k"] == "c":
                pl = list(PATCHES.values()) if rich else [PATCHES["ord"], PATCHES["lea_data"], PATCHES["multi_jcc"], PATCHES["multi_call"]]
            else:
                pl = [DPATCHES["bytes"]]
            for k in range(n + 1):
                for p in pl:
                    out.append({"op": "ins", "b": b["n"], "k": k, "p": p})
            for k in range(n):
                out.append({"op": "del", "b": b["n"], "k": k, "n": 1})
                out.append({"op": "rep", "b": b["n"], "k": k, "n": 1, "p": pl[0]})
            if n > 1:
                out.append({"op": "del", "b": b["n"], "k": 0, "n": n})
    return out


PROBLEMS = (
    "symexpr-outside-interval",
    "auxdata-offset-element-not-in-module",
    "auxdata-offset-outside-element",
    "auxdata-offset-element-type",
    "size-entry-without-expression",
)


def check(spec, mods):
    outcome, diffs, w, E, O = run_scenario(spec, mods, ["symexprs", "ann"], problem_kinds=PROBLEMS)
    if O is not None:
        # expressions must refer by identity to the module's pre-existing symbol of that name
        for key, o in sorted(O.symexprs.items()):
            name, sym = o[0], o[4]
            if name in w.syms and sym is not w.syms[name]:
                diffs.append(C.D("symexpr-symbol-not-by-identity", at=list(key), r_name_kind="pre-existing"))
            if sym is not None and sym.module is not w.m:
                diffs.append(C.D("symexpr-symbol-not-in-module", at=list(key)))
        names = [s.name for s in w.m.symbols]
        dup = sorted({n for n in names if names.count(n) > 1})
        if dup:
            diffs.append(C.D("duplicate-symbol-names", names=dup))
    return outcome, diffs, E


def tasks(tier):
    t = []
    n = BOUNDS[tier]["set_size"]
    t.append(("rich", "arm64", False, [], n))
    for mode in ("empty", "absent"):
        t.append(("rich", "bare-" + mode, False, [], n))
    for variant in ("separate-data", "data-in-text"):
        for pie in (False, True):
            base = make_spec(variant, pie)
            offs = byte_offsets(base)
            # patches with expressions, no annotations: rich patch alphabet
            t.append(("rich", variant, pie, [], n))
            # annotation placements: every single offset x {block, bi}; pairs of offsets (block keyed)
            for (bn, off) in offs:
                for key in ("blk", "bi"):
                    t.append(("ann", variant, pie, [[bn, off, key]], 1 if tier == "quick" else 2))
            if not pie:
                for a, b in itertools.combinations(offs, 2):
                    if a[0] == b[0] or tier == "thorough":
                        t.append(("ann", variant, pie, [[a[0], a[1], "blk"], [b[0], b[1], "bi"]], 1))
    return t


def task_group(task):
    return "%s/%s" % (task[0], task[1])


def run_task(task):
    mode, variant, pie, placement, n = task
    res = TaskResult()
    if variant.startswith("bare-"):
        spec = make_bare_spec(variant[5:])
    else:
        spec = make_arm_spec() if variant == "arm64" else annotate(make_spec(variant, pie), [tuple(p) for p in placement])
    atoms = atoms_for(spec, rich=(mode == "rich"))
    inp = Lg.flatten(spec, Lg.tokens_of(spec), set())
    for mods in scen.mod_sets(spec, atoms, n, orders="same-offset"):
        mods = scen.retag(mods)
        outcome, diffs, E = check(spec, mods)
        nt = E.symexprs != inp.symexprs or E.ann != inp.ann
        res.case((task[:4], mods), nontrivial=nt, outcome=outcome.split(";")[-1][:70])
        if diffs:
            res.bad({"spec": spec, "mods": mods}, diffs)
        if len(mods) == n:
            res.sample({"spec": spec, "mods": mods}, cap=1)
    return res


def replay(case):
    return check(case["spec"], case["mods"])[1]
