"""
C06  Function tables keep describing the same code.
"""
import itertools

from ..core import TaskResult
from ..world import chain, scen
from ..world.run import run_scenario

PROPERTY = "C06"
LEVEL = "exploration"
RULE = (
    "(function layouts over 4-5 blocks: adjacent functions, function-less code and data between them, two-entry "
    "function) x all non-overlapping sets of <= N atoms {insert at every boundary, delete/replace head, tail, whole "
    "block, whole block to proxy} + whole-function deletions (delete_function) + chains of single-modification "
    "rewrites; a case is one apply(); non-trivial = the expected attribution/entry/function set differs from the "
    "input's or a block of a function is edited; distinct by (layout, mods)"
)
ASSUMPTIONS = [
    "attribution is compared per instruction (tag), block boundaries are not compared",
    "a function exists iff it still owns at least one instruction; entries are compared as sets of entry block positions per function",
    "x86-64 ELF only",
]
BOUNDS = {"quick": {"set_size": 2, "chain_depth": 2}, "thorough": {"set_size": 3, "chain_depth": 3}}
CAP_S = {"quick": 400, "thorough": 2400}

P_ORD = [["p", 0]]
P_CALLG = [["p", 0], ["call", "A"]]
P_DATA = {"bytes": [0]}

# (kind, function, entry?) per block
LAYOUTS = {
    "adjacent": [("c", "f", 1), ("c", "f", 0), ("c", "g", 1), ("c", "g", 0)],
    "funcless-between": [("c", "f", 1), ("c", None, 0), ("c", "g", 1), ("c", "g", 0)],
    "data-between": [("c", "f", 1), ("d", None, 0), ("c", "f", 0), ("c", "g", 1)],
    "two-entries": [("c", "f", 1), ("c", "f", 1), ("c", "f", 0), ("c", "g", 1)],
    "interleaved": [("c", "f", 1), ("c", "g", 1), ("c", "f", 0), ("c", "g", 0), ("d", None, 0)],
    "single": [("c", "f", 1), ("c", "f", 0), ("c", "f", 0), ("d", None, 0)],
    # the entry of f is its LAST block (and the last block of the section), preceded by other blocks of f
    "entry-last": [("c", "g", 1), ("c", "f", 0), ("c", "f", 1)],
    # f ends in a block that loops back to itself and is followed by data
    "loop-tail": [("c", "f", 1), ("c", "f", "loop"), ("d", None, 0), ("c", "g", 1)],
    # the entry of f is jumped to from another function and is followed by data, more code of f comes behind the data
    "entered-before-data": [("c", "f", 1), ("d", None, 0), ("c", "f", 0), ("c", "g", "jmpA")],
}


def make_spec(name, functions=True):
    blocks = []
    lay = LAYOUTS[name]
    for j, (k, f, e) in enumerate(lay):
        nm = scen.NAMES[j]
        if k == "c" and e == "loop":
            b = scen.code_block(nm, [10 * (j + 1)], ["jmp", nm], f=f, e=False)
        elif k == "c" and e == "jmpA":
            b = scen.code_block(nm, [10 * (j + 1)], ["jmp", "A"], f=f, e=True)
        elif k == "c":
            last = j == len(lay) - 1 or lay[j + 1][0] == "d" or lay[j + 1][1] != f
            if name == "entry-last" and j == 1:
                last = False
            b = scen.code_block(nm, [10 * (j + 1), 10 * (j + 1) + 1][: 1 if last else 2], ["ret"] if last else None, f=f, e=bool(e))
        else:
            b = scen.data_block(nm, [0xD0 + j, 0xE0 + j])
        blocks.append(b)
    return scen.spec_of(blocks, functions=functions)


def atoms_for(spec):
    out = []
    for s in spec["sections"]:
        for b in s["blocks"]:
            n = len(b["i"])
            pl = [P_ORD, P_CALLG] if b["k"] == "c" else [P_DATA]
            for k in range(n + 1):
                for p in pl[: 2 if k in (0, n) else 1]:
                    out.append({"op": "ins", "b": b["n"], "k": k, "p": p})
            out.append({"op": "del", "b": b["n"], "k": 0, "n": n})
            out.append({"op": "del", "b": b["n"], "k": 0, "n": n, "proxy": True})
            if n > 1:
                out.append({"op": "del", "b": b["n"], "k": 0, "n": 1})
                out.append({"op": "del", "b": b["n"], "k": n - 1, "n": 1})
                out.append({"op": "rep", "b": b["n"], "k": 0, "n": 1, "p": pl[0]})
    return out


def func_deletions(spec):
    """delete_function = every block of the function deleted with proxy; plus without proxy"""
    blocks = [b for s in spec["sections"] for b in s["blocks"]]
    funcs = sorted({b["f"] for b in blocks if b.get("f")})
    for f in funcs:
        # the real RewritingContext.delete_function
        yield [{"op": "delfunc", "f": f}]
        for b in blocks:
            if b.get("f") != f and b["k"] == "c":
                yield [{"op": "delfunc", "f": f}, {"op": "ins", "b": b["n"], "k": 0, "p": P_ORD}]
        for proxy in (True, False):
            dels = [{"op": "del", "b": b["n"], "k": 0, "n": len(b["i"]), **({"proxy": True} if proxy else {})} for b in blocks if b.get("f") == f]
            yield dels
            for b in blocks:
                if b.get("f") == f:
                    continue
                n = len(b["i"])
                for k in (0, n):
                    yield dels + [{"op": "ins", "b": b["n"], "k": k, "p": P_ORD if b["k"] == "c" else P_DATA}]


# ------------------------------------------------------------------ register_insert_function
BODIES = {
    "single": [["p", 0], ["ret"]],
    "nop-only": [["p", 0]],
    "branching": [["p", 0], ["jcc", ".Lx"], ["p", 0], ["lab", ".Lx"], ["p", 0], ["ret"]],
    "loop": [["lab", ".Ly"], ["p", 0], ["jcc", ".Ly"], ["ret"]],
    "calls-existing": [["call", "A"], ["p", 0], ["ret"]],
    "calls-new": [["call", "newf2"], ["p", 0], ["ret"]],
}
NEWFUNC_CASES = [
    [("newf1", "single")],
    [("newf1", "nop-only")],
    [("newf1", "branching")],
    [("newf1", "loop")],
    [("newf1", "calls-existing")],
    [("newf1", "calls-new"), ("newf2", "single")],
    [("newf1", "branching"), ("newf2", "branching")],
    [("newf2", "single"), ("newf1", "calls-new")],
    # "ext:<name>": the module has an external (proxy-backed) symbol of that name; the same context deletes it and inserts
    # a function of that name in its place
    [("ext:newf1", "single")],
    [("ext:newf1", "calls-existing"), ("newf2", "single")],
]


def check_newfunc(spec, funcs, mods):
    """funcs: [(name, body id)] inserted with register_insert_function, plus ordinary mods."""
    import gtirb
    from gtirb_rewriting import RewritingContext

    from ..world import compare as C
    from ..world import listing as Lg

    isa_ = Lg.isamod.TARGETS[spec["target"]][0]
    w = Lg.build(spec)
    m = w.m
    before = {}
    if "functionBlocks" in m.aux_data:  # (modules without function tables: nothing to keep)
        before = {u: (set(bs), set(m.aux_data["functionEntries"].data.get(u, ())), m.aux_data["functionNames"].data.get(u)) for u, bs in m.aux_data["functionBlocks"].data.items()}
    ctx = RewritingContext(m, w.funcs)
    syms = {}
    tag = 200
    bodies = {}
    try:
        for name, body in funcs:
            toks = []
            for t in BODIES[body]:
                t = list(t)
                if t[0] == "p":
                    t = ["p", tag]
                    tag += 1
                toks.append(t)
            bodies[name] = toks
            if name.startswith("ext:"):
                from gtirb_test_helpers import add_proxy_block, add_symbol

                old = add_symbol(m, name[4:], add_proxy_block(m))
                ctx.delete_symbol(old)
            syms[name] = ctx.register_insert_function(name[4:] if name.startswith("ext:") else name, Lg.make_patch(isa_, toks))
        Lg.register(w, ctx, mods)
        ctx.apply()
    except Exception as e:
        return "raised", [C.D("newfunc-apply-raised", r_exc=type(e).__name__, msg=str(e)[:120], r_bodies="+".join(b for _, b in funcs))]
    diffs = []
    fn, fe, fb = m.aux_data["functionNames"].data, m.aux_data["functionEntries"].data, m.aux_data["functionBlocks"].data
    if not (set(fn) == set(fe) == set(fb)):
        diffs.append(C.D("functable-key-sets-differ"))
    owner = {}
    for u, bs in fb.items():
        for b in bs:
            if b in owner:
                diffs.append(C.D("block-in-two-functions"))
            owner[b] = u
    for name, body in funcs:
        sym = syms[name]
        role = {"r_body": body}
        if sym not in m.symbols or not isinstance(sym.referent, gtirb.CodeBlock) or sym.referent.module is not m:
            diffs.append(C.D("newfunc-symbol-not-on-a-code-block-of-the-module", **role))
            continue
        us = [u for u, s_ in fn.items() if s_ is sym]
        if len(us) != 1:
            diffs.append(C.D("newfunc-not-exactly-one-function-named-by-its-symbol", count=len(us), **role))
            continue
        u = us[0]
        ents, blks = fe.get(u, set()), fb.get(u, set())
        if ents != {sym.referent}:
            diffs.append(C.D("newfunc-entries-are-not-exactly-its-symbol-block", n_entries=len(ents), r_rel="extra" if sym.referent in ents else "missing", **role))
        if not ents <= blks:
            diffs.append(C.D("newfunc-entries-not-subset-of-blocks", **role))
        if any(not isinstance(b, gtirb.CodeBlock) or b.module is not m for b in blks):
            diffs.append(C.D("newfunc-block-not-code-or-not-in-module", **role))
            continue
        ivs = {b.byte_interval for b in blks}
        if len(ivs) != 1:
            diffs.append(C.D("newfunc-blocks-in-several-intervals", **role))
            continue
        bi = next(iter(ivs))
        code = b"".join(bytes(bi.contents[b.offset : b.offset + b.size]) for b in sorted(blks, key=lambda b: b.offset))
        want = b"".join(isa_.enc(tuple(t))[0] for t in bodies[name] if t[0] != "lab")
        if code != want:
            diffs.append(C.D("newfunc-body-bytes", expected=want.hex(), observed=code.hex(), **role))
        # every code block of the new interval belongs to the function
        for b in bi.blocks:
            if isinstance(b, gtirb.CodeBlock) and b.size and owner.get(b) != u:
                diffs.append(C.D("newfunc-code-block-outside-its-function", **role))
    # pre-existing functions keep their tables unless ordinary modifications touched them
    if not mods:
        for u, (bs, es, nm) in before.items():
            if fb.get(u) != bs or fe.get(u) != es or fn.get(u) is not nm:
                diffs.append(C.D("newfunc-changed-an-existing-function"))
    return ("ok" if not diffs else "diff"), diffs


PROBLEMS = (
    "block-in-two-functions",
    "functable-key-sets-differ",
    "functable-name-symbol-not-in-module",
    "functable-function-without-blocks",
    "functable-entries-not-subset-of-blocks",
    "functable-non-code-block",
    "functable-block-not-in-module",
)


def check(spec, mods):
    outcome, diffs, w, E, O = run_scenario(spec, mods, ["functions"], problem_kinds=PROBLEMS)
    return outcome, diffs, E


def tasks(tier):
    t = []
    for name in LAYOUTS:
        t.append(("sets", name, BOUNDS[tier]["set_size"]))
        t.append(("funcdel", name, 0))
        t.append(("newfunc", name, 0))
        if name in ("funcless-between", "two-entries", "entry-last"):
            t.append(("newfunc", name, 1))  # same, on a module without function tables
    d = BOUNDS[tier]["chain_depth"]
    for name in ("funcless-between", "two-entries") if tier == "quick" else list(LAYOUTS):
        for first in range(chain.n_first(make_spec(name))):
            t.append(("bfs", name, first, d))
    return t


def task_group(task):
    return task[0]


def run_task(task):
    res = TaskResult()
    if task[0] == "bfs":
        _, name, first, depth = task
        chain.explore(make_spec(name), depth, res, first, aspects=["functions"], problem_kinds=PROBLEMS, name="c06-" + name)
        return res
    mode, name, n = task
    spec = make_spec(name)
    if mode == "newfunc" and n == 1:
        # the module comes without any function table: the inserted functions are the first entries
        spec = make_spec(name, functions=False)
        spec["tables"] = {"functionBlocks": "absent", "functionEntries": "absent", "functionNames": "absent"}
    if mode == "newfunc":
        atoms = [[]] + [[a] for a in atoms_for(spec) if a["op"] == "ins" and a["p"] == P_ORD][::3] + [[{"op": "del", "b": "A", "k": 0, "n": len(spec["sections"][0]["blocks"][0]["i"])}]]
        for funcs in NEWFUNC_CASES:
            for mods in atoms:
                mods = scen.retag(mods)
                outcome, diffs = check_newfunc(spec, funcs, mods)
                res.case((name, "newfunc", funcs, mods), nontrivial=True, outcome=outcome)
                if diffs:
                    res.bad({"spec": spec, "newfunc": [list(f) for f in funcs], "mods": mods}, diffs)
            res.sample({"layout": name, "newfunc": [list(f) for f in funcs], "mods": []}, cap=1)
        return res
    gen = scen.mod_sets(spec, atoms_for(spec), n, orders="same-offset") if mode == "sets" else func_deletions(spec)
    for mods in gen:
        mods = scen.retag(mods)
        outcome, diffs, E = check(spec, mods)
        res.case((name, mods), nontrivial=bool(mods), outcome=outcome.split(";")[-1][:70])
        if diffs:
            res.bad({"spec": spec, "mods": mods}, diffs)
        if len(mods) == 2:
            res.sample({"spec": spec, "mods": mods}, cap=1)
    return res


def replay(case):
    if "newfunc" in case:
        return check_newfunc(case["spec"], [tuple(f) for f in case["newfunc"]], case["mods"])[1]
    if "history" in case:
        return chain.replay(case, aspects=["functions"], problem_kinds=PROBLEMS)
    return check(case["spec"], case["mods"])[1]
