"""
C02  Symbols keep designating the same place in the edited listing.

Engine 1 (this file, scenario explorer): label placements x modification
sets with emphasis on whole-block deletions and chains of them.
Engine 2 (vf/world/chain.py, history explorer): sequences of single
modification rewrites, each starting from the IR the previous one left.
"""
import itertools

from ..core import TaskResult
from ..world import chain, scen
from ..world.run import run_scenario

PROPERTY = "C02"
LEVEL = "model_checking"
STATES_ARE_DISTINCT_CASES = False
RULE = (
    "engine 1: (4-block shapes over code/data kinds x function partitions x at_end/extra label placements) x "
    "(all non-overlapping sets of <= N atoms; plus every non-empty subset of blocks wholly deleted, each with or "
    "without retarget_to_proxy, alone and combined with one insertion); engine 2: BFS over sequences of "
    "single-modification rewrites on the evolving real IR (state = canonical abstraction of the IR). A case is "
    "one apply(); non-trivial = at least one label's expected position differs from its input position or is a proxy"
)
ASSUMPTIONS = [
    "retarget_to_proxy is never combined with another modification of the same block (statement ambiguous, DESIGN 3.1)",
    "labels that slid onto a block deleted with retarget_to_proxy share its fate (what one-at-a-time application does)",
    "temporary labels of patches are matched up to the numeric suffix the library appends (C13 checks the suffix)",
    "x86-64 ELF only",
]
BOUNDS = {
    "quick": {"set_size": 2, "chain_depth": 2, "chain_shapes": 2},
    "thorough": {"set_size": 3, "chain_depth": 3, "chain_shapes": 6},
}
CAP_S = {"quick": 400, "thorough": 2400}

P_ORD = [["p", 0]]
P_LABEL = [["lab", ".Lx"], ["p", 0], ["jcc", ".Lx"]]
P_GLABEL = [["p", 0], ["lab", "G_new"], ["p", 0]]
P_DATA = {"bytes": [0]}
# assembled data patches that define a label: behind their last byte / between their bytes / in front of them
P_DLAB_END = [["d", 0xA1], ["lab", ".Ld"]]
P_DLAB_MID = [["d", 0xA2], ["lab", ".Ld"], ["d", 0xA3]]
P_DLAB_START = [["lab", ".Ld"], ["d", 0xA4]]

KINDS = ("cccc", "cdcc", "ccdc", "cccd", "dccc", "czdc", "czcc")  # z: a code block that is already zero-sized (leftover of an earlier rewrite)
FUNCS = (("f", "f", "f", "f"), ("f", "g", "g", "h"), (None, "f", "f", None))
LABELS = ((), ("A",), ("B",), ("D",), ("B", "C"), ("A", "B"), ("+B",), ("+A", "-B"), ("+B", "A", "-C"))


def make_spec(kinds, funcs, labs, last_ret=True):
    blocks = []
    seen = set()
    for j, (k, fu) in enumerate(zip(kinds, funcs)):
        name = scen.NAMES[j]
        if k == "z":
            ent = fu is not None and fu not in seen
            seen.add(fu)
            b = scen.code_block(name, [], None, f=fu, e=ent)
        elif k == "c":
            term = ["ret"] if (last_ret and j == len(kinds) - 1) else None
            ent = fu is not None and fu not in seen
            seen.add(fu)
            b = scen.code_block(name, [10 * (j + 1), 10 * (j + 1) + 1][: 1 if term else 2], term, f=fu, e=ent)
        else:
            b = scen.data_block(name, [0xD0 + 2 * j, 0xD1 + 2 * j])
        if name in labs:
            b["le"] = ["E_" + name]
        if "+" + name in labs:
            b["ls"] = ["S2_" + name]
        if "-" + name in labs:
            b["anon"] = True  # a block nothing labels
        blocks.append(b)
    return scen.spec_of(blocks)


def tasks(tier):
    t = []
    n = BOUNDS[tier]["set_size"]
    for kinds in KINDS:
        for fi, funcs in enumerate(FUNCS):
            for labs in LABELS:
                if tier == "quick" and fi > 0 and (any(x.startswith("-") for x in labs) or kinds in ("cccd", "dccc", "czcc")):
                    continue  # quick tier: the anonymous-block variants and two kind rows only with the first function partition
                if "z" in kinds:
                    # single modifications only: two of them can bring an insertion point onto the sizeless block's address,
                    # where "before or behind it" has no answer in the listing (and the library's depends on set order: F42, C11)
                    t.append(("sets", kinds, fi, list(labs), 1))
                    continue
                t.append(("sets", kinds, fi, list(labs), n))
                if fi == 0 or tier == "thorough":
                    t.append(("chains", kinds, fi, list(labs), 0))
    d = BOUNDS[tier]["chain_depth"]
    for si in range(BOUNDS[tier]["chain_shapes"]):
        for first in range(chain.n_first(chain_spec(si))):
            t.append(("bfs", si, first, d))
    return t


def chain_spec(si):
    kinds, fi, labs = [("cccc", 0, ("B",)), ("cdcc", 1, ("A", "B")), ("ccdc", 2, ("B", "C")), ("cccd", 0, ("+B",)), ("dccc", 1, ("D",)), ("cccc", 1, ("A",))][si]
    return make_spec(kinds, FUNCS[fi], labs)


def task_group(task):
    return task[0]


def atoms_for(spec):
    out = []
    allb = [b for s in spec["sections"] for b in s["blocks"]]
    zi = next((j for j, b in enumerate(allb) if not b["i"]), None)
    if zi is not None:
        return z_atoms(allb, zi)
    for s, b in [(s, b) for s in spec["sections"] for b in s["blocks"]]:
        n = len(b["i"])
        pl = [P_ORD, P_LABEL] if b["k"] == "c" else [P_DATA, P_DLAB_END, P_DLAB_MID]
        for k in range(n + 1):
            for p in pl:
                out.append({"op": "ins", "b": b["n"], "k": k, "p": p})
        out.append({"op": "del", "b": b["n"], "k": 0, "n": n})
        out.append({"op": "del", "b": b["n"], "k": 0, "n": n, "proxy": True})
        if n > 1:
            out.append({"op": "del", "b": b["n"], "k": 0, "n": 1})
            out.append({"op": "del", "b": b["n"], "k": n - 1, "n": 1})
            out.append({"op": "rep", "b": b["n"], "k": 0, "n": 1, "p": pl[0]})
    return out


def z_atoms(allb, zi):
    """modules with a block that is already zero-sized: only modifications whose meaning does not depend on whether they
    happen before or behind that (sizeless) position - nothing inserted at its address, neither neighbour deleted wholly"""
    out = []
    for j, b in enumerate(allb):
        n = len(b["i"])
        if j == zi:
            continue
        p = P_ORD if b["k"] == "c" else P_DATA
        for k in range(n + 1):
            if (j == zi + 1 and k == 0) or (j == zi - 1 and k == n):
                continue
            out.append({"op": "ins", "b": b["n"], "k": k, "p": p})
        if n > 1:
            out.append({"op": "del", "b": b["n"], "k": 0, "n": 1})  # incl. the bytes right behind the zero-sized block
            out.append({"op": "del", "b": b["n"], "k": n - 1, "n": 1})
            out.append({"op": "rep", "b": b["n"], "k": n - 1, "n": 1, "p": p})
        if abs(j - zi) > 1:
            out.append({"op": "del", "b": b["n"], "k": 0, "n": n})
    return out


PROBLEMS = ("symbol-referent-not-in-module", "symbol-proxy-not-in-module")


def check(spec, mods):
    outcome, diffs, w, E, O = run_scenario(spec, mods, ["labels"], problem_kinds=PROBLEMS)
    # request pattern of F49: a label closes its patch (nothing of the patch follows it) and a modification registered
    # later targets the very same offset.  (Temporary labels of two patches share their base name and are told apart by
    # position only, so the discrepancy may be attributed to either of them.)
    f49 = set()
    for mid, m in enumerate(mods):
        if m["op"] in ("ins", "rep") and isinstance(m.get("p"), list) and m["p"] and m["p"][-1][0] == "lab":
            at = m["k"] + (m.get("n", 0) if m["op"] == "rep" else 0)
            if any(j > mid and o.get("b") == m["b"] and o.get("k") == at for j, o in enumerate(mods)):
                f49.add(m["p"][-1][1])
    for d in diffs:
        if d["kind"] == "label-position" and "@" in str(d.get("label", "")) and d["label"].split("@")[0] in f49:
            d["r_pattern"] = "later-edit-at-the-offset-of-a-patch-trailing-label"
    return outcome, diffs, E


def input_labels(spec):
    from ..world import listing as Lg

    return Lg.flatten(spec, Lg.tokens_of(spec), set()).labels


def run_task(task):
    res = TaskResult()
    if task[0] == "bfs":
        _, si, first, depth = task
        chain.explore(chain_spec(si), depth, res, first, aspects=["labels", "bytes"], problem_kinds=PROBLEMS, name="c02-chain%d" % si)
        return res
    mode, kinds, fi, labs, n = task
    spec = make_spec(kinds, FUNCS[fi], labs)
    inl = input_labels(spec)
    if mode == "sets":
        gen = scen.mod_sets(spec, atoms_for(spec), n, orders="same-offset")
    else:
        gen = chains(spec)
    for mods in gen:
        mods = scen.retag(mods)
        outcome, diffs, E = check(spec, mods)
        nt = any(E.labels.get(k) != v for k, v in inl.items())
        res.case((task[:4], mods), nontrivial=nt, outcome=outcome)
        if diffs:
            res.bad({"spec": spec, "mods": mods}, diffs)
        if len(mods) >= 2:
            res.sample({"spec": spec, "mods": mods}, cap=1)
    return res


def chains(spec):
    """every non-empty subset of blocks wholly deleted (each with/without proxy), alone and with one insertion"""
    blocks = [b for s in spec["sections"] for b in s["blocks"]]
    for choice in itertools.product((None, False, True), repeat=len(blocks)):
        if all(c is None for c in choice):
            continue
        dels = [{"op": "del", "b": b["n"], "k": 0, "n": len(b["i"]), **({"proxy": True} if c else {})} for b, c in zip(blocks, choice) if c is not None]
        if len(dels) < 2:
            continue  # singles are in the "sets" tasks
        yield dels
        for b, c in zip(blocks, choice):
            if c is True:
                continue
            n = len(b["i"])
            for k in ([0] if c is False else range(n + 1)):
                p = P_ORD if b["k"] == "c" else P_DATA
                ins = {"op": "ins", "b": b["n"], "k": k, "p": p}
                yield [ins] + dels
                if c is None:
                    yield dels + [ins]


def replay(case):
    if "history" in case:
        return chain.replay(case, aspects=["labels", "bytes"], problem_kinds=PROBLEMS)
    return check(case["spec"], case["mods"])[1]
