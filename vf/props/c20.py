"""
C20  Internal containers behave like their simple abstract models.

Explicit-state search (vf.bfs) over operation histories of the *real*
containers; a boring reference model runs in lockstep.
"""
import itertools

import gtirb

from gtirb_rewriting._adt import BlockOrdering, IdentitySet, OffsetMapping
from gtirb_rewriting._modify.cache import (
    CFGModifiedError,
    ReferenceCache,
    RefNode,
    ReturnEdgeCache,
    make_return_cache,
)

from .. import bfs
from ..core import TaskResult

PROPERTY = "C20"
LEVEL = "model_checking"
STATES_ARE_DISTINCT_CASES = True
RULE = (
    "breadth-first search over histories of public container operations executed on the real "
    "objects with a reference model in lockstep; a case is one transition, distinct = distinct "
    "(universe, canonical state) pairs reached; canonical state = model state + internal shape"
)
ASSUMPTIONS = [
    "ReferenceCache: 2 code blocks + 1 proxy, 3 symbols (two on one block, one at_end) + 1 symbol created later; "
    "the forest can grow without bound, so that universe is depth-bounded; the others reach a fixpoint",
    "direct `Symbol.referent = b` is only exercised on a freshly created symbol (the documented safe case)",
]
BOUNDS = {
    "quick": {"refcache_depth": 4, "others": "fixpoint"},
    "thorough": {"refcache_depth": 5, "others": "fixpoint"},
}
CAP_S = {"quick": 400, "thorough": 3000}

ET = gtirb.Edge.Type


def D(kind, **kw):
    d = {"kind": kind}
    d.update(kw)
    return d


# ---------------------------------------------------------------- ReferenceCache
def _refcache_ops():
    BL = ("b0", "b1", "p")
    SY = ("s0", "s1", "s2")
    return (
        [("retarget", a, b, e) for a in BL for b in BL for e in (False, True)]
        + [("refs", a) for a in BL]
        + [("refs1", a) for a in BL]
        + [("referent", s) for s in SY + ("s3",)]
        + [("set", s, b, e) for s in SY for b in BL + (None,) for e in (False, True)]
        + [("new", b, e) for b in BL for e in (False, True)]
        + [("apply",)]
    )


class RefCacheWorld:
    OPS = _refcache_ops()

    def __init__(self):
        self.ir = gtirb.IR()
        self.m = gtirb.Module(name="m", isa=gtirb.Module.ISA.X64, file_format=gtirb.Module.FileFormat.ELF)
        self.m.ir = self.ir
        sec = gtirb.Section(name=".text")
        sec.module = self.m
        bi = gtirb.ByteInterval(contents=b"\x90" * 4, address=0x1000)
        bi.section = sec
        b0 = gtirb.CodeBlock(offset=0, size=2)
        b1 = gtirb.CodeBlock(offset=2, size=2)
        b0.byte_interval = bi
        b1.byte_interval = bi
        p = gtirb.ProxyBlock()
        self.m.proxies.add(p)
        self.blocks = {"b0": b0, "b1": b1, "p": p, None: None}
        self.names = {id(b0): "b0", id(b1): "b1", id(p): "p"}
        self.syms = {}
        self.model = {}
        for n, b, e in (("s0", "b0", False), ("s1", "b0", True), ("s2", "b1", False)):
            s = gtirb.Symbol(n, payload=self.blocks[b], at_end=e)
            s.module = self.m
            self.syms[n] = s
            self.model[n] = (b, e)
        self.cache = ReferenceCache()

    def bname(self, b):
        return None if b is None else self.names.get(id(b), "?foreign")

    def enabled(self, op):
        if op[0] == "new":
            return "s3" not in self.syms
        if op[0] == "referent" and op[1] == "s3":
            return "s3" in self.syms
        return True

    def step(self, op):
        c, B, S, M = self.cache, self.blocks, self.syms, self.model
        diffs = []
        try:
            if op[0] == "retarget":
                _, a, b, e = op
                c.retarget_references(B[a], B[b], e)
                for s, (blk, _) in list(M.items()):
                    if blk == a:
                        M[s] = (b, e)
            elif op[0] == "refs":
                got = sorted(s.name for s in c.get_references(B[op[1]]))
                exp = sorted(s for s, (blk, _) in M.items() if blk == op[1])
                if got != exp:
                    diffs.append(D("refcache-get_references", got=got, expected=exp))
            elif op[0] == "refs1":
                it = c.get_references(B[op[1]])
                first = next(it, None)
                it.close()
                exp = sorted(s for s, (blk, _) in M.items() if blk == op[1])
                if (first is None) != (not exp) or (first is not None and first.name not in exp):
                    diffs.append(D("refcache-get_references-first", got=first and first.name, expected=exp))
                elif first is not None:
                    if self.bname(first.referent) != M[first.name][0] or first.at_end != M[first.name][1]:
                        diffs.append(D("refcache-yielded-symbol-not-direct", sym=first.name))
            elif op[0] == "referent":
                s = S[op[1]]
                got = self.bname(c.get_referent(s))
                if got != M[op[1]][0]:
                    diffs.append(D("refcache-get_referent", sym=op[1], got=got, expected=M[op[1]][0]))
                elif self.bname(s.referent) != got or (got is not None and s.at_end != M[op[1]][1]):
                    diffs.append(D("refcache-get_referent-not-direct", sym=op[1], at_end=s.at_end, expected=M[op[1]]))
            elif op[0] == "set":
                _, s, b, e = op
                c.set_referent(S[s], B[b], e)
                M[s] = (b, e)
            elif op[0] == "new":
                _, b, e = op
                s = gtirb.Symbol("s3", payload=B[b], at_end=e)
                s.module = self.m
                S["s3"] = s
                M["s3"] = (b, e)
            elif op[0] == "apply":
                c.apply()
                if c._referents or c._references:
                    diffs.append(D("refcache-apply-left-entries"))
                for n, s in S.items():
                    if self.bname(s.referent) != M[n][0] or (M[n][0] is not None and s.at_end != M[n][1]):
                        diffs.append(D("refcache-apply-wrong", sym=n, got=(self.bname(s.referent), s.at_end), expected=M[n]))
        except Exception as ex:  # no operation of the alphabet may raise
            diffs.append(D("refcache-exception", exc=type(ex).__name__, msg=str(ex)[:120]))
        return diffs

    def _walk(self, s):
        """Effective referent of a symbol without mutating anything."""
        c = self.cache
        if s not in c._referents:
            return self.bname(s.referent), s.at_end, True
        node = c._referents[s]
        if s not in node.symbols:
            return "?not-in-node", None, False
        n = 0
        while isinstance(node.parent, RefNode):
            if node not in node.parent.children:
                return "?child-link-missing", None, False
            node = node.parent
            n += 1
            if n > 1000:
                return "?cycle", None, False
        blk = node.parent
        pair = c._references.get(blk)
        if pair is None or (node is not pair[0] and node is not pair[1]):
            return "?root-not-registered", None, False
        return self.bname(blk), node is pair[1], False

    def invariant(self):
        diffs = []
        c = self.cache
        for n, s in self.syms.items():
            blk, at_end, direct = self._walk(s)
            exp = self.model[n]
            if blk != exp[0] or (exp[0] is not None and at_end != exp[1]):
                diffs.append(D("refcache-effective-referent", sym=n, got=(blk, at_end), expected=exp, direct=direct))
            if not direct and s.referent is not None:
                diffs.append(D("refcache-direct-and-indirect", sym=n))
        # every symbol sitting in a node is registered in _referents with that node
        for blk, pair in c._references.items():
            for root in pair:
                if root.parent is not blk:
                    diffs.append(D("refcache-root-parent"))
                stack = [root]
                seen = set()
                while stack:
                    nd = stack.pop()
                    if id(nd) in seen:
                        diffs.append(D("refcache-cycle"))
                        break
                    seen.add(id(nd))
                    for sy in nd.symbols:
                        if c._referents.get(sy) is not nd:
                            diffs.append(D("refcache-symbol-index", sym=sy.name))
                    for ch in nd.children:
                        if ch.parent is not nd:
                            diffs.append(D("refcache-parent-link"))
                        stack.append(ch)
        return diffs

    def canon(self):
        c = self.cache

        def shape(nd):
            return (tuple(sorted(s.name for s in nd.symbols)), tuple(sorted(shape(ch) for ch in nd.children)))

        forest = tuple(
            sorted((self.bname(b), shape(pr[0]), shape(pr[1])) for b, pr in c._references.items())
        )
        direct = tuple(
            sorted(
                (n, self.bname(s.referent), s.at_end)
                for n, s in self.syms.items()
                if s not in c._referents
            )
        )
        return (direct, forest)


# ---------------------------------------------------------------- ReturnEdgeCache
class RetCacheWorld:
    NODES = ("b0", "b1", "p")
    EDGES = (
        ("b0", "b1", "Return"),
        ("b0", "p", "Return"),
        ("b1", "b0", "Return"),
        ("b1", "p", "Return"),
        ("b0", "b0", "Return"),
        ("b0", "b1", "Fallthrough"),
        ("b0", "p", None),
        ("b1", "b0", "Call"),
    )
    OPS = (
        [(o, i) for o in ("add", "discard", "remove") for i in range(8)]
        + [("update", i, j) for i, j in ((0, 1), (1, 3), (2, 5), (4, 6))]
        + [("ior", i, j) for i, j in ((0, 3), (1, 7))]
        + [("isub", i, j) for i, j in ((0, 1), (1, 3), (2, 6))]
        + [("clear",), ("pop",)]
        # the queries are operations too: they must not change what later operations see
        + [(q, n) for q in ("q_any", "q_ret", "q_proxy") for n in ("b0", "b1")]
    )

    def __init__(self):
        self.n = {"b0": gtirb.CodeBlock(), "b1": gtirb.CodeBlock(), "p": gtirb.ProxyBlock()}
        self.e = []
        for s, t, ty in self.EDGES:
            lab = None if ty is None else gtirb.Edge.Label(type=getattr(ET, ty))
            self.e.append(gtirb.Edge(self.n[s], self.n[t], lab))
        self.c = ReturnEdgeCache()
        self.model = set()

    def step(self, op):
        c, E, M = self.c, self.e, self.model
        diffs = []
        try:
            if op[0] == "add":
                c.add(E[op[1]])
                M.add(op[1])
            elif op[0] == "discard":
                c.discard(E[op[1]])
                M.discard(op[1])
            elif op[0] == "remove":
                try:
                    c.remove(E[op[1]])
                    if op[1] not in M:
                        diffs.append(D("retcache-remove-no-keyerror"))
                except KeyError:
                    if op[1] in M:
                        diffs.append(D("retcache-remove-keyerror"))
                M.discard(op[1])
            elif op[0] == "update":
                c.update([E[op[1]], E[op[2]]])
                M.update(op[1:])
            elif op[0] == "ior":
                c |= {E[op[1]], E[op[2]]}
                self.c = c
                M.update(op[1:])
            elif op[0] == "isub":
                c -= {E[op[1]], E[op[2]]}
                self.c = c
                M.difference_update(op[1:])
            elif op[0] == "clear":
                c.clear()
                M.clear()
            elif op[0] in ("q_any", "q_ret", "q_proxy"):
                nd = self.n[op[1]]
                r = {self.e[i] for i in M if self.e[i].source is nd and self.e[i].label is not None and self.e[i].label.type == ET.Return}
                pr = {e for e in r if isinstance(e.target, gtirb.ProxyBlock)}
                if op[0] == "q_any" and c.any_return_edges(nd) != bool(r):
                    diffs.append(D("retcache-query", r_query="any_return_edges", node=op[1]))
                if op[0] == "q_ret" and c.block_return_edges(nd) != r:
                    diffs.append(D("retcache-query", r_query="block_return_edges", node=op[1]))
                if op[0] == "q_proxy" and c.block_proxy_return_edges(nd) != pr:
                    diffs.append(D("retcache-query", r_query="block_proxy_return_edges", node=op[1]))
            elif op[0] == "pop":
                try:
                    e = c.pop()
                    i = self.e.index(e)
                    if i not in M:
                        diffs.append(D("retcache-pop-foreign"))
                    M.discard(i)
                except KeyError:
                    if M:
                        diffs.append(D("retcache-pop-keyerror"))
        except Exception as ex:
            diffs.append(D("retcache-exception", exc=type(ex).__name__, msg=str(ex)[:100]))
        return diffs

    def invariant(self):
        c = self.c
        diffs = []
        if not isinstance(c, ReturnEdgeCache):
            return [D("retcache-type-lost")]
        got = set(c)
        exp = {self.e[i] for i in self.model}
        if got != exp:
            diffs.append(D("retcache-edge-set"))
        for dn, pred in (
            ("_return_edges", lambda e: e.label is not None and e.label.type == ET.Return),
            (
                "_proxy_return_edges",
                lambda e: e.label is not None and e.label.type == ET.Return and isinstance(e.target, gtirb.ProxyBlock),
            ),
        ):
            scan = {}
            for e in exp:
                if pred(e):
                    scan.setdefault(e.source, set()).add(e)
            idx = getattr(c, dn)
            if {k: set(v) for k, v in idx.items()} != scan:
                diffs.append(D("retcache-index", index=dn))
            if any(not v for v in idx.values()):
                diffs.append(D("retcache-empty-key", index=dn))
        for nm, nd in self.n.items():
            if not isinstance(nd, gtirb.CodeBlock):
                continue
            r = {e for e in exp if e.source is nd and e.label is not None and e.label.type == ET.Return}
            pr = {e for e in r if isinstance(e.target, gtirb.ProxyBlock)}
            if c.any_return_edges(nd) != bool(r) or c.block_return_edges(nd) != r or c.block_proxy_return_edges(nd) != pr:
                diffs.append(D("retcache-query", node=nm))
        return diffs

    def canon(self):
        # model + which nodes have (possibly empty) index entries: a query that leaves an empty
        # entry behind changes what any_return_edges answers later, so it is part of the state
        c = self.c
        names = {id(v): k for k, v in self.n.items()}
        keys = tuple(sorted(names.get(id(k), "?") for k in getattr(c, "_return_edges", {}))), tuple(sorted(names.get(id(k), "?") for k in getattr(c, "_proxy_return_edges", {})))
        return (tuple(sorted(self.model)), keys)


# ---------------------------------------------------------------- make_return_cache
class ReturnCtxWorld:
    """Bodies of <= 3 steps run inside make_return_cache(ir)."""

    STEPS = (
        ("cache_add", 0),
        ("cache_add", 5),
        ("cache_discard", 1),
        ("orig_add", 2),
        ("orig_discard", 1),
        ("orig_add_discard", 2),
        ("replace_cfg",),
        ("raise",),
        ("nested_add", 3),
    )

    @staticmethod
    def run(body, res):
        n = {"b0": gtirb.CodeBlock(), "b1": gtirb.CodeBlock(), "p": gtirb.ProxyBlock()}
        E = []
        for s, t, ty in RetCacheWorld.EDGES:
            lab = None if ty is None else gtirb.Edge.Label(type=getattr(ET, ty))
            E.append(gtirb.Edge(n[s], n[t], lab))
        ir = gtirb.IR()
        orig = ir.cfg
        orig.add(E[1])
        orig.add(E[7])
        model = {1, 7}
        orig_touched = False
        replaced = False
        raised_by_body = False
        diffs = []

        class Boom(Exception):
            pass

        exc = None
        try:
            with make_return_cache(ir) as cache:
                if ir.cfg is not cache:
                    diffs.append(D("retctx-ircfg-not-cache"))
                for st in body:
                    if st[0] == "cache_add":
                        ir.cfg.add(E[st[1]]) if not replaced else cache.add(E[st[1]])
                        model.add(st[1])
                    elif st[0] == "cache_discard":
                        cache.discard(E[st[1]])
                        model.discard(st[1])
                    elif st[0] == "orig_add":
                        if E[st[1]] not in orig:
                            orig_touched = True
                        orig.add(E[st[1]])
                    elif st[0] == "orig_discard":
                        if E[st[1]] in orig:
                            orig_touched = True
                        orig.discard(E[st[1]])
                    elif st[0] == "orig_add_discard":
                        # net effect on the original object: none
                        had = E[st[1]] in orig
                        orig.add(E[st[1]])
                        if not had:
                            orig.discard(E[st[1]])
                    elif st[0] == "replace_cfg":
                        ir.cfg = gtirb.CFG()
                        replaced = True
                    elif st[0] == "raise":
                        raised_by_body = True
                        raise Boom()
                    elif st[0] == "nested_add":
                        if replaced:
                            cache.add(E[st[1]])
                        else:
                            with make_return_cache(ir) as inner:
                                if inner is not cache:
                                    diffs.append(D("retctx-nested-not-same"))
                                inner.add(E[st[1]])
                        model.add(st[1])
        except Boom as ex:
            exc = ex
        except CFGModifiedError as ex:
            exc = ex
        except Exception as ex:
            exc = ex
            diffs.append(D("retctx-unexpected-exception", exc=type(ex).__name__, msg=str(ex)[:100]))
        if ir.cfg is not orig:
            diffs.append(D("retctx-cfg-object-not-restored"))
        if set(orig) != {E[i] for i in model}:
            diffs.append(D("retctx-final-edges", got=sorted(E.index(e) for e in orig), expected=sorted(model)))
        if isinstance(orig, ReturnEdgeCache):
            diffs.append(D("retctx-orig-type"))
        if raised_by_body:
            if not isinstance(exc, Boom):
                diffs.append(D("retctx-body-exception-lost", got=type(exc).__name__))
        else:
            want = orig_touched or replaced
            if want and not isinstance(exc, CFGModifiedError):
                diffs.append(D("retctx-modification-not-reported", orig_touched=orig_touched, replaced=replaced))
            if not want and exc is not None:
                diffs.append(D("retctx-spurious-error", got=type(exc).__name__))
        return diffs


# ---------------------------------------------------------------- BlockOrdering
class OrderingWorld:
    N = 5
    OPS = (
        [("detached", s) for r in (1, 2) for s in itertools.permutations(range(5), r) if r == 1 or s[0] < 3 and s[1] < 3]
        + [("after", a, (b,)) for a in range(5) for b in range(5)]
        + [("after", a, (b, c)) for a in range(3) for b in range(3) for c in range(3) if b != c]
        + [("remove", a) for a in range(5)]
        + [("adjacent", a) for a in range(5)]
    )

    def __init__(self):
        self.b = [gtirb.CodeBlock() if i % 2 == 0 else gtirb.DataBlock() for i in range(self.N)]
        self.o = BlockOrdering()
        self.model = []  # list of lists

    def _find(self, i):
        for ch in self.model:
            if i in ch:
                return ch
        return None

    def step(self, op):
        o, B, M = self.o, self.b, self.model
        diffs = []
        if op[0] == "detached":
            ids = list(op[1])
            bad = any(self._find(i) is not None for i in ids) or len(set(ids)) != len(ids)
            try:
                o.add_detached_blocks([B[i] for i in ids])
                if bad:
                    diffs.append(D("ordering-missing-error", op=list(op)))
                else:
                    M.append(ids)
            except ValueError:
                if not bad:
                    diffs.append(D("ordering-spurious-error", op=list(op)))
            except Exception as ex:
                diffs.append(D("ordering-exception", exc=type(ex).__name__))
        elif op[0] == "after":
            a, ids = op[1], list(op[2])
            ch = self._find(a)
            bad_new = any(self._find(i) is not None for i in ids)
            try:
                o.insert_blocks_after(B[a], [B[i] for i in ids])
                if ch is None or bad_new:
                    diffs.append(D("ordering-missing-error", op=list(op)))
                else:
                    k = ch.index(a)
                    ch[k + 1 : k + 1] = ids
            except KeyError:
                if ch is not None:
                    diffs.append(D("ordering-spurious-error", op=list(op)))
                elif bad_new:
                    pass
            except ValueError:
                if not bad_new:
                    diffs.append(D("ordering-spurious-error", op=list(op)))
            except Exception as ex:
                diffs.append(D("ordering-exception", exc=type(ex).__name__))
        elif op[0] == "remove":
            ch = self._find(op[1])
            try:
                o.remove_block(B[op[1]])
                if ch is None:
                    diffs.append(D("ordering-missing-error", op=list(op)))
                else:
                    ch.remove(op[1])
                    if not ch:
                        M.remove(ch)
            except KeyError:
                if ch is not None:
                    diffs.append(D("ordering-spurious-error", op=list(op)))
        elif op[0] == "adjacent":
            ch = self._find(op[1])
            try:
                p, n = o.adjacent_blocks(B[op[1]])
                if ch is None:
                    diffs.append(D("ordering-missing-error", op=list(op)))
                else:
                    k = ch.index(op[1])
                    ep = B[ch[k - 1]] if k > 0 else None
                    en = B[ch[k + 1]] if k + 1 < len(ch) else None
                    if p is not ep or n is not en:
                        diffs.append(D("ordering-adjacent", op=list(op)))
            except KeyError:
                if ch is not None:
                    diffs.append(D("ordering-spurious-error", op=list(op)))
        return diffs

    def invariant(self):
        diffs = []
        order = self.o._BlockOrdering__order
        members = {i for ch in self.model for i in ch}
        if {id(k) for k in order} != {id(self.b[i]) for i in members}:
            diffs.append(D("ordering-membership"))
            return diffs
        for ch in self.model:
            for k, i in enumerate(ch):
                p, n = self.o.adjacent_blocks(self.b[i])
                ep = self.b[ch[k - 1]] if k > 0 else None
                en = self.b[ch[k + 1]] if k + 1 < len(ch) else None
                if p is not ep or n is not en:
                    diffs.append(D("ordering-links", block=i))
        return diffs

    def canon(self):
        return tuple(sorted(tuple(ch) for ch in self.model))


# ---------------------------------------------------------------- OffsetMapping
class OffsetMapWorld:
    OPS = None
    ESETS = ({}, {0: "x"}, {0: "y", 4: "x"})

    @staticmethod
    def _ops():
        EL = (0, 1)
        DISP = (0, 4)
        VAL = ("x", "y")
        return (
        [("set", e, d, v) for e in EL for d in DISP for v in VAL]
        + [("get", e, d) for e in EL for d in DISP]
        + [("del", e, d) for e in EL for d in DISP]
        + [("in", e, d) for e in EL for d in DISP]
        + [("pop", e, d) for e in EL for d in DISP]
        + [("popd", e, d) for e in EL for d in DISP]
        + [("setdefault", e, d, v) for e in EL for d in DISP for v in VAL[:1]]
        + [("getd", e, d) for e in EL for d in DISP]
        + [("eset", e, k) for e in EL for k in range(3)]
        + [("eget", e) for e in EL]
        + [("edel", e) for e in EL]
        + [("ein", e) for e in EL]
        + [("epop", e) for e in EL]
        + [("esetdefault", e) for e in EL]
        + [("esubset", e, d, v) for e in EL for d in DISP[:1] for v in VAL[1:]]
        + [("esubdel", e, d) for e in EL for d in DISP[:1]]
        + [("update", k) for k in range(2)]
        + [("ebad", e) for e in EL[:1]]
        + [("clear",)]
        )

    def __init__(self):
        self.el = [gtirb.CodeBlock(), gtirb.ByteInterval()]
        self.m = OffsetMapping()
        self.model = {}

    def O(self, e, d):
        return gtirb.Offset(self.el[e], d)

    def step(self, op):
        m, M = self.m, self.model
        diffs = []

        def expect(got, exp, what):
            if got != exp:
                diffs.append(D("offsetmap-" + what, op=list(op), got=repr(got), expected=repr(exp)))

        def raises(fn, exc):
            try:
                return ("ok", fn())
            except exc:
                return ("raised", None)

        try:
            k = op[0]
            if k == "set":
                _, e, d, v = op
                m[self.O(e, d)] = v
                M.setdefault(e, {})[d] = v
            elif k == "get":
                _, e, d = op
                r = raises(lambda: m[self.O(e, d)], KeyError)
                exp = ("ok", M[e][d]) if e in M and d in M[e] else ("raised", None)
                expect(r, exp, "getitem")
            elif k == "getd":
                _, e, d = op
                expect(m.get(self.O(e, d), "dflt"), M.get(e, {}).get(d, "dflt"), "get")
            elif k == "del":
                _, e, d = op

                def f():
                    del m[self.O(e, d)]

                r = raises(f, KeyError)
                if e in M and d in M[e]:
                    expect(r[0], "ok", "delitem")
                    del M[e][d]
                else:
                    expect(r[0], "raised", "delitem")
            elif k == "in":
                _, e, d = op
                expect(self.O(e, d) in m, e in M and d in M[e], "contains")
            elif k == "pop":
                _, e, d = op
                r = raises(lambda: m.pop(self.O(e, d)), KeyError)
                if e in M and d in M[e]:
                    expect(r, ("ok", M[e].pop(d)), "pop")
                else:
                    expect(r[0], "raised", "pop")
            elif k == "popd":
                _, e, d = op
                r = m.pop(self.O(e, d), "dflt")
                expect(r, M[e].pop(d) if e in M and d in M[e] else "dflt", "pop-default")
            elif k == "setdefault":
                _, e, d, v = op
                r = m.setdefault(self.O(e, d), v)
                expect(r, M.setdefault(e, {}).setdefault(d, v), "setdefault")
            elif k == "eset":
                _, e, i = op
                val = dict(self.ESETS[i])
                m[self.el[e]] = val
                M[e] = dict(val)
            elif k == "eget":
                r = raises(lambda: dict(m[self.el[op[1]]]), KeyError)
                exp = ("ok", dict(M[op[1]])) if op[1] in M else ("raised", None)
                expect(r, exp, "elem-getitem")
            elif k == "edel":

                def f():
                    del m[self.el[op[1]]]

                r = raises(f, KeyError)
                if op[1] in M:
                    expect(r[0], "ok", "elem-delitem")
                    del M[op[1]]
                else:
                    expect(r[0], "raised", "elem-delitem")
            elif k == "ein":
                expect(self.el[op[1]] in m, op[1] in M, "elem-contains")
            elif k == "epop":
                r = m.pop(self.el[op[1]], None)
                expect(None if r is None else dict(r), M.pop(op[1], None), "elem-pop")
            elif k == "esetdefault":
                r = m.setdefault(self.el[op[1]], {})
                expect(dict(r), dict(M.setdefault(op[1], {})), "elem-setdefault")
            elif k == "esubset":
                _, e, d, v = op
                if e in M:
                    m[self.el[e]][d] = v
                    M[e][d] = v
            elif k == "esubdel":
                _, e, d = op
                if e in M and d in M[e]:
                    del m[self.el[e]][d]
                    del M[e][d]
            elif k == "update":
                if op[1] == 0:
                    m.update({self.O(0, 0): "y", self.O(1, 4): "x"})
                    M.setdefault(0, {})[0] = "y"
                    M.setdefault(1, {})[4] = "x"
                else:
                    other = OffsetMapping()
                    other[self.O(1, 0)] = "x"
                    m.update(other)
                    M.setdefault(1, {})[0] = "x"
            elif k == "ebad":
                r = raises(lambda: m.__setitem__(self.el[op[1]], "notamapping"), ValueError)
                expect(r[0], "raised", "elem-set-nonmapping")
            elif k == "clear":
                # MutableMapping.clear() deletes Offset by Offset; as with `del m[Offset]` the
                # (now empty) per-element dictionaries stay, exactly as in a dict of dicts
                m.clear()
                for sub in M.values():
                    sub.clear()
        except Exception as ex:
            diffs.append(D("offsetmap-exception", op=list(op), exc=type(ex).__name__, msg=str(ex)[:100]))
        return diffs

    def invariant(self):
        m, M = self.m, self.model
        diffs = []
        flat = {(e, d): v for e, sub in M.items() for d, v in sub.items()}
        got = {}
        for off in m:
            e = 0 if off.element_id is self.el[0] else 1
            got[(e, off.displacement)] = m[off]
        if got != flat:
            diffs.append(D("offsetmap-iteration", got=repr(got), expected=repr(flat)))
        if len(m) != len(flat):
            diffs.append(D("offsetmap-len"))
        if bool(m) != bool(flat):
            diffs.append(D("offsetmap-bool"))
        if dict(m.items()) != {self.O(e, d): v for (e, d), v in flat.items()}:
            diffs.append(D("offsetmap-items"))
        nk = {0 if k is self.el[0] else 1 for k in m.node_keys()}
        if nk != set(M):
            diffs.append(D("offsetmap-node_keys", got=sorted(nk), expected=sorted(M)))
        return diffs

    def canon(self):
        return tuple(sorted((e, tuple(sorted(sub.items()))) for e, sub in self.model.items()))


OffsetMapWorld.OPS = OffsetMapWorld._ops()


# ---------------------------------------------------------------- IdentitySet
class _Eq:
    def __init__(self, v):
        self.v = v

    def __eq__(self, o):
        return isinstance(o, _Eq) and o.v == self.v

    def __hash__(self):
        return hash(self.v)


class IdentitySetWorld:
    OPS = (
        [(o, i) for o in ("add", "discard", "remove", "in") for i in range(3)]
        + [("ior", 0, 1), ("isub", 1, 2), ("iand", 0, 2), ("clear",), ("pop",), ("init", 0, 1)]
    )

    def __init__(self):
        self.o = [_Eq(1), _Eq(1), _Eq(2)]  # 0 and 1 are equal under ==
        self.s = IdentitySet()
        self.model = set()

    def step(self, op):
        s, O, M = self.s, self.o, self.model
        diffs = []
        try:
            if op[0] == "add":
                s.add(O[op[1]])
                M.add(op[1])
            elif op[0] == "discard":
                s.discard(O[op[1]])
                M.discard(op[1])
            elif op[0] == "remove":
                try:
                    s.remove(O[op[1]])
                    if op[1] not in M:
                        diffs.append(D("idset-remove-no-keyerror"))
                except KeyError:
                    if op[1] in M:
                        diffs.append(D("idset-remove-keyerror"))
                M.discard(op[1])
            elif op[0] == "in":
                if (O[op[1]] in s) != (op[1] in M):
                    diffs.append(D("idset-contains", obj=op[1]))
            elif op[0] == "ior":
                s |= [O[op[1]], O[op[2]]]
                self.s = s
                M.update(op[1:])
            elif op[0] == "isub":
                s -= IdentitySet([O[op[1]], O[op[2]]])
                self.s = s
                M.difference_update(op[1:])
            elif op[0] == "iand":
                s &= IdentitySet([O[op[1]], O[op[2]]])
                self.s = s
                M.intersection_update(op[1:])
            elif op[0] == "clear":
                s.clear()
                M.clear()
            elif op[0] == "pop":
                try:
                    x = s.pop()
                    i = [k for k in range(3) if O[k] is x]
                    if not i or i[0] not in M:
                        diffs.append(D("idset-pop-foreign"))
                    else:
                        M.discard(i[0])
                except KeyError:
                    if M:
                        diffs.append(D("idset-pop-keyerror"))
            elif op[0] == "init":
                self.s = IdentitySet([O[op[1]], O[op[2]]])
                self.model = set(op[1:])
        except Exception as ex:
            diffs.append(D("idset-exception", exc=type(ex).__name__, msg=str(ex)[:100]))
        return diffs

    def invariant(self):
        got = sorted(k for x in self.s for k in range(3) if self.o[k] is x)
        diffs = []
        if got != sorted(self.model):
            diffs.append(D("idset-members", got=got, expected=sorted(self.model)))
        if len(self.s) != len(self.model):
            diffs.append(D("idset-len"))
        return diffs

    def canon(self):
        return tuple(sorted(self.model))


# ---------------------------------------------------------------- LinkedList error cases
def linked_list_cases(res):
    from gtirb_rewriting._adt import LinkedListNode

    # all insertion orders of 4 nodes after arbitrary anchors, then all unlink orders
    for n in (1, 2, 3, 4):
        for anchors in itertools.product(*[range(k) for k in range(1, n)]) if n > 1 else [()]:
            nodes = [LinkedListNode(i) for i in range(n)]
            model = [0]
            diffs = []
            for k, a in enumerate(anchors, start=1):
                nodes[a].insert_node_after(nodes[k])
                model.insert(model.index(a) + 1, k)
            for order in itertools.permutations(range(n)):
                # rebuild
                nodes = [LinkedListNode(i) for i in range(n)]
                model = [0]
                for k, a in enumerate(anchors, start=1):
                    nodes[a].insert_node_after(nodes[k])
                    model.insert(model.index(a) + 1, k)
                m2 = list(model)
                for r in order:
                    # check links
                    for pos, v in enumerate(m2):
                        p = nodes[v].prev.value if nodes[v].prev else None
                        nx = nodes[v].next.value if nodes[v].next else None
                        if p != (m2[pos - 1] if pos else None) or nx != (m2[pos + 1] if pos + 1 < len(m2) else None):
                            diffs.append(D("linkedlist-links", anchors=list(anchors), order=list(order)))
                    nodes[r].unlink()
                    m2.remove(r)
                    if nodes[r].prev is not None or nodes[r].next is not None:
                        diffs.append(D("linkedlist-unlink-keeps-links"))
                res.case(("ll", n, anchors, order))
                res.transitions += n
                res.traces += 1
                if diffs:
                    res.bad({"universe": "linkedlist", "n": n, "anchors": list(anchors), "order": list(order)}, diffs)
            # inserting an already linked node must be refused
            if n >= 2:
                nodes = [LinkedListNode(i) for i in range(n)]
                for k, a in enumerate(anchors, start=1):
                    nodes[a].insert_node_after(nodes[k])
                try:
                    nodes[0].insert_node_after(nodes[1])
                    res.bad({"universe": "linkedlist", "n": n, "anchors": list(anchors), "order": "reinsert"}, [D("linkedlist-reinsert-accepted")])
                except ValueError:
                    pass
    res.states += 1


WORLDS = {
    "refcache": RefCacheWorld,
    "retcache": RetCacheWorld,
    "ordering": OrderingWorld,
    "offsetmap": OffsetMapWorld,
    "idset": IdentitySetWorld,
}


def tasks(tier):
    d = BOUNDS[tier]["refcache_depth"]
    t = [("retcache", 99, None), ("ordering", 99, None), ("offsetmap", 99, None), ("idset", 99, None), ("retctx", 3, None), ("linkedlist", 0, None)]
    # the ReferenceCache universe is split by first operation so that it spreads over the cores
    t += [("refcache", d, i) for i in range(len(RefCacheWorld.OPS))]
    return t


def task_group(task):
    return task[0]


def run_task(task):
    name, depth, first = task
    res = TaskResult()
    if name == "retctx":
        for n in range(0, depth + 1):
            for body in itertools.product(ReturnCtxWorld.STEPS, repeat=n):
                if "raise" in [s[0] for s in body[:-1]]:
                    continue
                diffs = ReturnCtxWorld.run(body, res)
                res.case(("retctx", body))
                res.transitions += len(body) + 1
                res.traces += 1
                res.states += 1
                if diffs:
                    res.bad({"universe": "retctx", "body": [list(s) for s in body]}, diffs)
                res.sample({"universe": "retctx", "body": [list(s) for s in body]}, cap=1)
        return res
    if name == "linkedlist":
        linked_list_cases(res)
        return res
    W = WORLDS[name]
    if first is None:
        fix = bfs.explore(W, depth, res, name)
        res.notes["fixpoint:" + name] = fix
        if not fix:
            res.exhausted = False
    else:
        op = W.OPS[first]
        w = W()
        if hasattr(w, "enabled") and not w.enabled(op):
            return res
        d = w.step(op) + w.invariant()
        res.transitions += 1
        res.traces += 1
        res.case((name, w.canon()))
        if d:
            res.bad({"universe": name, "history": [list(op)]}, d)
            return res
        bfs.explore(W, depth, res, name, prefix=(op,))
    return res


def replay(case):
    res = TaskResult()
    u = case["universe"]
    if u == "retctx":
        return ReturnCtxWorld.run([tuple(s) for s in case["body"]], res)
    if u == "linkedlist":
        linked_list_cases(res)
        return [d for r in res.discrepancies for d in r["diffs"]]
    W = WORLDS[u]
    w = W()
    diffs = []
    for op in case["history"]:
        op = tuple(tuple(x) if isinstance(x, list) else x for x in op)
        diffs = w.step(op) + w.invariant()
        if diffs:
            break
    for d in diffs:
        d.setdefault("universe", u)
    return diffs
