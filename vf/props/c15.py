"""
C15  CFI evaluation implements the DWARF rules and fails cleanly.

Explicit-state breadth-first search over *directive histories*.  A history is
a sequence of events: a CFI directive (appended at the current location) or one
of the two location events "next offset" / "next block".  For every history a
fresh gtirb module + cfiDirectives table is built and the real
`evaluate_cfi_directives` runs on it; `vf.cfimodel` (a reference interpreter
written from the DWARF call-frame rules) runs on the same history.  States are
deduplicated on the reference interpreter's canonical state; histories whose
expected outcome is an error are terminal.
"""
import collections
import copy as _copy
import dataclasses
import functools
import uuid

import gtirb

from gtirb_rewriting._auxdata import NULL_UUID
from gtirb_rewriting.dwarf import cfi_eval as CE
from gtirb_rewriting.dwarf.cfi_eval import CFIStateError, evaluate_cfi_directives

from .. import cfimodel
from ..core import TaskResult

PROPERTY = "C15"
LEVEL = "model_checking"
STATES_ARE_DISTINCT_CASES = True
RULE = (
    "breadth-first search from the empty cfiDirectives table over histories of events (39 per ABI: every "
    "directive evaluate_cfi_directives supports with operands from registers {3,6,7} / offsets {8,16,-8}, six "
    ".cfi_escape byte strings, personality/lsda with symbol | DW_EH_PE_omit | missing symbol, return_column, "
    "'next offset', 'next block'); every history is rebuilt as a fresh module and evaluated by the real code, "
    "twice when it has more than one location (table filled and blocks passed in address order / in reverse "
    "order); a case is one transition; distinct = distinct (ABI, canonical reference state) reached, canonical "
    "state = in/out of procedure, CFA rule, register rules, remember stack, initial row (or 'CIE prefix still "
    "open'), personality, lsda, return column, whether the current location already has directives; expected-"
    "error states are terminal and count as one state per (ABI, error class)"
)
ASSUMPTIONS = [
    "ABIs: X64-ELF, ARM64-ELF, MIPS32-ELF (module byte_order=big, 4-byte pointers). The PE ABIs define no DWARF "
    "return column (default_dwarf_eh_return_column raises NotImplementedError), CFI evaluation is not meaningful "
    "there: out of scope.",
    "Expected default return address column per ABI comes from the psABI register numbering / what llvm-mc puts "
    "in the CIE of an empty procedure (x86-64: 16, AArch64: 30, MIPS o32: 31), not from gtirb_rewriting.abi. It is "
    "checked once per ABI by a dedicated probe (kind cfi-eval-default-return-column); inside the search a state "
    "whose return column was never set must show the same column as that probe, so that a wrong ABI constant is "
    "reported once and does not mask the rest of the state space.",
    "Escapes: only DW_CFA_nop / def_cfa_expression / expression / val_expression (what the statement calls "
    "'escaped expression instructions'); other escaped instructions (DW_CFA_offset, *_sf ...) and unknown "
    "directives are rejected by the library with NotImplementedError by design (pinned by its tests) and are "
    "outside the alphabet. Expression operands use DW_OP_const1u, DW_OP_const2u (byte-order sensitive), "
    "DW_OP_addr with a byte-palindromic address (pointer-size sensitive, byte-order neutral), DW_OP_deref.",
    ".cfi_rel_offset is a GAS directive, not a DWARF rule. GAS defines it relative to the CFA register "
    "(offset(n - cfa_offset)); the library documents 'register must already have an offset(N) rule, result "
    "offset(N+n), otherwise CFIStateError'. The reference follows the library; the divergence from GAS is not "
    "reported.",
    "GTIRB does not say which directives belong to the CIE: as documented in cfi_eval.py everything at the "
    "location of .cfi_startproc is the CIE-like prefix and the initial row is the row at the end of that "
    "location. DW_CFA_restore inside the still-open prefix refers to the empty row (DWARF is silent).",
    ".cfi_def_cfa_register on a CFA that is not register+offset is treated as ill-formed (DWARF 6.4.2.2: 'valid "
    "only if the current CFA rule is defined to use a register and offset') although the statement only lists "
    "offset changes. Either CFIStateError or ValueError is accepted for every class of ill-formed input.",
    "'At the same step' is observable as the number of states yielded before the exception.",
    "Equal canonical state is taken to imply equal futures up to a shift of block/offset numbers (the evaluator "
    "only sorts by them). All blocks live in one byte interval, 8 bytes each with 2-byte gaps.",
    "Independence of copies is checked observably (copy at yield time, compare with the snapshot after the "
    "generator finished or raised), not by object identity of the parts.",
]
BOUNDS = {
    "quick": {"events_after_startproc": 5, "alphabet": 39, "abis": 3, "presentations": 2},
    "thorough": {"events_after_startproc": 7, "alphabet": 39, "abis": 3, "presentations": 2},
}
CAP_S = {"quick": 150, "thorough": 2400}
PREFIX_DEPTH = 3  # .cfi_startproc + two events: the task split

ABIS = tuple(cfimodel.ABIS)


def D(kind, **kw):
    d = {"kind": kind}
    d.update(kw)
    return d


# ------------------------------------------------------------------ alphabet
def _escape_bytes(abi):
    cfg = cfimodel.ABIS[abi]
    big = cfg["byteorder"] == "big"
    c2 = [0x12, 0x34] if big else [0x34, 0x12]  # DW_OP_const2u 0x1234
    pal = [0x11] + [0x00] * (cfg["ptr"] - 2) + [0x11]  # DW_OP_addr <byte palindrome>
    return [
        [0x0F, 0x02, 0x08, 0x2A],  # def_cfa_expression {const1u 42}
        [0x10, 0x03, 0x02, 0x08, 0x2A],  # expression r3 {const1u 42}
        [0x16, 0x03, 0x02, 0x08, 0x2A],  # val_expression r3 {const1u 42}
        [0x00],  # nop
        [0x00, 0x16, 0x06, 0x03, 0x0A] + c2,  # nop; val_expression r6 {const2u 0x1234}
        [0x0F, 2 + len(pal), 0x03] + pal + [0x06],  # def_cfa_expression {addr PAL; deref}
    ]


@functools.lru_cache(maxsize=None)
def alphabet(abi):
    """Events as json-able tuples ("d", name, args, symkind) | ("next",) | ("block",);
    symkind: None (no symbol operand) | "sym" | "null" (NULL_UUID) | "dangling" (UUID of nothing)."""
    ev = [
        (".cfi_startproc", ()),
        (".cfi_endproc", ()),
        (".cfi_def_cfa", (7, 8)),
        (".cfi_def_cfa", (6, 16)),
        (".cfi_def_cfa_register", (6,)),
        (".cfi_def_cfa_offset", (16,)),
        (".cfi_adjust_cfa_offset", (8,)),
        (".cfi_adjust_cfa_offset", (-8,)),
        (".cfi_undefined", (3,)),
        (".cfi_same_value", (3,)),
        (".cfi_same_value", (6,)),
        (".cfi_register", (3, 6)),
        (".cfi_restore", (3,)),
        (".cfi_restore", (6,)),
        (".cfi_val_offset", (3, -8)),
        (".cfi_offset", (3, -8)),
        (".cfi_offset", (6, 16)),
        (".cfi_rel_offset", (3, 8)),
        (".cfi_remember_state", ()),
        (".cfi_restore_state", ()),
    ]
    out = [("d", n, a, None) for n, a in ev]
    out += [("d", ".cfi_escape", tuple(b), None) for b in _escape_bytes(abi)]
    out += [
        ("d", ".cfi_personality", (0x00,), "sym"),
        ("d", ".cfi_personality", (0xFF,), "null"),
        ("d", ".cfi_personality", (0x00,), "null"),
        ("d", ".cfi_lsda", (0x1B,), "sym"),
        ("d", ".cfi_lsda", (0xFF,), "null"),
        ("d", ".cfi_lsda", (0x1B,), "dangling"),
        ("d", ".cfi_return_column", (7,), None),
        ("next",),
        ("block",),
    ]
    return tuple(out)


def _ref_events(events):
    """Events in the form the reference interpreter takes."""
    return [("d", e[1], e[2], "sym" if e[3] == "sym" else None) if e[0] == "d" else e for e in events]


def _last_directive(events):
    for e in reversed(events):
        if e[0] == "d":
            return e[1]
    return None


# ------------------------------------------------------------------ the real side
_TYPE = "mapping<Offset,sequence<tuple<string,sequence<int64_t>,UUID>>>"
_DANGLING = uuid.UUID(int=0x0123456789ABCDEF0123456789ABCDEF)
_BYTE_ORDER = {"little": gtirb.Module.ByteOrder.Little, "big": gtirb.Module.ByteOrder.Big}


def _locations(events):
    """[(block index, offset, [directive events])] for locations with directives, plus block count."""
    locs = []
    cur = []
    b = off = 0
    for e in events:
        if e[0] == "d":
            cur.append(e)
            continue
        if cur:
            locs.append((b, off, cur))
            cur = []
        if e[0] == "next":
            off += 1
        else:
            b += 1
            off = 0
    if cur:
        locs.append((b, off, cur))
    return locs, b + 1


class World:
    """A fresh module with n code blocks and one symbol."""

    def __init__(self, abi, nblocks):
        cfg = cfimodel.ABIS[abi]
        self.ir = gtirb.IR()
        self.m = gtirb.Module(
            name="m",
            isa=getattr(gtirb.Module.ISA, cfg["isa"]),
            file_format=getattr(gtirb.Module.FileFormat, cfg["format"]),
            byte_order=_BYTE_ORDER[cfg["byte_order"]],
        )
        self.m.ir = self.ir
        sec = gtirb.Section(name=".text")
        sec.module = self.m
        bi = gtirb.ByteInterval(address=0x1000, contents=bytes(10 * nblocks))
        bi.section = sec
        self.blocks = []
        for k in range(nblocks):
            blk = gtirb.CodeBlock(offset=10 * k, size=8)
            blk.byte_interval = bi
            self.blocks.append(blk)
        self.sym = gtirb.Symbol("pers", payload=gtirb.ProxyBlock())
        self.sym.module = self.m
        self.index = {id(blk): k for k, blk in enumerate(self.blocks)}

    def set_table(self, locs, reverse):
        data = {}
        for b, off, ds in reversed(locs) if reverse else locs:
            lst = []
            for _, name, args, symkind in ds:
                s = self.sym if symkind == "sym" else _DANGLING if symkind == "dangling" else NULL_UUID
                lst.append((name, list(args), s))
            data[gtirb.Offset(self.blocks[b], off)] = lst
        self.m.aux_data["cfiDirectives"] = gtirb.AuxData(type_name=_TYPE, data=data)


_EXPR_OPCODE = {"OpAddr": 0x03, "OpDeref": 0x06, "OpConst1U": 0x08, "OpConst2U": 0x0A, "OpPlus": 0x22, "OpPlusUConst": 0x23}


def _conv_expr(ops):
    out = []
    for op in ops:
        name = type(op).__name__
        vals = tuple(getattr(op, f.name) for f in dataclasses.fields(op))
        out.append((_EXPR_OPCODE.get(name, name),) + vals)
    return tuple(out)


def _conv_rule(r):
    if isinstance(r, CE.RegisterUndefined):
        return ("undefined",)
    if isinstance(r, CE.RegisterSameValue):
        return ("same_value",)
    if isinstance(r, CE.RegisterOffset):
        return ("offset", r.offset)
    if isinstance(r, CE.RegValOffset):
        return ("val_offset", r.offset)
    if isinstance(r, CE.RegisterInRegister):
        return ("register", r.register)
    if isinstance(r, CE.RegisterAtExpression):
        return ("expression", _conv_expr(r.expression))
    if isinstance(r, CE.RegisterIsExpression):
        return ("val_expression", _conv_expr(r.expression))
    return ("?", repr(r))


def _conv_cfa(c):
    if c is None:
        return None
    if isinstance(c, CE.CFARegisterOffset):
        return ("reg_offset", c.register, c.offset)
    if isinstance(c, CE.CFAExpression):
        return ("expression", _conv_expr(c.expression))
    return ("?", repr(c))


def _conv_row(row):
    return (_conv_cfa(row.cfa), tuple(sorted((k, _conv_rule(v)) for k, v in row.registers.items())))


def _conv_ptr(p, world):
    if p is None:
        return None
    return (int(p.encoding), "sym" if p.symbol is world.sym else "?" + repr(p.symbol))


FIELDS = ("return_column", "personality", "lsda", "cfa", "registers", "initial", "save_stack")


def conv_state(st, world):
    """ProcedureState -> the same plain structure cfimodel.Machine.snapshot() produces
    (return_column as a bare int)."""
    if st is None:
        return None
    if not isinstance(st, CE.ProcedureState):
        return {"?": repr(st)}
    cur = _conv_row(st.current)
    return {
        "return_column": st.return_column,
        "personality": _conv_ptr(st.personality, world),
        "lsda": _conv_ptr(st.lsda, world),
        "cfa": cur[0],
        "registers": cur[1],
        "initial": _conv_row(st.initial),
        "save_stack": tuple(_conv_row(r) for r in st.save_stack),
    }


def run_real(abi, events, reverse):
    """Real evaluation on a fresh world.  Returns (yields, exc, copy_diffs):
    yields [(block index, offset, converted state)], exc None | (type name, message, is_clean)."""
    locs, nblocks = _locations(events)
    w = World(abi, nblocks)
    w.set_table(locs, reverse)
    blocks = list(reversed(w.blocks)) if reverse else list(w.blocks)
    yields = []
    kept = []
    exc = None
    try:
        for blk, off, st in evaluate_cfi_directives(w.m, blocks):
            snap = conv_state(st, w)
            yields.append((w.index.get(id(blk), "?foreign"), off, snap))
            kept.append((_copy.copy(st), snap))
    except (CFIStateError, ValueError) as e:
        exc = (type(e).__name__, str(e)[:100], True)
    except Exception as e:  # noqa: BLE001 - any other type is exactly what the property forbids
        exc = (type(e).__name__, str(e)[:100], False)
    copy_diffs = []
    for k, (cp, snap) in enumerate(kept):
        now = conv_state(cp, w)
        if now != snap:
            fld = _first_diff(now, snap)
            copy_diffs.append(D("cfi-copy-not-independent", r_field=fld, yield_index=k, copy_now=_j(now), at_yield=_j(snap)))
    return yields, exc, copy_diffs


def _j(x):
    return repr(x)[:300]


def _first_diff(a, b):
    if a is None or b is None or "?" in a or "?" in b:
        return "in_procedure"
    for f in FIELDS:
        if a[f] != b[f]:
            return f
    return None


# ------------------------------------------------------------------ comparison
@functools.lru_cache(maxsize=None)
def observed_default_column(abi):
    """What the real evaluator reports as return column for a lone .cfi_startproc
    (None if that does not even work)."""
    y, exc, _ = run_real(abi, (alphabet(abi)[0],), False)
    if exc or len(y) != 1 or not isinstance(y[0][2], dict):
        return None
    return y[0][2].get("return_column")


def _expect_state(abi, snap):
    """Reference snapshot -> structure comparable with conv_state()."""
    if snap is None:
        return None
    s = dict(snap)
    tag, val = s["return_column"]
    if tag == "default":
        obs = observed_default_column(abi)
        val = val if obs is None else obs  # a wrong ABI constant is reported by the probe, once
    s["return_column"] = val
    return s


def compare(abi, events, ref, real, presentation):
    exp_yields, exp_err, _ = ref
    yields, exc, copy_diffs = real
    last = _last_directive(events)
    diffs = []
    if exc is not None and not exc[2]:
        diffs.append(D("cfi-eval-wrong-exception", r_exc=exc[0], r_directive=last, msg=exc[1],
                       expected=("error:" + exp_err[1]) if exp_err else "no error", after_yields=len(yields)))
    elif exp_err is not None:
        if exc is None:
            diffs.append(D("cfi-eval-missing-error", r_expected=exp_err[1], r_directive=last))
        elif len(yields) != exp_err[0]:
            diffs.append(D("cfi-eval-error-at-wrong-step", r_expected=exp_err[1], r_directive=last,
                           yields_before_error=len(yields), expected_yields_before_error=exp_err[0]))
    elif exc is not None:
        diffs.append(D("cfi-eval-unexpected-error", r_exc=exc[0], r_directive=last, msg=exc[1], after_yields=len(yields)))
    # states yielded before the (expected or unexpected) end must agree as far as both go
    n = min(len(yields), len(exp_yields))
    if exc is None and exp_err is None and len(yields) != len(exp_yields):
        diffs.append(D("cfi-eval-yield-sequence", r_what="count", got=len(yields), expected=len(exp_yields)))
    for k in range(n):
        gb, go, gs = yields[k]
        eb, eo, es = exp_yields[k]
        if (gb, go) != (eb, eo):
            diffs.append(D("cfi-eval-yield-sequence", r_what="location", yield_index=k, got=[gb, go], expected=[eb, eo]))
            break
        es = _expect_state(abi, es)
        if gs != es:
            fld = _first_diff(gs, es)
            diffs.append(D("cfi-eval-state-mismatch", r_field=fld, r_directive=last, r_abi=abi, yield_index=k,
                           got=_j(gs if fld == "in_procedure" else gs[fld]), expected=_j(es if fld == "in_procedure" else es[fld])))
            break
    diffs.extend(copy_diffs)
    for d in diffs:
        d["presentation"] = presentation
    return diffs


def check_history(abi, events):
    """Run one history on the reference and on the real code (both presentations).
    Returns (diffs, ref)."""
    ref = cfimodel.run(abi, _ref_events(events))
    diffs = compare(abi, events, ref, run_real(abi, events, False), "address-order")
    locs, nblocks = _locations(events)
    if not diffs and len(locs) > 1:
        diffs = compare(abi, events, ref, run_real(abi, events, True), "reversed")
    return diffs, ref


def probe_default_column(abi, res):
    exp = cfimodel.ABIS[abi]["return_column"]
    obs = observed_default_column(abi)
    res.case(("default-return-column", abi), outcome="probe:default-return-column")
    res.traces += 1
    if obs != exp:
        res.bad({"abi": abi, "probe": "default-return-column", "history": [list(alphabet(abi)[0])]},
                [D("cfi-eval-default-return-column", r_abi=abi, got=obs, expected=exp)])


# ------------------------------------------------------------------ search
def _case(abi, events):
    return {"abi": abi, "history": [[e[0], e[1], list(e[2]), e[3]] if e[0] == "d" else [e[0]] for e in events]}


def _canon_of(ref):
    _, err, mach = ref
    if err is not None:
        return ("ERR", err[1])
    return mach.canon()


def _outcome(ref):
    y, err, _ = ref
    if err is not None:
        return "error:" + err[1]
    return "ok:%d-yields:%s" % (len(y), "in" if y and y[-1][2] is not None else "out")


def explore(abi, roots, seen, max_depth, res, stop_depth=None):
    """BFS over extensions of the root histories; every transition runs on the real code.
    `seen` holds canonical states that are expanded elsewhere (or already).  States first
    reached at depth `stop_depth` are returned, not expanded (they become tasks)."""
    A = alphabet(abi)
    frontier = collections.deque(roots)
    handed_over = []
    local_states = 0
    while frontier:
        hist = frontier.popleft()
        for ev in A:
            nh = hist + (ev,)
            diffs, ref = check_history(abi, nh)
            res.transitions += 1
            res.traces += 1
            k = _canon_of(ref)
            res.case((abi, k), nontrivial=True, outcome=_outcome(ref) if not diffs else "DISCREPANCY")
            if diffs:
                res.bad(_case(abi, nh), diffs)
                continue
            if k in seen:
                continue
            seen.add(k)
            local_states += 1
            if k[0] == "ERR":
                continue  # terminal
            if len(nh) <= 4:
                res.sample(_case(abi, nh), cap=2)
            if stop_depth is not None and len(nh) >= stop_depth:
                handed_over.append(nh)
                continue
            if len(nh) >= max_depth:
                continue  # reached and checked, not expanded: the bound
            frontier.append(nh)
    res.states += local_states
    return handed_over


@functools.lru_cache(maxsize=None)
def plan(abi, prefix_depth):
    """Reference-only BFS to the task-split depth.  Returns (shallow, roots): canonical
    states first reached at depth <= prefix_depth, and for those first reached exactly at
    prefix_depth the history reaching them (in BFS order).  The real code is run on all of
    these transitions by the 'prefix' task."""
    A = alphabet(abi)
    seen = {cfimodel.Machine(abi).canon()}
    frontier = collections.deque([()])
    roots = []
    while frontier:
        hist = frontier.popleft()
        for ev in A:
            nh = hist + (ev,)
            ref = cfimodel.run(abi, _ref_events(nh))
            k = _canon_of(ref)
            if k in seen:
                continue
            seen.add(k)
            if k[0] == "ERR":
                continue
            if len(nh) >= prefix_depth:
                roots.append(nh)
            else:
                frontier.append(nh)
    return frozenset(seen), tuple(roots)


def _depth(tier):
    return 1 + BOUNDS[tier]["events_after_startproc"]


def tasks(tier):
    out = []
    for abi in ABIS:
        out.append({"abi": abi, "kind": "prefix", "depth": _depth(tier)})
        _, roots = plan(abi, PREFIX_DEPTH)
        for i in range(len(roots)):
            out.append({"abi": abi, "kind": "sub", "root": i, "depth": _depth(tier)})
    return out


def task_group(task):
    return task["abi"] + ":" + task["kind"]


def run_task(task):
    res = TaskResult()
    abi = task["abi"]
    shallow, roots = plan(abi, PREFIX_DEPTH)
    if task["kind"] == "prefix":
        probe_default_column(abi, res)
        seen = {cfimodel.Machine(abi).canon()}
        res.states += 1
        res.case((abi, cfimodel.Machine(abi).canon()), outcome="empty-table")
        handed = explore(abi, [()], seen, task["depth"], res, stop_depth=PREFIX_DEPTH)
        # the plan (reference only) and the real exploration must agree on the task roots,
        # unless a discrepancy cut the real exploration short
        if not res.discrepancies and tuple(handed) != roots:
            raise RuntimeError("task plan and prefix exploration disagree for %s" % abi)
        res.notes["alphabet:" + abi] = len(alphabet(abi))
        res.notes["tasks:" + abi] = len(roots)
    else:
        root = roots[task["root"]]
        seen = set(shallow)
        explore(abi, [root], seen, task["depth"], res)
    return res


def replay(case):
    abi = case["abi"]
    if case.get("probe") == "default-return-column":
        res = TaskResult()
        probe_default_column(abi, res)
        return [d for r in res.discrepancies for d in r["diffs"]]
    events = tuple(("d", e[1], tuple(e[2]), e[3]) if e[0] == "d" else (e[0],) for e in case["history"])
    diffs, _ = check_history(abi, events)
    return diffs
