"""
C15  CFI evaluation implements the DWARF rules and fails cleanly.

Explicit-state breadth-first search over *directive histories*.  A history is
a sequence of events: a CFI directive (appended at the current location) or one
of the two location events "next offset" / "next block".  For every history a
fresh gtirb module + cfiDirectives table is built and the real
`evaluate_cfi_directives` runs on it; `vf.cfimodel` (a reference interpreter
written from the DWARF call-frame rules) runs on the same history.  States are
deduplicated on the reference interpreter's canonical state; histories whose
expected outcome is an error are terminal.
"""
import collections
import copy as _copy
import dataclasses
import functools
import gc
import uuid

import gtirb

from gtirb_rewriting._auxdata import NULL_UUID
from gtirb_rewriting.dwarf import cfi_eval as CE
from gtirb_rewriting.dwarf.cfi_eval import CFIStateError, evaluate_cfi_directives

from .. import cfimodel
from ..core import TaskResult, h8, sig_of

PROPERTY = "C15"
LEVEL = "model_checking"
STATES_ARE_DISTINCT_CASES = True
RULE = (
    "breadth-first search from the empty cfiDirectives table over histories of events (35 per ABI: every "
    "directive evaluate_cfi_directives supports with operands from registers {3,6,7} / offsets {8,16,-8}, six "
    ".cfi_escape byte strings, personality/lsda with symbol | DW_EH_PE_omit | missing symbol, return_column, "
    "'next offset', 'next block'); every history is rebuilt as a fresh module and evaluated by the real code, "
    "twice when it has more than one location (table filled and blocks passed in address order / in reverse "
    "order); a case is one transition; distinct = distinct (ABI, canonical reference state) reached, canonical "
    "state = in/out of procedure, CFA rule, register rules, remember stack, initial row (or 'CIE prefix still "
    "open'), personality, lsda, return column, whether the current location already has directives, whether the "
    "current block has directives at an earlier offset; expected-error states are terminal and count as one "
    "state per (ABI, error class); states whose incoming transition is a discrepancy are not expanded"
)
ASSUMPTIONS = [
    "ABIs: X64-ELF, ARM64-ELF, MIPS32-ELF (module byte_order=big, 4-byte pointers). The PE ABIs define no DWARF "
    "return column (default_dwarf_eh_return_column raises NotImplementedError), CFI evaluation is not meaningful "
    "there: out of scope.",
    "Expected default return address column per ABI comes from the psABI register numbering / what llvm-mc puts "
    "in the CIE of an empty procedure (x86-64: 16, AArch64: 30, MIPS o32: 31), not from gtirb_rewriting.abi. It is "
    "checked once per ABI by a dedicated probe (kind cfi-eval-default-return-column); inside the search a state "
    "whose return column was never set must show the same column as that probe, so that a wrong ABI constant is "
    "reported once and does not mask the rest of the state space.",
    "Escapes: only DW_CFA_nop / def_cfa_expression / expression / val_expression (what the statement calls "
    "'escaped expression instructions'); other escaped instructions (DW_CFA_offset, *_sf ...) and unknown "
    "directives are rejected by the library with NotImplementedError by design (pinned by its tests) and are "
    "outside the alphabet. Expression operands use DW_OP_const1u, DW_OP_const2u (byte-order sensitive), "
    "DW_OP_addr with a byte-palindromic address (pointer-size sensitive, byte-order neutral), DW_OP_deref.",
    ".cfi_rel_offset is a GAS directive, not a DWARF rule. GAS defines it relative to the CFA register "
    "(offset(n - cfa_offset)); the library documents 'register must already have an offset(N) rule, result "
    "offset(N+n), otherwise CFIStateError'. The reference follows the library; the divergence from GAS is not "
    "reported.",
    "GTIRB does not say which directives belong to the CIE: as documented in cfi_eval.py everything at the "
    "location of .cfi_startproc is the CIE-like prefix and the initial row is the row at the end of that "
    "location. DW_CFA_restore inside the still-open prefix refers to the empty row (DWARF is silent).",
    ".cfi_def_cfa_register on a CFA that is not register+offset is treated as ill-formed (DWARF 6.4.2.2: 'valid "
    "only if the current CFA rule is defined to use a register and offset') although the statement only lists "
    "offset changes. Either CFIStateError or ValueError is accepted for every class of ill-formed input.",
    "'At the same step' is observable as the number of states yielded before the exception.",
    "Equal canonical state is taken to imply equal futures up to a shift of block/offset numbers (the evaluator "
    "only sorts by them). All blocks live in one byte interval, 8 bytes each with 2-byte gaps; all blocks of the "
    "module are passed to evaluate_cfi_directives.",
    "The three ABIs differ only in the default return column and in how escape operands are decoded (both "
    "reachable within two events), so ARM64-ELF and MIPS32-ELF are searched one event less deep than X64-ELF. "
    "MIPS32 is explored as a big-endian module only (the library assembles MIPS32 for the big-endian triple "
    "'mips-pc-linux').",
    "Work distribution: the reference interpreter alone lays out the state graph down to "
    "planned_events_after_startproc+1 events (which history reaches which canonical state first); the tasks then "
    "run every transition out of every planned state on the real code and search on below the deepest planned "
    "states with task-local deduplication. A planned state is expanded only if its own history replays without "
    "discrepancy on the real code.",
    "Independence of copies is checked observably (copy at yield time, compare with the snapshot after the "
    "generator finished or raised), not by object identity of the parts.",
]
BOUNDS = {
    # events_after_startproc: history length bound per ABI (not counting the leading .cfi_startproc that every
    # non-trivial history needs); planned_events_after_startproc: depth to which the reference alone lays out the
    # state graph so that the transitions can be dealt to the tasks without duplicates
    "quick": {"events_after_startproc": {"X64-ELF": 5, "ARM64-ELF": 4, "MIPS32-ELF": 4},
              "planned_events_after_startproc": 4, "alphabet": 35,
              "presentations": 2, "tasks_per_abi": 64},
    "thorough": {"events_after_startproc": {"X64-ELF": 7, "ARM64-ELF": 6, "MIPS32-ELF": 6},
                 "planned_events_after_startproc": 5, "alphabet": 35, "presentations": 2, "tasks_per_abi": 256},
}
CAP_S = {"quick": 300, "thorough": 3000}

# Discrepancies of the unchanged tree (/repo @ 09407ae) with the verdict of whoever wrote this check and the
# proposed known_findings.json matcher.  Documentation only - nothing reads this at run time.
PROPOSED_KNOWN_FINDINGS = [
    {
        "id": "F5",
        "what": ".cfi_restore r when r has neither a current nor an initial rule raises KeyError",
        "minimal_input": "any ABI: .cfi_startproc; .cfi_restore 3 (same or later location)",
        "expected": "DW_CFA_restore goes back to the rule of the CIE's initial instructions; there is none, so the "
        "register returns to the default (no entry): state unchanged, yielded normally, no exception",
        "observed": "KeyError: 3 escapes from the generator",
        "where": "src/gtirb_rewriting/dwarf/cfi_eval.py:345  state.current.registers.pop(register)",
        "fix": "state.current.registers.pop(register, None)",
        "match": {"kind": "cfi-eval-wrong-exception", "r_exc": "KeyError", "r_directive": ".cfi_restore"},
    },
    {
        "id": "NEW-A",
        "what": "default DWARF return-address column is 32 for ARM64-ELF and MIPS32-ELF (psABI / gas / llvm-mc: 30 and 31)",
        "minimal_input": "ARM64 or MIPS32 ELF module with just .cfi_startproc",
        "expected": "return_column 30 (AArch64 x30/LR) / 31 (MIPS $ra); llvm-mc -filetype=obj of an empty procedure + "
        "llvm-dwarfdump --eh-frame prints 'Return address column: 30' / '31' (x86_64: 16, which the library has right)",
        "observed": "ProcedureState.return_column == 32 on both",
        "where": "src/gtirb_rewriting/abi.py:752-753 and 883-884 (default_dwarf_eh_return_column)",
        "fix": "return 30 / return 31",
        "match": {"kind": "cfi-eval-default-return-column", "r_abi": ["ARM64-ELF", "MIPS32-ELF"]},
    },
    {
        "id": "NEW-B",
        "what": "escaped DWARF expressions of a (big-endian) MIPS32 module are decoded little-endian",
        "minimal_input": "MIPS32-ELF, byte_order=Big: .cfi_startproc; .cfi_escape 0x00,0x16,0x06,0x03,0x0a,0x12,0x34 "
        "(nop; val_expression r6 {DW_OP_const2u 0x1234})",
        "expected": "val_expression((const2u 0x1234))",
        "observed": "OpConst2U(0x3412), silently",
        "where": "src/gtirb_rewriting/abi.py:260 ABI.byteorder() is 'little' for every ABI (no override in _MIPS32_ELF) and "
        "is the byte order cfi_eval.py:381 decodes escapes with; the library's own MIPS32 is big-endian "
        "(utils._target_triple -> 'mips-pc-linux', Assembler emits 24081234 for addiu $t0,$zero,0x1234)",
        "fix": "_MIPS32_ELF.byteorder() -> 'big' (or derive it from module.byte_order)",
        "match": {"kind": "cfi-eval-state-mismatch", "r_abi": "MIPS32-ELF", "r_directive": ".cfi_escape",
                  "r_detail": "byte-swapped-operand"},
    },
]

ABIS = tuple(cfimodel.ABIS)


def D(kind, **kw):
    d = {"kind": kind}
    d.update(kw)
    return d


# ------------------------------------------------------------------ alphabet
def _escape_bytes(abi):
    cfg = cfimodel.ABIS[abi]
    big = cfg["byteorder"] == "big"
    c2 = [0x12, 0x34] if big else [0x34, 0x12]  # DW_OP_const2u 0x1234
    pal = [0x11] + [0x00] * (cfg["ptr"] - 2) + [0x11]  # DW_OP_addr <byte palindrome>
    return [
        [0x0F, 0x02, 0x08, 0x2A],  # def_cfa_expression {const1u 42}
        [0x10, 0x03, 0x02, 0x08, 0x2A],  # expression r3 {const1u 42}
        [0x16, 0x03, 0x02, 0x08, 0x2A],  # val_expression r3 {const1u 42}
        [0x00],  # nop
        [0x00, 0x16, 0x06, 0x03, 0x0A] + c2,  # nop; val_expression r6 {const2u 0x1234}
        [0x0F, 2 + len(pal), 0x03] + pal + [0x06],  # def_cfa_expression {addr PAL; deref}
        [0x16, 0x06, 0x06, 0x92, 0x21, 0x78, 0x77, 0x70, 0x22],  # val_expression r6 {bregx r33,-8; breg7 -16; plus}: signed LEB operands
    ]


@functools.lru_cache(maxsize=None)
def alphabet(abi):
    """Events as json-able tuples ("d", name, args, symkind) | ("next",) | ("block",);
    symkind: None (no symbol operand) | "sym" | "null" (NULL_UUID) | "dangling" (UUID of nothing)."""
    ev = [
        (".cfi_startproc", ()),
        (".cfi_endproc", ()),
        (".cfi_def_cfa", (7, 8)),
        (".cfi_def_cfa", (6, 16)),
        (".cfi_def_cfa_register", (6,)),
        (".cfi_def_cfa_offset", (16,)),
        (".cfi_adjust_cfa_offset", (8,)),
        (".cfi_adjust_cfa_offset", (-8,)),
        (".cfi_undefined", (3,)),
        (".cfi_same_value", (3,)),
        (".cfi_same_value", (6,)),
        (".cfi_register", (3, 6)),
        (".cfi_restore", (3,)),
        (".cfi_restore", (6,)),
        (".cfi_val_offset", (3, -8)),
        (".cfi_offset", (3, -8)),
        (".cfi_offset", (6, 16)),
        (".cfi_rel_offset", (3, 8)),
        (".cfi_remember_state", ()),
        (".cfi_restore_state", ()),
    ]
    out = [("d", n, a, None) for n, a in ev]
    out += [("d", ".cfi_escape", tuple(b), None) for b in _escape_bytes(abi)]
    out += [
        ("d", ".cfi_personality", (0x00,), "sym"),
        ("d", ".cfi_personality", (0xFF,), "null"),
        ("d", ".cfi_personality", (0x00,), "null"),
        ("d", ".cfi_lsda", (0x1B,), "sym"),
        ("d", ".cfi_lsda", (0xFF,), "null"),
        ("d", ".cfi_lsda", (0x1B,), "dangling"),
        ("d", ".cfi_return_column", (7,), None),
        ("next",),
        ("block",),
    ]
    return tuple(out)


def _ref_events(events):
    """Events in the form the reference interpreter takes."""
    return [("d", e[1], e[2], "sym" if e[3] == "sym" else None) if e[0] == "d" else e for e in events]


def _last_directive(events):
    for e in reversed(events):
        if e[0] == "d":
            return e[1]
    return None


# ------------------------------------------------------------------ the real side
_TYPE = "mapping<Offset,sequence<tuple<string,sequence<int64_t>,UUID>>>"
_DANGLING = uuid.UUID(int=0x0123456789ABCDEF0123456789ABCDEF)
_BYTE_ORDER = {"little": gtirb.Module.ByteOrder.Little, "big": gtirb.Module.ByteOrder.Big}


def _locations(events):
    """[(block index, offset, [directive events])] for locations with directives, plus block count."""
    locs = []
    cur = []
    b = off = 0
    for e in events:
        if e[0] == "d":
            cur.append(e)
            continue
        if cur:
            locs.append((b, off, cur))
            cur = []
        if e[0] == "next":
            off += 1
        else:
            b += 1
            off = 0
    if cur:
        locs.append((b, off, cur))
    return locs, b + 1


# node UUIDs: fixed values instead of uuid4() (a third of the cost of building a module);
# every world has its own IR, so reusing them across worlds is harmless
_UUIDS = [uuid.UUID(int=0xC15 << 64 | k) for k in range(64)]


class World:
    """A fresh IR + module with n code blocks and one symbol."""

    def __init__(self, abi, nblocks):
        cfg = cfimodel.ABIS[abi]
        U = _UUIDS
        self.ir = gtirb.IR(uuid=U[0])
        self.m = gtirb.Module(
            uuid=U[1],
            name="m",
            isa=getattr(gtirb.Module.ISA, cfg["isa"]),
            file_format=getattr(gtirb.Module.FileFormat, cfg["format"]),
            byte_order=_BYTE_ORDER[cfg["byte_order"]],
        )
        self.m.ir = self.ir
        sec = gtirb.Section(uuid=U[2], name=".text")
        sec.module = self.m
        bi = gtirb.ByteInterval(uuid=U[3], address=0x1000, contents=bytes(10 * nblocks))
        bi.section = sec
        self.blocks = []
        for k in range(nblocks):
            blk = gtirb.CodeBlock(uuid=U[6 + k], offset=10 * k, size=8)
            blk.byte_interval = bi
            self.blocks.append(blk)
        self.sym = gtirb.Symbol("pers", uuid=U[4], payload=gtirb.ProxyBlock(uuid=U[5]))
        self.sym.module = self.m
        self.index = {id(blk): k for k, blk in enumerate(self.blocks)}

    def set_table(self, locs, reverse):
        data = {}
        for b, off, ds in reversed(locs) if reverse else locs:
            lst = []
            for _, name, args, symkind in ds:
                s = self.sym if symkind == "sym" else _DANGLING if symkind == "dangling" else NULL_UUID
                lst.append((name, list(args), s))
            data[gtirb.Offset(self.blocks[b], off)] = lst
        self.m.aux_data["cfiDirectives"] = gtirb.AuxData(type_name=_TYPE, data=data)


_EXPR_OPCODE = {"OpAddr": 0x03, "OpDeref": 0x06, "OpConst1U": 0x08, "OpConst2U": 0x0A, "OpPlus": 0x22, "OpPlusUConst": 0x23, "OpBRegX": 0x92}


_FIELD_NAMES = {}


def _conv_expr(ops):
    out = []
    for op in ops:
        t = type(op)
        names = _FIELD_NAMES.get(t)
        if names is None:
            names = _FIELD_NAMES[t] = tuple(f.name for f in dataclasses.fields(op))
        out.append((_EXPR_OPCODE.get(t.__name__, t.__name__),) + tuple(getattr(op, n) for n in names))
    return tuple(out)


def _conv_rule(r):
    if isinstance(r, CE.RegisterUndefined):
        return ("undefined",)
    if isinstance(r, CE.RegisterSameValue):
        return ("same_value",)
    if isinstance(r, CE.RegisterOffset):
        return ("offset", r.offset)
    if isinstance(r, CE.RegValOffset):
        return ("val_offset", r.offset)
    if isinstance(r, CE.RegisterInRegister):
        return ("register", r.register)
    if isinstance(r, CE.RegisterAtExpression):
        return ("expression", _conv_expr(r.expression))
    if isinstance(r, CE.RegisterIsExpression):
        return ("val_expression", _conv_expr(r.expression))
    return ("?", repr(r))


def _conv_cfa(c):
    if c is None:
        return None
    if isinstance(c, CE.CFARegisterOffset):
        return ("reg_offset", c.register, c.offset)
    if isinstance(c, CE.CFAExpression):
        return ("expression", _conv_expr(c.expression))
    return ("?", repr(c))


def _conv_row(row):
    return (_conv_cfa(row.cfa), tuple(sorted((k, _conv_rule(v)) for k, v in row.registers.items())))


def _conv_ptr(p, world):
    if p is None:
        return None
    return (int(p.encoding), "sym" if p.symbol is world.sym else "?" + repr(p.symbol))


FIELDS = ("return_column", "personality", "lsda", "cfa", "registers", "initial", "save_stack")


def conv_state(st, world):
    """ProcedureState -> the same plain structure cfimodel.Machine.snapshot() produces
    (return_column as a bare int)."""
    if st is None:
        return None
    if not isinstance(st, CE.ProcedureState):
        return {"?": repr(st)}
    cur = _conv_row(st.current)
    return {
        "return_column": st.return_column,
        "personality": _conv_ptr(st.personality, world),
        "lsda": _conv_ptr(st.lsda, world),
        "cfa": cur[0],
        "registers": cur[1],
        "initial": _conv_row(st.initial),
        "save_stack": tuple(_conv_row(r) for r in st.save_stack),
    }


def run_real(w, locs, reverse):
    """Real evaluation on the world `w` with a freshly built table.  Returns (yields, exc, copy_diffs):
    yields [(block index, offset, converted state)], exc None | (type name, message, is_clean)."""
    w.set_table(locs, reverse)
    blocks = list(reversed(w.blocks)) if reverse else list(w.blocks)
    yields = []
    kept = []
    exc = None
    try:
        for blk, off, st in evaluate_cfi_directives(w.m, blocks):
            snap = conv_state(st, w)
            yields.append((w.index.get(id(blk), "?foreign"), off, snap))
            kept.append((_copy.copy(st), snap))
    except (CFIStateError, ValueError) as e:
        exc = (type(e).__name__, str(e)[:100], True)
    except Exception as e:  # noqa: BLE001 - any other type is exactly what the property forbids
        exc = (type(e).__name__, str(e)[:100], False)
    copy_diffs = []
    for k, (cp, snap) in enumerate(kept):
        now = conv_state(cp, w)
        if now != snap:
            fld = _first_diff(now, snap)
            copy_diffs.append(D("cfi-copy-not-independent", r_field=fld, yield_index=k, copy_now=_j(now), at_yield=_j(snap)))
    return yields, exc, copy_diffs


def _j(x):
    return repr(x)[:300]


def _first_diff(a, b):
    if a is None or b is None or "?" in a or "?" in b:
        return "in_procedure"
    for f in FIELDS:
        if a[f] != b[f]:
            return f
    return None


def _leaf_diff(a, b):
    """Classify the first difference between two plain structures: 'byte-swapped-operand'
    (an integer that equals the expected one with its 2/4/8 bytes reversed), 'value', 'shape'."""
    if isinstance(a, tuple) and isinstance(b, tuple) and len(a) == len(b):
        for x, y in zip(a, b):
            if x != y:
                return _leaf_diff(x, y)
        return "none"
    if isinstance(a, int) and isinstance(b, int) and not isinstance(a, bool) and not isinstance(b, bool):
        for w in (2, 4, 8):
            if 0 <= b < 1 << (8 * w) and 0 <= a < 1 << (8 * w) and int.from_bytes(b.to_bytes(w, "big"), "little") == a:
                return "byte-swapped-operand"
        return "value"
    return "shape"


# ------------------------------------------------------------------ comparison
@functools.lru_cache(maxsize=None)
def observed_default_column(abi):
    """What the real evaluator reports as return column for a lone .cfi_startproc
    (None if that does not even work)."""
    y, exc, _ = run_real(World(abi, 1), [(0, 0, [alphabet(abi)[0]])], False)
    if exc or len(y) != 1 or not isinstance(y[0][2], dict):
        return None
    return y[0][2].get("return_column")


def _expect_state(abi, snap):
    """Reference snapshot -> structure comparable with conv_state()."""
    if snap is None:
        return None
    s = dict(snap)
    tag, val = s["return_column"]
    if tag == "default":
        obs = observed_default_column(abi)
        val = val if obs is None else obs  # a wrong ABI constant is reported by the probe, once
    s["return_column"] = val
    return s


def compare(abi, events, ref, real, presentation):
    exp_yields, exp_err, _ = ref
    yields, exc, copy_diffs = real
    last = _last_directive(events)
    diffs = []
    if exc is not None and not exc[2]:
        diffs.append(D("cfi-eval-wrong-exception", r_exc=exc[0], r_directive=last, msg=exc[1],
                       expected=("error:" + exp_err[1]) if exp_err else "no error", after_yields=len(yields)))
    elif exp_err is not None:
        if exc is None:
            diffs.append(D("cfi-eval-missing-error", r_expected=exp_err[1], r_directive=last))
        elif len(yields) != exp_err[0]:
            diffs.append(D("cfi-eval-error-at-wrong-step", r_expected=exp_err[1], r_directive=last,
                           yields_before_error=len(yields), expected_yields_before_error=exp_err[0]))
    elif exc is not None:
        diffs.append(D("cfi-eval-unexpected-error", r_exc=exc[0], r_directive=last, msg=exc[1], after_yields=len(yields)))
    # states yielded before the (expected or unexpected) end must agree as far as both go
    n = min(len(yields), len(exp_yields))
    if exc is None and exp_err is None and len(yields) != len(exp_yields):
        diffs.append(D("cfi-eval-yield-sequence", r_what="count", got=len(yields), expected=len(exp_yields)))
    for k in range(n):
        gb, go, gs = yields[k]
        eb, eo, es = exp_yields[k]
        if (gb, go) != (eb, eo):
            diffs.append(D("cfi-eval-yield-sequence", r_what="location", yield_index=k, got=[gb, go], expected=[eb, eo]))
            break
        es = _expect_state(abi, es)
        if gs != es:
            fld = _first_diff(gs, es)
            g, e = (gs, es) if fld == "in_procedure" else (gs[fld], es[fld])
            diffs.append(D("cfi-eval-state-mismatch", r_field=fld, r_detail=_leaf_diff(g, e) if fld != "in_procedure" else "shape",
                           r_directive=last, r_abi=abi, yield_index=k, got=_j(g), expected=_j(e)))
            break
    diffs.extend(copy_diffs)
    for d in diffs:
        d["presentation"] = presentation
    return diffs


def check_history(abi, events, ref):
    """Build a fresh module for this history, run the real code on it (table filled and blocks
    passed in address order; with more than one location also a second table filled in reverse
    order and the blocks passed in reverse) and compare with the reference result `ref`."""
    locs, nblocks = _locations(events)
    w = World(abi, nblocks)
    diffs = compare(abi, events, ref, run_real(w, locs, False), "address-order")
    if not diffs and len(locs) > 1:
        diffs = compare(abi, events, ref, run_real(w, locs, True), "reversed")
    return diffs


def probe_default_column(abi, res):
    exp = cfimodel.ABIS[abi]["return_column"]
    obs = observed_default_column(abi)
    res.case(("default-return-column", abi), outcome="probe:default-return-column")
    res.traces += 1
    if obs != exp:
        res.bad({"abi": abi, "probe": "default-return-column", "history": [list(alphabet(abi)[0])]},
                [D("cfi-eval-default-return-column", r_abi=abi, got=obs, expected=exp)])


# ------------------------------------------------------------------ search
def _case(abi, events):
    return {"abi": abi, "history": [[e[0], e[1], list(e[2]), e[3]] if e[0] == "d" else [e[0]] for e in events]}


def _outcome(ref):
    y, err, _ = ref
    if err is not None:
        return "error:" + err[1]
    return "ok:%d-yields:%s" % (len(y), "in" if y and y[-1][2] is not None else "out")


def _ref_run(abi, events):
    r = cfimodel.Run(abi)
    for e in _ref_events(events):
        r.step(e)
    return r


PER_SIGNATURE_CASES = 3  # cases kept per discrepancy signature and task; the rest is only counted


def _report(res, case, diffs):
    """res.bad() keeps at most 400 cases per task; a frequent (known) discrepancy must not push a
    rare one out of that list, so only the first few cases of every signature are kept and all
    of them are counted per signature ("sig:..." counters in the evidence)."""
    sig = " + ".join(sorted({sig_of(d) for d in diffs}))
    res.extra["sig:" + sig] += 1
    if res.extra["sig:" + sig] <= PER_SIGNATURE_CASES:
        res.bad(case, diffs)
    else:
        for d in diffs:
            res.extra["diff:" + d["kind"]] += 1


def explore(abi, roots, seen, max_depth, res):
    """BFS over the extensions of the root histories, at most max_depth events in total;
    every transition runs on the real code.  `seen` holds the canonical states that are
    expanded elsewhere (or already); it is updated in place."""
    A = alphabet(abi)
    RA = _ref_events(A)
    frontier = collections.deque((h, _ref_run(abi, h)) for h in roots)
    while frontier:
        hist, run = frontier.popleft()
        for ev, rev in zip(A, RA):
            nh = hist + (ev,)
            r2 = run.clone()
            r2.step(rev)
            ref = r2.result()
            diffs = check_history(abi, nh, ref)
            res.transitions += 1
            res.traces += 1
            k = r2.canon()
            new = k not in seen
            res.case((abi, k), nontrivial=new and not diffs, outcome=_outcome(ref) if not diffs else "DISCREPANCY")
            if diffs:
                _report(res, _case(abi, nh), diffs)
                continue  # a state the real code does not reach correctly is not expanded
            if not new:
                continue
            seen.add(k)
            res.states += 1
            if k[0] == "ERR":
                continue  # terminal
            res.sample(_case(abi, nh), cap=2)
            if len(nh) >= max_depth:
                continue  # reached and checked, not expanded: the bound
            frontier.append((nh, r2))


@functools.lru_cache(maxsize=None)
def plan(abi, plan_depth):
    """Reference-only BFS from the empty table to `plan_depth` events.  Returns
    (seen, nodes): the canonical states first reached at depth <= plan_depth and, in BFS
    order, the first history of every such state that is not an error state.  The plan only
    distributes the work: the tasks run *every* transition out of *every* node on the real
    code (and go on searching below the nodes of depth == plan_depth on their own)."""
    A = alphabet(abi)
    RA = _ref_events(A)
    root = cfimodel.Run(abi)
    seen = {root.canon()}
    nodes = [()]
    frontier = collections.deque([((), root)])
    while frontier:
        hist, run = frontier.popleft()
        for ev, rev in zip(A, RA):
            r2 = run.clone()
            r2.step(rev)
            k = r2.canon()
            if k in seen:
                continue
            seen.add(k)
            if k[0] == "ERR":
                continue
            nh = hist + (ev,)
            nodes.append(nh)
            if len(nh) < plan_depth:
                frontier.append((nh, r2))
    return seen, tuple(nodes)


def _depth(tier, abi):
    return 1 + BOUNDS[tier]["events_after_startproc"][abi]


def _plan_depth(tier, abi):
    return min(_depth(tier, abi) - 1, 1 + BOUNDS[tier]["planned_events_after_startproc"])


def tasks(tier):
    """One 'probe' task per ABI plus chunks of planned nodes (consecutive in BFS order, so
    that siblings - whose successors coincide most often - stay in one task)."""
    out = []
    per_abi = BOUNDS[tier]["tasks_per_abi"]
    for abi in ABIS:
        out.append({"abi": abi, "kind": "probe"})
        _, nodes = plan(abi, _plan_depth(tier, abi))  # computed once here, inherited by the forked workers
        n = len(nodes)
        chunk = max(1, -(-n // per_abi))
        for lo in range(0, n, chunk):
            out.append({"abi": abi, "kind": "nodes", "lo": lo, "hi": min(n, lo + chunk), "tier": tier})
    # process histories: modules of several ABIs evaluated one after the other in one fresh interpreter, carrying the
    # SAME escape payload bytes (whose meaning depends on the ABI's byte order)
    for first in ABIS:
        out.append({"abi": first, "kind": "abi-history", "depth": 3 if tier == "thorough" else 2})
    gc.freeze()  # keep the collector of the forked workers off the (shared, read-only) plans
    return out


def task_group(task):
    return task["abi"] + ":" + task["kind"]


def run_task(task):
    res = TaskResult()
    abi = task["abi"]
    if task["kind"] == "probe":
        probe_default_column(abi, res)
        res.notes["alphabet:" + abi] = len(alphabet(abi))
        return res
    if task["kind"] == "abi-history":
        import itertools

        steps = [(a, pi) for a in ABIS for pi in range(len(SHARED_PAYLOADS))]
        for pi0 in range(len(SHARED_PAYLOADS)):
            for n in range(1, task["depth"]):
                for rest in itertools.product(steps, repeat=n):
                    hist = [[abi, pi0]] + [list(x) for x in rest]
                    diffs = run_abi_history(hist)
                    res.case(("abi-history", tuple(map(tuple, hist))), outcome="abi-history:" + ("ok" if not diffs else "diff"))
                    res.traces += 1
                    if diffs:
                        res.bad({"abi": abi, "abi_history": hist}, diffs)
        res.sample({"abi": abi, "abi_history": [[abi, 0], [ABIS[-1], 0]]}, cap=1)
        return res
    tier = task["tier"]
    shallow, nodes = plan(abi, _plan_depth(tier, abi))
    res.notes["planned_nodes:" + abi] = len(nodes)
    seen = set(shallow)
    if task["lo"] == 0:
        # the planned error states (terminal) are counted here, once
        for k in sorted(k for k in shallow if k[0] == "ERR"):
            res.states += 1
            res.nontrivial.add(h8((abi, k)))
    for hist in nodes[task["lo"] : task["hi"]]:
        run = _ref_run(abi, hist)
        if hist:
            # the transition into this node is checked (and reported) by the task owning its
            # parent; here it only decides whether the node is expanded at all
            if check_history(abi, hist, run.result()):
                res.extra["nodes_not_expanded_because_unreachable_on_real_code"] += 1
                continue
        res.states += 1
        res.nontrivial.add(h8((abi, run.canon())))
        if len(hist) >= 2:
            res.sample(_case(abi, hist), cap=1)
        explore(abi, [hist], seen, _depth(tier, abi), res)
    return res


# ------------------------------------------------------------------ process histories over ABIs
SHARED_PAYLOADS = (
    (0x00, 0x16, 0x06, 0x03, 0x0A, 0x34, 0x12),  # nop; val_expression r6 {const2u <34 12>}
    (0x0F, 0x03, 0x0A, 0x01, 0x02),  # def_cfa_expression {const2u <01 02>}
)
ABI_HIST_RUNNER = r"""
import sys, json
sys.path.insert(0, %(root)r)
from vf.props import c15
print(json.dumps(c15.run_abi_history_inproc(json.loads(%(hist)r))))
"""


def _abi_hist_events(payload):
    return (("d", ".cfi_startproc", (), None), ("d", ".cfi_def_cfa", (7, 8), None), ("next",), ("d", ".cfi_escape", tuple(payload), None), ("next",), ("d", ".cfi_endproc", (), None))


def run_abi_history_inproc(hist):
    out = []
    for step, (abi, pi) in enumerate(hist):
        events = _abi_hist_events(SHARED_PAYLOADS[pi])
        diffs = check_history(abi, events, _ref_run(abi, events).result())
        for d in diffs:
            d["r_step"] = step
            d["r_history"] = ">".join(a for a, _ in hist[: step + 1])
        out.extend(diffs)
    return out


def run_abi_history(hist):
    import json
    import os
    import subprocess
    import sys

    root = os.path.dirname(os.path.dirname(os.path.dirname(os.path.abspath(__file__))))
    code = ABI_HIST_RUNNER % {"root": root, "hist": json.dumps(hist)}
    p = subprocess.run([sys.executable, "-c", code], capture_output=True, text=True, env=dict(os.environ), timeout=600)
    if p.returncode != 0:
        raise RuntimeError("abi-history sub-process failed: " + p.stderr[-400:])
    return json.loads(p.stdout.strip().splitlines()[-1])


def replay(case):
    if "abi_history" in case:
        return run_abi_history(case["abi_history"])
    abi = case["abi"]
    if case.get("probe") == "default-return-column":
        res = TaskResult()
        probe_default_column(abi, res)
        return [d for r in res.discrepancies for d in r["diffs"]]
    events = tuple(("d", e[1], tuple(e[2]), e[3]) if e[0] == "d" else (e[0],) for e in case["history"])
    return check_history(abi, events, _ref_run(abi, events).result())
