"""
C18  retarget_symbol_uses is complete and precise.

Bounded exhaustive enumeration.  Every case builds a small real GTIRB module by
hand (x86-64 ELF; ARM64 ELF and x86-64 PE with a reduced product) that mentions
symbol A in a chosen subset of the nine places a symbol can be mentioned, with
bystander mentions of B and C in the same blocks, drives the public API
(`RewritingContext.retarget_symbol_uses` + `apply()`), and compares a by-value
snapshot of the whole module (expressions, CFI, symbolForwarding, CFG, bytes,
symbols, function tables) with the snapshot predicted from the statement.

The prediction never calls the library: the attribute conversion comes from the
small reference table `REF_RULES` typed below, the role of an expression
(call / jump / code reference / data) from the opcode bytes in front of it.
"""
import itertools
import struct

import gtirb
import gtirb_functions
from gtirb_test_helpers import (
    add_code_block,
    add_data_block,
    add_data_section,
    add_edge,
    add_function,
    add_proxy_block,
    add_symbol,
    add_text_section,
    create_test_module,
)

import gtirb_rewriting
from gtirb_rewriting import Patch, RewritingContext

from ..core import TaskResult

PROPERTY = "C18"
LEVEL = "exploration"
RULE = (
    "one case = (ABI, PIE, kind of A/B/C in {code function, data block, external proxy}, subset of the 9 use "
    "places of A, attribute style, retarget set in {A->B | A->B,C->B | chain A->B,B->C}, optional single "
    "insertion/deletion next to a use) or one invalid request; every point of the product is built as a real "
    "module and run through RewritingContext; non-trivial = at least one mention has to change or the request "
    "has to be refused"
)
ASSUMPTIONS = [
    "several retargets in one context are read as one simultaneous substitution on the state before the "
    "retarget (chain A->B,B->C: uses of A end at B, uses of B at C), which is the only reading under which "
    "'each now refers to B' holds for A",
    "an attribute rule applies only when the expression carries exactly the attribute set the rule lists for "
    "the old symbol's side (internal/external); otherwise attributes must stay as they were; the rule table "
    "REF_RULES is a hand-typed copy of the ABI description (x64 ELF PIE: code ref {} <-> {GOT,PCREL}, control "
    "flow {} <-> {PLT}; x64 ELF non-PIE: both {} <-> {PLT}; ARM64 ELF PIE: code ref {LO12} <-> {LO12,GOT} and "
    "{} <-> {GOT}; none for ARM64 non-PIE and PE)",
    "symbolForwarding: only targets (values) are retargeted, a key equal to A must stay (statement: "
    "'symbolForwarding target')",
    "with an insertion/deletion in the same context the state 'before' is the result of the same context "
    "without the retarget requests (differential against a second run of the library); without modifications "
    "it is the snapshot of the input module",
    "return edges: required are the edges named by the statement (callee B's returning blocks gain the "
    "fallthrough successor of each retargeted call site, callee A's lose it unless another call with that "
    "return site remains); Return edges to proxies of those same returning blocks may appear/disappear "
    "(statement silent on 'unknown caller' proxies); jump/jcc retargets (tail calls) must leave Return edges alone",
    "a control-flow use of a *data* symbol A is not generated (no consistent CFG exists for it); control flow "
    "retargeted *into* data is generated and must be refused",
    "SymAddrAddr expressions, MIPS32, IA32 and modules whose expressions sit outside any block are not covered; "
    "insertions/deletions are only combined with retargets on x86-64 (ELF, and PE in the thorough tier)",
    "gtirb, gtirb_functions, capstone and the assembler (for the inserted patches) are trusted",
]
BOUNDS = {
    "quick": {
        "kinds": "A in {code function entry, data block, external proxy, local label in main (x64-elf only)} x B, C in "
        "{code, data, proxy}: 36 (27) combinations; A data: no control-flow uses",
        "x64-elf": "PIE/non-PIE x [all 512 use subsets x {A->B}] + [all 32 subsets of the byte-level uses x table uses "
        "all on/all off x {A->B,C->B | chain}] + [swapped-attribute style: subsets of size <= 2 and the full set x {A->B}]; "
        "label kind: the 64 'blockwise' subsets x 3 retarget sets",
        "x64-elf-mods": "PIE/non-PIE x 18 (op, place) single modifications (insert before block / before use / after use, "
        "delete preceding mov / bystander lea, insert a patch `call A`) x other byte-level uses all on / all off, table uses on x 3 retarget sets",
        "arm64-elf": "PIE/non-PIE x use subsets of size <= 2 and the full set x 3 retarget sets (+ swapped style x {A->B})",
        "x64-pe": "all 128 subsets of the 7 non-CFI uses x {A->B} + blockwise subsets x the two other retarget sets",
        "invalid": "8 refused request shapes x 9 (A,B) kinds x PIE/non-PIE; control flow into data inside every product",
        "process-history": "every ordered pair of the 5 module kinds (x64 ELF PIE/non-PIE, ARM64 ELF PIE/non-PIE, x64 PE) rewritten "
        "one after the other in one fresh interpreter (int->ext and ext->int, every use place): 25 histories",
    },
    "thorough": {
        "x64-elf": "36 kinds x PIE/non-PIE x all 512 subsets x 3 retarget sets x 2 attribute styles",
        "arm64-elf": "as x64-elf",
        "x64-pe": "36 kinds x all 128 subsets x 3 retarget sets x 2 styles",
        "x64-elf-mods": "18 single modifications x all 32 subsets of the other byte-level uses x table uses on/off x 3 retarget sets",
        "x64-elf-mods2": "PIE, all pairs of modifications at two different places, byte-level uses all on / all off",
        "x64-pe-mods": "as quick x64-elf-mods",
        "invalid": "as quick",
        "process-history": "every sequence of 2 or 3 module kinds: 150 histories",
    },
}
CAP_S = {"quick": 400, "thorough": 1800}

ET = gtirb.Edge.Type
AT = gtirb.SymbolicExpression.Attribute
NULL_UUID = gtirb_rewriting._auxdata.NULL_UUID

USES = ("jmp", "jcc", "call", "lea", "quad", "pers", "lsda", "fwdv", "fwdk")
UBIT = {u: 1 << i for i, u in enumerate(USES)}
CF_USES = UBIT["jmp"] | UBIT["jcc"] | UBIT["call"]
BYTE_USES = ("jmp", "jcc", "call", "lea", "quad")
TABLE_MASK = UBIT["pers"] | UBIT["lsda"] | UBIT["fwdv"] | UBIT["fwdk"]
CFI_MASK = UBIT["pers"] | UBIT["lsda"]
RSETS = {
    "ab": (("A", "B"),),
    "ab_cb": (("A", "B"), ("C", "B")),
    "chain": (("A", "B"), ("B", "C")),
    # the same requests made in the other order (the outcome of retargeting is per old symbol, whatever was requested first)
    "chain_r": (("B", "C"), ("A", "B")),
    "cb_ab": (("C", "B"), ("A", "B")),
}

ABIS = {
    "x64-elf": (gtirb.Module.ISA.X64, gtirb.Module.FileFormat.ELF),
    "arm64-elf": (gtirb.Module.ISA.ARM64, gtirb.Module.FileFormat.ELF),
    "x64-pe": (gtirb.Module.ISA.X64, gtirb.Module.FileFormat.PE),
}


def D(kind, **kw):
    d = {"kind": kind}
    d.update(kw)
    return d


# ---------------------------------------------------------------- reference attribute rules
# (abi, pie) -> list of (roles, internal attribute names, external attribute names)
# roles: "cf" control flow operand, "code" data reference from code, "data" word in a data block
REF_RULES = {
    ("x64-elf", 1): [(("code",), (), ("GOT", "PCREL")), (("cf",), (), ("PLT",))],
    ("x64-elf", 0): [(("cf", "code"), (), ("PLT",))],
    ("arm64-elf", 1): [(("code",), ("LO12",), ("GOT", "LO12")), (("code",), (), ("GOT",))],
    ("arm64-elf", 0): [],
    ("x64-pe", 0): [],
    ("x64-pe", 1): [],
}


def ref_convert(abi, pie, role, attrs, old_internal, new_internal):
    """attrs: sorted tuple of attribute names.  Returns the expected tuple."""
    hits = []
    for roles, internal, external in REF_RULES[(abi, pie)]:
        if role not in roles:
            continue
        side = internal if old_internal else external
        if tuple(sorted(side)) == tuple(attrs):
            hits.append(tuple(sorted(internal if new_internal else external)))
    if len(hits) == 1:
        return hits[0]
    assert not hits, "reference table ambiguous"
    return tuple(attrs)


def canon_attrs(abi, pie, role, sub, internal):
    """Attribute names a well-formed binary of that ABI carries on such a use."""
    if abi == "x64-elf":
        if internal or role == "data":
            return ()
        if role == "cf":
            return ("PLT",)
        return ("GOT", "PCREL") if pie else ("PLT",)
    if abi == "arm64-elf":
        if role == "code":
            base = ("LO12",) if sub == "lo12" else ()
            if not internal and pie:
                return tuple(sorted(base + ("GOT",)))
            return base
        return ()
    return ()


# ---------------------------------------------------------------- instruction tables
class X64:
    @staticmethod
    def ordinary(t):
        return [(bytes([0xB0, t]), None)]

    @staticmethod
    def coderef(reg):  # lea r,[rip+sym]   reg 0 = rax, 1 = rcx
        return [(bytes([0x48, 0x8D, 0x05 | (reg << 3), 0, 0, 0, 0]), (3, 4, "code", None))]

    @staticmethod
    def cf(which):
        return {
            "call": [(b"\xe8\x00\x00\x00\x00", (1, 4, "cf", None))],
            "jmp": [(b"\xeb\x00", (1, 1, "cf", None))],
            "jcc": [(b"\x74\x00", (1, 1, "cf", None))],
        }[which]

    ret = [(b"\xc3", None)]
    patch_ordinary = "movb $0x77, %bl"
    patch_call = "call A"

    @staticmethod
    def classify(code, pos):
        """Role of the expression at byte position pos of a code section (by the opcode in front of it)."""
        if pos >= 3 and code[pos - 3 : pos - 1] == b"\x48\x8d" and code[pos - 1] in (0x05, 0x0D, 0x1D):
            return "code", "lea"
        if pos >= 1:
            op = code[pos - 1]
            if op == 0xE8:
                return "cf", "call"
            if op == 0xEB:
                return "cf", "jmp"
            if op == 0x74:
                return "cf", "jcc"
        return None, None


class ARM64:
    @staticmethod
    def _w(v):
        return struct.pack("<I", v)

    @staticmethod
    def ordinary(t):
        return [(ARM64._w(0x52800000 | (t << 5)), None)]  # movz w0,#t

    @staticmethod
    def coderef(reg):  # adrp xR, sym ; add xR, xR, :lo12:sym
        return [
            (ARM64._w(0x90000000 | reg), (0, 4, "code", "page")),
            (ARM64._w(0x91000000 | reg | (reg << 5)), (0, 4, "code", "lo12")),
        ]

    @staticmethod
    def cf(which):
        w = {"call": 0x94000000, "jmp": 0x14000000, "jcc": 0x54000000}[which]  # bl / b / b.eq
        return [(ARM64._w(w), (0, 4, "cf", None))]

    ret = [(struct.pack("<I", 0xD65F03C0), None)]

    @staticmethod
    def classify(code, pos):
        if pos + 4 > len(code):
            return None, None
        w = struct.unpack("<I", code[pos : pos + 4])[0]
        top = w >> 24
        if top == 0x94:
            return "cf", "call"
        if top == 0x14:
            return "cf", "jmp"
        if top == 0x54:
            return "cf", "jcc"
        if top == 0x90:
            return "code", "page"
        if top == 0x91:
            return "code", "lo12"
        return None, None


def isa_of(abi):
    return ARM64 if abi == "arm64-elf" else X64


def selfcheck_tables():
    """The hand-typed encodings decode (capstone) to the instructions the builder means."""
    import capstone

    def mnems(cs, items):
        return [next(cs.disasm(raw, 0x1000)).mnemonic for raw, _ in items]

    x = capstone.Cs(capstone.CS_ARCH_X86, capstone.CS_MODE_64)
    a = capstone.Cs(capstone.CS_ARCH_ARM64, capstone.CS_MODE_ARM)
    got = {
        "x64": mnems(x, X64.ordinary(0x10) + X64.coderef(0) + X64.coderef(1) + X64.cf("call") + X64.cf("jmp") + X64.cf("jcc") + X64.ret),
        "arm64": mnems(a, ARM64.ordinary(0x10) + ARM64.coderef(0) + ARM64.coderef(1) + ARM64.cf("call") + ARM64.cf("jmp") + ARM64.cf("jcc") + ARM64.ret),
    }
    want = {
        "x64": ["mov", "lea", "lea", "call", "jmp", "je", "ret"],
        "arm64": ["mov", "adrp", "add", "adrp", "add", "bl", "b", "b.eq", "ret"],
    }
    assert got == want, "harness: instruction tables do not decode as intended: %r" % (got,)


# ---------------------------------------------------------------- module builder
class World:
    pass


def build(case):
    """The module of a case.  Layout (x86-64 spelling):

    .text  main: m0: mov; lea rcx,C; [lea rax,A]                (falls through)
                 m1: mov; lea rcx,C; [call A]
                 m2: mov; lea rcx,C; [je A]
                 m3: mov; [call C]       (when C can be called)
                 m4: mov; [call B]       (when B can be called)
                 m5: mov; lea rcx,C; jmp A | ret
           f_X:  eX: mov   bX: mov; ret  for every X in A,B,C of kind code
    .data  d0: .byte t; [.quad A]; .quad C; .quad B      dX: 8 bytes for every X of kind data
    CFI    procedure 1 = m0..m2 [.cfi_personality A] [.cfi_lsda A], procedure 2 = m3..m5 personality C, lsda B
    symbolForwarding  [F1 -> A] [A -> F2]  F3 -> C  F5 -> B
    """
    abi, pie, kinds, uses, style = case["abi"], case["pie"], case["kinds"], case["uses"], case.get("style", 0)
    isa, fmt = ABIS[abi]
    I = isa_of(abi)
    w = World()
    w.case = case
    ir, m = create_test_module(fmt, isa, binary_type=["DYN"] if pie else ["EXEC"])
    w.ir, w.m = ir, m
    _, tbi = add_text_section(m, 0x1000)
    _, dbi = add_data_section(m, 0x4000)
    kind = dict(zip("ABC", kinds))
    w.kind = kind
    sym = {n: add_symbol(m, n) for n in "ABC"}
    for n in ("F1", "F2", "F3", "F5"):
        sym[n] = add_symbol(m, n, add_proxy_block(m))
    w.sym = sym
    for n in "ABC":
        if kind[n] == "p":
            sym[n].referent = add_proxy_block(m)
    # kind "l" (A only): a local label on m3, the block m2 falls through to - so `je A` has a Branch and a
    # Fallthrough edge to the same block and `call A` calls a block that is no function entry

    def has(u):
        return bool(uses & UBIT[u])

    def eff(n):
        # kind "a" (B only): a second symbol on the very block (or proxy) A refers to - an alias
        return kind["A"] if kind[n] == "a" else kind[n]

    def expr_for(name, role, sub):
        internal = eff(name) != "p"
        # non-zero addends where the CFG does not care: code references +4 (A) / +0 (others), data words +16 / +8
        addend = 0
        if role == "code":
            addend = 4 if name == "A" else 0
        elif role == "data":
            addend = {"A": 16, "C": 8, "B": 0}[name]
        if style:
            # attributes of the opposite side, taken from the PIE flavour (never matches a rule)
            names = canon_attrs(abi, 1, role, sub, not internal)
        else:
            names = canon_attrs(abi, pie, role, sub, internal)
        return gtirb.SymAddrConst(addend, sym[name], {getattr(AT, a) for a in names})

    def code_block(items):
        data = b""
        exprs = {}
        marks = {}
        for tag, target, insns in items:
            marks[tag] = len(data)
            for raw, ex in insns:
                if ex is not None:
                    off, size, role, sub = ex
                    exprs[(len(data) + off, size)] = expr_for(target, role, sub)
                data += raw
        marks["end"] = len(data)
        b = add_code_block(tbi, data, exprs)
        return b, marks

    def can_call(n):
        return eff(n) in ("cpl" if kind[n] == "a" else "cp")

    blocks = {}
    marks = {}

    def mk(name, items):
        blocks[name], marks[name] = code_block(items)

    def bys():
        return ("bys", "C", I.coderef(1))

    mk("m0", [("mov", None, I.ordinary(0x10)), bys()] + ([("use", "A", I.coderef(0))] if has("lea") else []))
    mk("m1", [("mov", None, I.ordinary(0x11)), bys()] + ([("use", "A", I.cf("call"))] if has("call") else []))
    mk("m2", [("mov", None, I.ordinary(0x12)), bys()] + ([("use", "A", I.cf("jcc"))] if has("jcc") else []))
    mk("m3", [("mov", None, I.ordinary(0x13))] + ([("callc", "C", I.cf("call"))] if can_call("C") else []))
    mk("m4", [("mov", None, I.ordinary(0x14))] + ([("callb", "B", I.cf("call"))] if can_call("B") else []))
    mk(
        "m5",
        [("mov", None, I.ordinary(0x15)), bys()]
        + ([("use", "A", I.cf("jmp"))] if has("jmp") else [("ret", None, I.ret)]),
    )
    if kind["A"] == "l":
        sym["A"].referent = blocks["m3"]
    t = 0x20
    for n in "ABC":
        if kind[n] == "c":
            mk("e" + n, [("mov", None, I.ordinary(t))])
            mk("b" + n, [("mov", None, I.ordinary(t + 1)), ("ret", None, I.ret)])
            sym[n].referent = blocks["e" + n]
        t += 2

    # data
    dd = bytes([0xD0])
    dex = {}
    dmarks = {"mov": 0}
    if has("quad"):
        dmarks["use"] = len(dd)
        dex[(len(dd), 8)] = expr_for("A", "data", None)
        dd += b"\x00" * 8
    for n in "CB":
        dex[(len(dd), 8)] = expr_for(n, "data", None)
        dd += b"\x00" * 8
    dmarks["end"] = len(dd)
    blocks["d0"] = add_data_block(dbi, dd, dex)
    marks["d0"] = dmarks
    for i, n in enumerate("ABC"):
        if kind[n] == "d":
            blocks["d" + n] = add_data_block(dbi, bytes([0xE0 + i]) * 8)
            sym[n].referent = blocks["d" + n]
    w.blocks, w.marks = blocks, marks
    if kind["B"] == "a":
        sym["B"].referent = sym["A"].referent

    # CFG
    cfg = ir.cfg
    B = blocks
    for a, b in (("m0", "m1"), ("m1", "m2"), ("m2", "m3"), ("m3", "m4"), ("m4", "m5")):
        add_edge(cfg, B[a], B[b], ET.Fallthrough)
    callers = {n: [] for n in "ABC"}  # name -> return sites
    if has("call"):
        add_edge(cfg, B["m1"], sym["A"].referent, ET.Call)
        callers["A"].append(B["m2"])
    if has("jcc"):
        add_edge(cfg, B["m2"], sym["A"].referent, ET.Branch, conditional=True)
    if can_call("C"):
        add_edge(cfg, B["m3"], sym["C"].referent, ET.Call)
        callers["C"].append(B["m4"])
    if can_call("B"):
        add_edge(cfg, B["m4"], sym["B"].referent, ET.Call)
        callers["B"].append(B["m5"])
    if has("jmp"):
        add_edge(cfg, B["m5"], sym["A"].referent, ET.Branch)
    else:
        add_edge(cfg, B["m5"], add_proxy_block(m), ET.Return)
    if kind["B"] == "a":
        callers["A"] = callers["A"] + callers["B"]  # a call of the alias is a call of A's function
    for n in "ABC":
        if kind[n] == "c":
            add_edge(cfg, B["e" + n], B["b" + n], ET.Fallthrough)
            if callers[n]:
                for site in callers[n]:
                    add_edge(cfg, B["b" + n], site, ET.Return)
            else:
                add_edge(cfg, B["b" + n], add_proxy_block(m), ET.Return)

    # functions
    add_function(m, "main", B["m0"], {B[k] for k in ("m1", "m2", "m3", "m4", "m5")})
    for n in "ABC":
        if kind[n] == "c":
            add_function(m, sym[n], B["e" + n], {B["b" + n]})

    # CFI (ELF only)
    if fmt == gtirb.Module.FileFormat.ELF:
        p1 = [(".cfi_startproc", [], NULL_UUID)]
        if has("pers"):
            p1.append((".cfi_personality", [0x9B], sym["A"]))
        if has("lsda"):
            p1.append((".cfi_lsda", [0x1B], sym["A"]))
        m.aux_data["cfiDirectives"].data = {
            gtirb.Offset(B["m0"], 0): p1,
            gtirb.Offset(B["m2"], B["m2"].size): [(".cfi_endproc", [], NULL_UUID)],
            gtirb.Offset(B["m3"], 0): [
                (".cfi_startproc", [], NULL_UUID),
                (".cfi_personality", [0x9B], sym["C"]),
                (".cfi_lsda", [0x1B], sym["B"]),
            ],
            gtirb.Offset(B["m5"], B["m5"].size): [(".cfi_endproc", [], NULL_UUID)],
        }
    fwd = {}
    if has("fwdv"):
        fwd[sym["F1"]] = sym["A"]
    if has("fwdk"):
        fwd[sym["A"]] = sym["F2"]
    fwd[sym["F3"]] = sym["C"]
    fwd[sym["F5"]] = sym["B"]
    m.aux_data["symbolForwarding"].data = fwd
    if kind["B"] == "a":
        kind["B"] = kind["A"]  # from here on (prediction) B is what A is
    return w


# ---------------------------------------------------------------- snapshot (by value, UUID free)
def snapshot(m):
    names_of_proxy = {}
    for s in m.symbols:
        if isinstance(s.referent, gtirb.ProxyBlock):
            names_of_proxy.setdefault(s.referent.uuid, []).append(s.name)

    def node(n):
        if n is None:
            return None
        if isinstance(n, gtirb.ProxyBlock):
            nm = names_of_proxy.get(n.uuid)
            return "p:" + "+".join(sorted(nm)) if nm else "p:<anon>"
        if isinstance(n, gtirb.CodeBlock):
            return "b@%x" % n.address
        if isinstance(n, gtirb.DataBlock):
            return "d@%x" % n.address
        if isinstance(n, gtirb.ByteInterval):
            return "i@%x" % n.address
        return repr(type(n))

    snap = {}
    secbytes = {}
    blocks = []
    for sec in sorted(m.sections, key=lambda s: s.name):
        ivs = sorted(sec.byte_intervals, key=lambda b: b.address)
        secbytes[sec.name] = [(bi.address, bytes(bi.contents)) for bi in ivs]
        for bi in ivs:
            for b in bi.blocks:
                blocks.append((sec.name, b.address, b.size, "code" if isinstance(b, gtirb.CodeBlock) else "data"))
    blocks.sort()
    snap["bytes"] = secbytes
    snap["blocks"] = blocks

    exprs = {}
    for bi in m.byte_intervals:
        for off, e in bi.symbolic_expressions.items():
            key = (bi.section.name, bi.address + off)
            attrs = tuple(sorted(a.name for a in e.attributes))
            if isinstance(e, gtirb.SymAddrConst):
                exprs[key] = ("SAC", e.symbol.name, e.offset, attrs)
            else:
                exprs[key] = ("SAA", e.symbol1.name, e.symbol2.name, e.offset, e.scale, attrs)
    snap["exprs"] = exprs

    sizes = {}
    tbl = m.aux_data.get("symbolicExpressionSizes")
    if tbl is not None:
        for off, sz in tbl.data.items():
            el = off.element_id
            base = el.address if hasattr(el, "address") else None
            sizes[(type(el).__name__, None if base is None else base + off.displacement)] = sz
    snap["sizes"] = sizes

    edges = set()
    for e in m.ir.cfg:
        lab = e.label
        edges.add(
            (
                node(e.source),
                node(e.target),
                lab.type.name if lab else None,
                bool(lab.conditional) if lab else None,
                bool(lab.direct) if lab else None,
            )
        )
    snap["edges"] = edges

    cfi = {}
    tbl = m.aux_data.get("cfiDirectives")
    if tbl is not None:
        for off, dirs in tbl.data.items():
            key = (node(off.element_id), off.displacement)
            cfi[key] = [
                (d[0], tuple(d[1]), d[2].name if isinstance(d[2], gtirb.Symbol) else ("uuid:" + str(d[2])))
                for d in dirs
            ]
    snap["cfi"] = cfi

    fwd = {}
    tbl = m.aux_data.get("symbolForwarding")
    if tbl is not None:
        for k, v in tbl.data.items():
            fwd[k.name if isinstance(k, gtirb.Symbol) else str(k)] = v.name if isinstance(v, gtirb.Symbol) else str(v)
    snap["fwd"] = fwd

    snap["symbols"] = {s.name: (node(s.referent), bool(s.at_end)) for s in m.symbols}

    funcs = {}
    fe = m.aux_data["functionEntries"].data
    fb = m.aux_data["functionBlocks"].data
    fn = m.aux_data["functionNames"].data
    for u, s in fn.items():
        funcs[s.name] = (
            sorted(node(b) for b in fe.get(u, ())),
            sorted(node(b) for b in fb.get(u, ())),
        )
    snap["funcs"] = funcs
    return snap


# ---------------------------------------------------------------- prediction from the statement
def classify_expr(abi, snap, key):
    """(role, sub, containing block description) of the expression at key, from the bytes alone."""
    sec, addr = key
    blk = None
    for s, a, size, kind in snap["blocks"]:
        if s == sec and size and a <= addr < a + size:
            blk = (a, kind)
    if blk is None or blk[1] == "data":
        return "data", None, None if blk is None else "d@%x" % blk[0]
    for base, data in snap["bytes"][sec]:
        if base <= addr < base + len(data):
            role, sub = isa_of(abi).classify(data, addr - base)
            return role, sub, "b@%x" % blk[0]
    return None, None, None


def predict(case, before, kind):
    """Expected snapshot parts after the retarget, or ("refuse", why)."""
    abi, pie = case["abi"], case["pie"]
    R = dict(RSETS[case["rset"]])
    internal = {n: kind[n] != "p" for n in "ABC"}
    ref = {n: before["symbols"][n][0] for n in "ABC"}

    exp = {}
    info = {"changed_exprs": 0, "cf_sites": [], "call_sites": [], "roles": {}}
    exprs = {}
    for key, e in before["exprs"].items():
        if e[0] == "SAC" and e[1] in R:
            old, new = e[1], R[e[1]]
            role, sub, blk = classify_expr(abi, before, key)
            if role is None:
                raise AssertionError("harness: cannot classify expression at %r" % (key,))
            info["roles"][key] = (role, sub, old)
            if role == "cf":
                if kind[new] == "d":
                    return ("refuse", "control flow into data"), info
                info["cf_sites"].append((blk, sub, old, new))
            attrs = ref_convert(abi, pie, role, e[3], internal[old], internal[new])
            exprs[key] = ("SAC", new, e[2], attrs)
            info["changed_exprs"] += 1
        else:
            exprs[key] = e
    exp["exprs"] = exprs

    cfi = {}
    n_cfi = 0
    for key, dirs in before["cfi"].items():
        out = []
        for d in dirs:
            if d[2] in R:
                out.append((d[0], d[1], R[d[2]]))
                n_cfi += 1
            else:
                out.append(d)
        cfi[key] = out
    exp["cfi"] = cfi
    info["changed_cfi"] = n_cfi

    fwd = {}
    n_fwd = 0
    for k, v in before["fwd"].items():
        if v in R:
            fwd[k] = R[v]
            n_fwd += 1
        else:
            fwd[k] = v
    exp["fwd"] = fwd
    info["changed_fwd"] = n_fwd

    # edges other than Return: exactly the operand edges of the retargeted instructions move
    moved = {}  # new edge -> old edge
    edges = set(before["edges"])
    for blk, which, old, new in info["cf_sites"]:
        ty = "Call" if which == "call" else "Branch"
        for e in sorted(before["edges"], key=repr):
            if e[0] == blk and e[1] == ref[old] and e[2] == ty:
                ne = (e[0], ref[new]) + e[2:]
                edges.discard(e)
                edges.add(ne)
                moved[ne] = e
                if ty == "Call":
                    info["call_sites"].append((blk, old, new))
    exp["edges_nonret"] = {e for e in edges if e[2] != "Return"}
    exp["moved"] = moved

    # return edges
    entry_func = {}
    for fname, (entries, blocks) in before["funcs"].items():
        for en in entries:
            entry_func[en] = fname
    ret_before = {(e[0], e[1]) for e in before["edges"] if e[2] == "Return"}
    returning = {}
    for fname, (entries, blocks) in before["funcs"].items():
        returning[fname] = sorted(b for b in blocks if any(s == b for s, _ in ret_before))
    add, remove = set(), set()
    for blk, old, new in info["call_sites"]:
        fts = sorted(e[1] for e in before["edges"] if e[0] == blk and e[2] == "Fallthrough")
        fo = entry_func.get(ref[old])
        fnw = entry_func.get(ref[new])
        for ft in fts:
            if fo:
                remove.update((rb, ft) for rb in returning[fo])
            if fnw:
                add.update((rb, ft) for rb in returning[fnw])
    # another call with the same return site into the old callee remains -> edge stays
    for e in exp["edges_nonret"]:
        if e[2] == "Call" and e[1] in entry_func:
            f = entry_func[e[1]]
            for x in before["edges"]:
                if x[0] == e[0] and x[2] == "Fallthrough":
                    remove.difference_update({(rb, x[1]) for rb in returning[f]})
    remove -= add
    exp["ret_add"], exp["ret_remove"] = add, remove
    exp["ret_before"] = ret_before
    return exp, info


def is_proxy(desc):
    return desc is not None and desc.startswith("p:")


def compare(case, before, after, exp, info):
    diffs = []
    R = dict(RSETS[case["rset"]])

    # ---- expressions
    be, ae, xe = before["exprs"], after["exprs"], exp["exprs"]
    for key in sorted(set(ae) | set(xe)):
        got, want = ae.get(key), xe.get(key)
        if got == want:
            continue
        role, sub, old = info["roles"].get(key, (None, None, None))
        usek = sub if role == "cf" else ("code-" + sub if sub in ("page", "lo12") else role)
        if got is None or want is None:
            diffs.append(D("expr-set-changed", key=list(key), got=got, expected=want))
        elif key in info["roles"]:
            if got[1] == old and want[1] != old:
                diffs.append(D("expr-not-retargeted", r_use=usek, key=list(key), got=got, expected=want))
            elif got[1] != want[1]:
                diffs.append(D("expr-wrong-symbol", r_use=usek, key=list(key), got=got, expected=want))
            elif got[2] != want[2]:
                diffs.append(D("expr-addend-changed", r_use=usek, key=list(key), got=got, expected=want))
            else:
                diffs.append(
                    D(
                        "expr-attributes-wrong",
                        r_use=usek,
                        r_conv="%s->%s" % ("int" if case["kinds"]["ABC".index(old)] != "p" else "ext",
                                           "int" if case["kinds"]["ABC".index(want[1])] != "p" else "ext"),
                        key=list(key),
                        had=be.get(key),
                        got=got,
                        expected=want,
                    )
                )
        else:
            diffs.append(D("expr-bystander-changed", key=list(key), got=got, expected=want))

    # ---- CFI
    for key in sorted(set(after["cfi"]) | set(exp["cfi"]), key=repr):
        got, want = after["cfi"].get(key), exp["cfi"].get(key)
        if got == want:
            continue
        if got is None or want is None or len(got) != len(want):
            diffs.append(D("cfi-table-changed", key=list(key), got=got, expected=want))
            continue
        for g, x, b in zip(got, want, before["cfi"].get(key, [None] * len(got))):
            if g == x:
                continue
            if b is not None and b[2] in R and g == b:
                diffs.append(D("cfi-not-retargeted", r_directive=b[0], got=g, expected=x))
            elif b is not None and b[2] in R:
                diffs.append(D("cfi-retargeted-wrongly", r_directive=b[0], got=g, expected=x))
            else:
                diffs.append(D("cfi-bystander-changed", r_directive=x[0], got=g, expected=x))

    # ---- symbolForwarding
    for k in sorted(set(after["fwd"]) | set(exp["fwd"])):
        got, want, had = after["fwd"].get(k), exp["fwd"].get(k), before["fwd"].get(k)
        if got == want:
            continue
        if had in R and got == had:
            diffs.append(D("fwd-target-not-retargeted", key=k, got=got, expected=want))
        elif had in R:
            diffs.append(D("fwd-target-retargeted-wrongly", key=k, got=got, expected=want))
        elif got is None or want is None:
            diffs.append(D("fwd-key-changed", key=k, got=got, expected=want))
        else:
            diffs.append(D("fwd-bystander-changed", key=k, got=got, expected=want))

    # ---- edges (everything except Return)
    got_nr = {e for e in after["edges"] if e[2] != "Return"}
    want_nr = exp["edges_nonret"]
    moved = exp["moved"]
    handled = set()
    for ne in sorted(want_nr - got_nr, key=repr):
        if ne in moved:
            old = moved[ne]
            if old in got_nr:
                handled.add(old)
                diffs.append(D("operand-edge-not-moved", r_type=ne[2], got=list(old), expected=list(ne)))
            else:
                diffs.append(D("operand-edge-lost", r_type=ne[2], expected=list(ne)))
        else:
            diffs.append(D("edge-missing", r_type=ne[2], expected=list(ne)))
    for e in sorted(got_nr - want_nr, key=repr):
        if e not in handled:
            diffs.append(D("edge-unexpected", r_type=e[2], got=list(e)))

    # ---- Return edges
    ret_after = {(e[0], e[1]) for e in after["edges"] if e[2] == "Return"}
    ret_before = exp["ret_before"]
    add, remove = exp["ret_add"], exp["ret_remove"]
    lenient_src = {s for s, _ in add | remove}
    for s, t in sorted(add - ret_after):
        diffs.append(D("retarget-return-edges-not-updated", r_side="new-callee-missing-return", src=s, site=t))
    for s, t in sorted(remove & ret_after):
        diffs.append(D("retarget-return-edges-not-updated", r_side="old-callee-stale-return", src=s, site=t))
    want_ret = (ret_before - remove) | add
    for s, t in sorted((want_ret - ret_after) - add):
        if is_proxy(t) and s in lenient_src:
            continue
        diffs.append(D("edge-missing", r_type="Return", expected=[s, t]))
    for s, t in sorted((ret_after - want_ret) - remove):
        if is_proxy(t) and s in lenient_src:
            continue
        diffs.append(D("edge-unexpected", r_type="Return", got=[s, t]))
    # Return edge labels other than the (source, target) pair must be as before
    for e in sorted(after["edges"], key=repr):
        if e[2] == "Return" and e[3:] != (False, True) and e not in before["edges"]:
            diffs.append(D("edge-unexpected", r_type="Return", got=list(e)))

    # ---- things a retarget never touches
    for part, kindname in (
        ("bytes", "bytes-changed"),
        ("blocks", "block-layout-changed"),
        ("sizes", "expr-size-table-changed"),
        ("symbols", "symbol-changed"),
        ("funcs", "function-table-changed"),
    ):
        if before[part] != after[part]:
            if part == "symbols":
                # proxies created for lenient Return edges carry no symbol, so the table must be identical
                ch = sorted(k for k in set(before[part]) | set(after[part]) if before[part].get(k) != after[part].get(k))
                diffs.append(D(kindname, names=ch[:6], got=[after[part].get(k) for k in ch[:6]]))
            else:
                diffs.append(D(kindname))
    return diffs


# ---------------------------------------------------------------- running one case
MOD_PLACES = {"lea": "m0", "call": "m1", "jcc": "m2", "jmp": "m5", "quad": "d0"}


def mods_for(place):
    if place == "quad":
        return ["ins0", "insu", "insa", "delm"]
    ops = ["ins0", "insu", "delm", "delb"]
    if place in ("lea", "call"):
        ops.append("insa")
    return ops


# "delA": delete the whole block the retargeted symbol A refers to (its label slides to the next block)
ALL_MODS = [(op, pl) for pl in BYTE_USES for op in mods_for(pl)] + [("inscall", "m0"), ("delA", "eA")]


def _ordinary_patch(I):
    @gtirb_rewriting.patch_constraints()
    def p(ctx):
        return I.patch_ordinary

    return Patch.from_function(p)


def _call_patch(I):
    @gtirb_rewriting.patch_constraints()
    def p(ctx):
        return I.patch_call

    return Patch.from_function(p)


def register_mod(ctx, w, mod):
    op, place = mod
    I = isa_of(w.case["abi"])
    if op == "inscall":
        blk, mk = w.blocks["m0"], w.marks["m0"]
        ctx.insert_at(blk, mk["bys"], _call_patch(I))
        return
    if op == "delA":
        blk = w.blocks["eA"]
        ctx.delete_at(blk, 0, blk.size)
        return
    bname = MOD_PLACES[place]
    blk, mk = w.blocks[bname], w.marks[bname]
    data = isinstance(blk, gtirb.DataBlock)
    use = mk["use"]
    nxt = min(v for v in mk.values() if v > use)
    if op == "ins0":
        off = 0
    elif op == "insu":
        off = use
    elif op == "insa":
        off = nxt
    if op.startswith("ins"):
        if data:
            ctx.insert_at(blk, off, b"\x55")
        else:
            ctx.insert_at(blk, off, _ordinary_patch(I))
    elif op == "delm":
        ctx.delete_at(blk, 0, 1 if data else mk["bys"])
    elif op == "delb":
        ctx.delete_at(blk, mk["bys"], use - mk["bys"])


def mod_applicable(case):
    """case["mod"] is a list of (op, place) pairs, at most one per place."""
    for op, place in case.get("mod") or ():
        if op == "inscall":
            if case["kinds"][0] == "d":
                return False
        elif op == "delA":
            if case["kinds"][0] != "c":
                return False
        elif not case["uses"] & UBIT[place]:
            return False
    return True


def run_case(case, baseline_cache=None):
    """Returns (diffs, outcome string, nontrivial)."""
    mod = case.get("mod")
    R = RSETS[case["rset"]]
    w = build(case)
    kind = w.kind
    if mod:
        ck = None
        if baseline_cache is not None:
            ck = (case["abi"], case["pie"], case["kinds"], case["uses"], case.get("style", 0), repr(mod))
            before = baseline_cache.get(ck)
        else:
            before = None
        if before is None:
            wb = build(case)
            cb = RewritingContext(wb.m, gtirb_functions.Function.build_functions(wb.m))
            for one in mod:
                register_mod(cb, wb, one)
            cb.apply()
            before = snapshot(wb.m)
            if ck is not None:
                baseline_cache.clear()  # cases of one configuration are adjacent
                baseline_cache[ck] = before
    else:
        before = snapshot(w.m)

    exp, info = predict(case, before, kind)
    ctx = RewritingContext(w.m, gtirb_functions.Function.build_functions(w.m))
    for one in mod or ():
        register_mod(ctx, w, one)
    try:
        for o, n in R:
            ctx.retarget_symbol_uses(w.sym[o], w.sym[n])
    except Exception as ex:
        return [D("valid-request-refused", r_exc=type(ex).__name__, r_phase="register", msg=str(ex)[:120])], "error", True
    err = None
    try:
        ctx.apply()
    except Exception as ex:  # noqa
        err = ex
    if isinstance(exp, tuple):
        if err is None:
            return [D("invalid-request-accepted", r_request="control-flow-into-data")], "refuse-missed", True
        if not isinstance(err, (ValueError, gtirb_rewriting.AmbiguousIRError)):
            return (
                [D("invalid-request-wrong-error", r_request="control-flow-into-data", r_exc=type(err).__name__, msg=str(err)[:120])],
                "refuse-wrong-error",
                True,
            )
        return [], "refused:" + type(err).__name__, True
    if err is not None:
        return (
            [D("valid-request-refused", r_exc=type(err).__name__, r_phase="apply", msg=str(err)[:160])],
            "error:" + type(err).__name__,
            True,
        )
    after = snapshot(w.m)
    diffs = compare(case, before, after, exp, info)
    nch = info["changed_exprs"] + info["changed_cfi"] + info["changed_fwd"]
    outcome = "ok:exprs=%d,cfi=%d,fwd=%d,cf=%d,calls=%d,ret+%d-%d" % (
        info["changed_exprs"],
        info["changed_cfi"],
        info["changed_fwd"],
        len(info["cf_sites"]),
        len(info["call_sites"]),
        len(exp["ret_add"]),
        len(exp["ret_remove"]),
    )
    return diffs, outcome, nch > 0


# ---------------------------------------------------------------- invalid requests
INVALID = (
    "foreign-old",
    "foreign-new",
    "detached-old",
    "detached-new",
    "new-no-referent",
    "twice-same",
    "twice-other",
    "twice-after-chain",
)


def run_invalid(case):
    """A refused request raises ValueError and leaves no trace: apply() afterwards performs exactly the
    accepted requests."""
    req = case["invalid"]
    base = {"abi": case["abi"], "pie": case["pie"], "kinds": case["kinds"], "uses": case["uses"], "style": 0}
    w = build(base)
    m = w.m
    ctx = RewritingContext(m, gtirb_functions.Function.build_functions(m))
    A, B, C = (w.sym[n] for n in "ABC")
    accepted = "none"
    if req in ("foreign-old", "foreign-new"):
        ir2, m2 = create_test_module(m.file_format, m.isa)
        other = add_symbol(m2, "X", add_proxy_block(m2))
        pair = (other, B) if req == "foreign-old" else (A, other)
    elif req in ("detached-old", "detached-new"):
        other = gtirb.Symbol("X", payload=gtirb.ProxyBlock())
        pair = (other, B) if req == "detached-old" else (A, other)
    elif req == "new-no-referent":
        other = add_symbol(m, "X")
        pair = (A, other)
    elif req == "twice-same":
        ctx.retarget_symbol_uses(A, B)
        accepted = "ab"
        pair = (A, B)
    elif req == "twice-other":
        ctx.retarget_symbol_uses(A, B)
        accepted = "ab"
        pair = (A, C)
    elif req == "twice-after-chain":
        ctx.retarget_symbol_uses(A, B)
        ctx.retarget_symbol_uses(B, C)
        accepted = "chain"
        pair = (A, C)
    diffs = []
    if pair:
        try:
            ctx.retarget_symbol_uses(*pair)
            diffs.append(D("invalid-request-accepted", r_request=req))
        except ValueError:
            pass
        except gtirb_rewriting.AmbiguousIRError:
            pass
        except Exception as ex:
            diffs.append(D("invalid-request-wrong-error", r_request=req, r_exc=type(ex).__name__, msg=str(ex)[:120]))
        if diffs:
            return diffs, "invalid-accepted"
        # the refusal must not have recorded anything
        before = snapshot(m)
        try:
            ctx.apply()
        except Exception as ex:
            if accepted != "none":
                c2 = dict(base, rset=accepted)
                exp, info = predict(c2, before, w.kind)
                if isinstance(exp, tuple):
                    return [], "refused-then-refused-at-apply"
            return [D("apply-after-refusal-failed", r_request=req, r_exc=type(ex).__name__, msg=str(ex)[:120])], "error"
        after = snapshot(m)
        if accepted == "none":
            same = all(before[k] == after[k] for k in before)
            if not same:
                ch = [k for k in before if before[k] != after[k]]
                diffs.append(D("refused-request-had-effect", r_request=req, parts=ch))
            return diffs, "refused:clean"
        c2 = dict(base, rset=accepted)
        exp, info = predict(c2, before, w.kind)
        if isinstance(exp, tuple):
            return [D("invalid-request-accepted", r_request="control-flow-into-data")], "refuse-missed"
        d2 = compare(c2, before, after, exp, info)
        for d in d2:
            d["after_refused_request"] = req
        return d2, "refused:first-request-applied"


# ---------------------------------------------------------------- enumeration
def subsets_for(kinds, allowed_mask, pred=None):
    out = []
    for u in range(512):
        if u & ~allowed_mask:
            continue
        if kinds[0] == "d" and (u & CF_USES):
            continue
        if pred and not pred(u):
            continue
        out.append(u)
    return out


def popcount(x):
    return bin(x).count("1")


ALL_KINDS = ["".join(k) for k in itertools.product("cdp", repeat=3)]
LABEL_KINDS = ["l" + "".join(k) for k in itertools.product("cdp", repeat=2)]
ALIAS_KINDS = [a + "a" + c for a in "cdpl" for c in "cp"]  # B is a second name for what A refers to


def tasks(tier):
    t = []
    for kinds in ALL_KINDS + LABEL_KINDS + ALIAS_KINDS:
        label = kinds[0] == "l"
        for pie in (0, 1):
            t.append({"g": "x64-elf", "abi": "x64-elf", "pie": pie, "kinds": kinds, "part": "subsets"})
            t.append({"g": "x64-elf-mods", "abi": "x64-elf", "pie": pie, "kinds": kinds, "part": "mods"})
            if tier == "thorough" or not label:
                t.append({"g": "arm64-elf", "abi": "arm64-elf", "pie": pie, "kinds": kinds, "part": "subsets"})
        if tier == "thorough" or not label:
            t.append({"g": "x64-pe", "abi": "x64-pe", "pie": 0, "kinds": kinds, "part": "subsets"})
        if tier == "thorough":
            t.append({"g": "x64-pe-mods", "abi": "x64-pe", "pie": 0, "kinds": kinds, "part": "mods"})
            t.append({"g": "x64-elf-mods2", "abi": "x64-elf", "pie": 1, "kinds": kinds, "part": "mods2"})
    # interleave the groups (a time cap then thins all of them evenly) and put the tiny invalid-request task first
    by_group = {}
    for x in t:
        by_group.setdefault(x["g"], []).append(x)
    order = [{"g": "invalid", "part": "invalid"}]
    # process histories: every sequence of module kinds rewritten one after the other in one fresh interpreter
    for first in range(len(HIST_KINDS)):
        order.append({"g": "process-history", "part": "history", "first": first})
    for row in itertools.zip_longest(*by_group.values()):
        order.extend(x for x in row if x is not None)
    for x in order:
        x["tier"] = tier
    return order


def task_group(task):
    return task["g"]


HIST_KINDS = (("x64-elf", 0), ("x64-elf", 1), ("arm64-elf", 0), ("arm64-elf", 1), ("x64-pe", 0))

HIST_RUNNER = r"""
import sys, json
sys.path.insert(0, %(root)r)
from vf.props import c18
print(json.dumps(c18.run_history_inproc(json.loads(%(hist)r))))
"""


def hist_step_cases(abi, pie):
    allowed = 511 if abi != "x64-pe" else (511 & ~CFI_MASK)
    for kinds in ("cpc", "pcc"):  # internal -> external and external -> internal, every use place present
        yield {"abi": abi, "pie": pie, "kinds": kinds, "uses": allowed, "style": 0, "rset": "ab"}


def run_history_inproc(hist):
    """in this interpreter: rewrite one module kind after the other; the discrepancies of every step"""
    out = []
    for step, (abi, pie) in enumerate(hist):
        for case in hist_step_cases(abi, pie):
            diffs, outcome, _ = run_case(case)
            for d in diffs:
                d["r_step"] = step
                d["r_module"] = "%s/%s" % (abi, "pie" if pie else "nopie")
            out.append([diffs, outcome])
    return out


def run_history(hist):
    """fresh interpreter per history, so that nothing an earlier case left in the process (a cache on a shared ABI
    object, a module-level table) is inherited: the history *is* the state"""
    import json
    import os
    import subprocess
    import sys

    root = os.path.dirname(os.path.dirname(os.path.dirname(os.path.abspath(__file__))))
    code = HIST_RUNNER % {"root": root, "hist": json.dumps(hist)}
    p = subprocess.run([sys.executable, "-c", code], capture_output=True, text=True, env=dict(os.environ), timeout=600)
    if p.returncode != 0:
        raise RuntimeError("history sub-process failed: " + p.stderr[-400:])
    rows = json.loads(p.stdout.strip().splitlines()[-1])
    diffs = [d for r in rows for d in r[0]]
    return diffs, "history:" + "|".join(sorted({r[1].split(":")[0] for r in rows}))


def cases_of(task):
    tier = task["tier"]
    part = task["part"]
    if part == "history":
        depth = 3 if tier == "thorough" else 2
        for n in range(2, depth + 1):
            for rest in itertools.product(range(len(HIST_KINDS)), repeat=n - 1):
                yield {"history": [list(HIST_KINDS[i]) for i in (task["first"],) + rest]}
        return
    if part == "invalid":
        selfcheck_tables()
        for kinds in ALL_KINDS:
            if kinds[2] != "p":
                continue
            for abi, pie in (("x64-elf", 1), ("x64-elf", 0)):
                for req in INVALID:
                    uses = 511 if kinds[0] != "d" else (511 & ~CF_USES)
                    yield {"invalid": req, "abi": abi, "pie": pie, "kinds": kinds, "uses": uses}
        return
    abi, pie, kinds = task["abi"], task["pie"], task["kinds"]
    allowed = 511 if abi != "x64-pe" else (511 & ~CFI_MASK)
    full = allowed if kinds[0] != "d" else allowed & ~CF_USES

    def small(u):
        return popcount(u) <= 2 or u == full

    def blockwise(u):
        # every subset of the byte-level uses, table uses all on or all off
        return (u & TABLE_MASK) in (0, full & TABLE_MASK)

    if part == "subsets":
        # plans: (style, rsets, subset predicate)
        if tier == "thorough":
            plans = [(0, tuple(RSETS), None), (1, tuple(RSETS), None)]
        elif abi == "x64-elf" and kinds[0] == "l":
            plans = [(0, tuple(RSETS), blockwise), (1, ("ab",), small)]
        elif abi == "x64-elf":
            plans = [(0, ("ab",), None), (0, ("ab_cb", "chain", "chain_r", "cb_ab"), blockwise), (1, ("ab",), small)]
        elif abi == "arm64-elf":
            plans = [(0, tuple(RSETS), small), (1, ("ab",), small)]
        else:
            plans = [(0, ("ab",), None), (0, ("ab_cb", "chain", "chain_r", "cb_ab"), blockwise)]
        for style, rsets, pred in plans:
            for uses in subsets_for(kinds, allowed, pred):
                for rset in rsets:
                    yield {"abi": abi, "pie": pie, "kinds": kinds, "uses": uses, "style": style, "rset": rset}
        return
    # part == "mods": one modification next to a use (or, part == "mods2", two at different places)
    byte_bits = [UBIT[u] for u in BYTE_USES]
    if part == "mods2":
        modsets = [
            [list(a), list(b)]
            for a, b in itertools.combinations(ALL_MODS, 2)
            if a[1] != b[1] and "inscall" not in (a[0], b[0]) and "delA" not in (a[0], b[0])
        ]
    else:
        modsets = [[list(m)] for m in ALL_MODS]
    for mods in modsets:
        if tier == "thorough" and abi == "x64-elf" and part == "mods":
            byte_sets = [sum(c) for r in range(6) for c in itertools.combinations(byte_bits, r)]
            table_sets = [allowed & TABLE_MASK, 0]
        else:
            byte_sets = [0, sum(byte_bits)]
            table_sets = [allowed & TABLE_MASK]
        seen = set()
        for bs in byte_sets:
            for ts in table_sets:
                uses = bs | ts
                for op, place in mods:
                    if op not in ("inscall", "delA"):
                        uses |= UBIT[place]
                    if op == "delA":
                        uses |= sum(byte_bits)  # every code/data use of A present
                if kinds[0] == "d":
                    uses &= ~CF_USES
                if uses in seen:
                    continue
                seen.add(uses)
                c = {"abi": abi, "pie": pie, "kinds": kinds, "uses": uses, "style": 0, "mod": mods}
                if not mod_applicable(c):
                    continue
                for rset in RSETS:
                    yield dict(c, rset=rset)


F11_KIND = "retarget-return-edges-not-updated"
F11_LIST_CAP = 12


def run_task(task):
    res = TaskResult()
    cache = {}
    f11_listed = 0
    for case in cases_of(task):
        if "invalid" in case:
            diffs, outcome = run_invalid(case)
            nontrivial = True
        elif "history" in case:
            diffs, outcome = run_history(case["history"])
            nontrivial = True
        else:
            diffs, outcome, nontrivial = run_case(case, cache)
        key = sorted(case.items(), key=lambda kv: kv[0])
        res.case(key, nontrivial=nontrivial, outcome=outcome)
        if res.evaluations % 97 == 1:
            res.sample(case)
        if diffs:
            only_f11 = all(d["kind"] == F11_KIND for d in diffs)
            if only_f11:
                res.extra["cases_with_only_return_edge_discrepancy"] += 1
                if f11_listed >= F11_LIST_CAP:
                    # counted, not listed (the runner keeps at most 400 listed cases per task)
                    for d in diffs:
                        res.extra["diff:" + d["kind"]] += 1
                    continue
                f11_listed += 1
            res.bad(case, diffs)
    return res


def replay(case):
    if "invalid" in case:
        return run_invalid(case)[0]
    if "history" in case:
        return run_history(case["history"])[0]
    return run_case(case)[0]
