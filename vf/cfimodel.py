"""
Reference CFI interpreter (the C15 oracle).

Written from
  * DWARF v4/v5 section 6.4 "Call Frame Information" (6.4.1 structure of the
    table: one CFA rule + one rule per register per row; 6.4.2 call frame
    instructions; 6.4.3 usage: the CIE's initial_instructions produce the
    *initial row*, DW_CFA_restore goes back to that row, DW_CFA_remember_state
    / DW_CFA_restore_state use an implicit stack of rows),
  * the GAS manual, "CFI directives" (what each `.cfi_*` directive emits and
    which are procedure-wide: personality, lsda, return_column),
  * the psABI DWARF register numbering for the return address column
    (x86-64: 16 = RIP; AArch64: 30 = x30/LR; MIPS o32: 31 = $ra) - these are
    the columns `llvm-mc` and `gas` put into the CIE of an empty procedure.

It deliberately knows nothing about gtirb or gtirb_rewriting: directives come
in as (name, [ints], symbol-or-None) and states go out as plain tuples.

Conventions taken from the property statement / the library's documentation
rather than from DWARF (DWARF has no notion of "directive location"):
  * directives are grouped into *locations* (block, offset); the state is
    observed once per location that has directives, after the last directive
    of the location;
  * GTIRB does not record which instructions belong to the CIE, so everything
    at the location of `.cfi_startproc` is the CIE-like prefix: the initial
    row is the current row as of the end of that location.  While the prefix
    is still open, the initial row that DW_CFA_restore refers to is the empty
    row (no register has been assigned a rule by a *completed* CIE yet);
  * `.cfi_rel_offset r, n` (GAS only, no DWARF instruction): the library
    documents it as "r must already have an offset(N) rule; the new rule is
    offset(N + n)".  GAS itself defines it relative to the CFA *register*
    (offset(n - cfa_offset)).  The reference follows the library here.

Rules (plain tuples):
  register rules: ("undefined",) ("same_value",) ("offset", N) ("val_offset", N)
                  ("register", R) ("expression", E) ("val_expression", E)
                  and *no entry* = the architecture default (unspecified)
  CFA rule:       None (not yet defined) | ("reg_offset", R, N) | ("expression", E)
  E:              tuple of decoded DWARF operations (opcode, operand...)
"""

ABIS = {
    # name: gtirb ISA / file format names, DWARF return address column, byte order, pointer size
    "X64-ELF": {"isa": "X64", "format": "ELF", "byte_order": "little", "return_column": 16, "byteorder": "little", "ptr": 8},
    "ARM64-ELF": {"isa": "ARM64", "format": "ELF", "byte_order": "little", "return_column": 30, "byteorder": "little", "ptr": 8},
    "MIPS32-ELF": {"isa": "MIPS32", "format": "ELF", "byte_order": "big", "return_column": 31, "byteorder": "big", "ptr": 4},
}

DW_EH_PE_omit = 0xFF


class IllFormed(Exception):
    """The directive sequence is not a well-formed CFI program."""

    def __init__(self, why):
        Exception.__init__(self, why)
        self.why = why


class OutsideAlphabet(Exception):
    """The reference was handed something it does not model (harness bug)."""


# ------------------------------------------------------------------ byte-level decoding
def _uleb(buf, i):
    val = 0
    shift = 0
    while True:
        if i >= len(buf):
            raise IllFormed("truncated-escape")
        b = buf[i]
        i += 1
        val |= (b & 0x7F) << shift
        shift += 7
        if not b & 0x80:
            return val, i


def _sleb(buf, i):
    val = 0
    shift = 0
    while True:
        if i >= len(buf):
            raise IllFormed("truncated-escape")
        b = buf[i]
        i += 1
        val |= (b & 0x7F) << shift
        shift += 7
        if not b & 0x80:
            if b & 0x40:
                val -= 1 << shift
            return val, i


def _fixed(buf, i, n, byteorder):
    if i + n > len(buf):
        raise IllFormed("truncated-escape")
    return int.from_bytes(bytes(buf[i : i + n]), byteorder), i + n


def decode_expression(block, byteorder, ptr):
    """DWARF expression bytes -> tuple of (opcode, operands...).  Only the
    handful of operations used by the C15 alphabet (DWARF v4 section 7.7.1)."""
    ops = []
    i = 0
    while i < len(block):
        op = block[i]
        i += 1
        if op == 0x03:  # DW_OP_addr: one target address
            v, i = _fixed(block, i, ptr, byteorder)
            ops.append((op, v))
        elif op == 0x06:  # DW_OP_deref
            ops.append((op,))
        elif op == 0x08:  # DW_OP_const1u
            v, i = _fixed(block, i, 1, byteorder)
            ops.append((op, v))
        elif op == 0x0A:  # DW_OP_const2u
            v, i = _fixed(block, i, 2, byteorder)
            ops.append((op, v))
        elif op == 0x22:  # DW_OP_plus
            ops.append((op,))
        elif op == 0x23:  # DW_OP_plus_uconst
            v, i = _uleb(block, i)
            ops.append((op, v))
        elif 0x70 <= op <= 0x8F:  # DW_OP_breg0..31: SLEB128 offset
            v, i = _sleb(block, i)
            ops.append(("OpBReg", op - 0x70, v))
        elif op == 0x92:  # DW_OP_bregx: ULEB128 register, SLEB128 offset
            r, i = _uleb(block, i)
            v, i = _sleb(block, i)
            ops.append((op, r, v))
        else:
            raise OutsideAlphabet("expression opcode 0x%x" % op)
    return tuple(ops)


def decode_escape(data, byteorder, ptr):
    """`.cfi_escape` bytes -> list of call frame instructions
    ("nop",) | ("def_cfa_expression", E) | ("expression", R, E) | ("val_expression", R, E)."""
    out = []
    i = 0
    while i < len(data):
        opc = data[i]
        i += 1
        if opc == 0x00:  # DW_CFA_nop
            out.append(("nop",))
        elif opc == 0x0F:  # DW_CFA_def_cfa_expression  BLOCK
            n, i = _uleb(data, i)
            if i + n > len(data):
                raise IllFormed("truncated-escape")
            out.append(("def_cfa_expression", decode_expression(data[i : i + n], byteorder, ptr)))
            i += n
        elif opc in (0x10, 0x16):  # DW_CFA_expression / DW_CFA_val_expression  ULEB reg, BLOCK
            r, i = _uleb(data, i)
            n, i = _uleb(data, i)
            if i + n > len(data):
                raise IllFormed("truncated-escape")
            out.append(("expression" if opc == 0x10 else "val_expression", r, decode_expression(data[i : i + n], byteorder, ptr)))
            i += n
        else:
            raise OutsideAlphabet("escaped call frame instruction 0x%x" % opc)
    return out


# ------------------------------------------------------------------ the machine
EMPTY_ROW = (None, ())


def _row(cfa, regs):
    return (cfa, tuple(sorted(regs.items())))


class Machine:
    """State of the evaluation between two events."""

    def __init__(self, abi):
        self.abi = abi
        self.cfg = ABIS[abi]
        self.in_proc = False
        self._reset_procedure()
        # what the previous procedure looked like when it was closed.  Not part of the DWARF state - the rules say
        # it is forgotten - but part of canon(): an implementation that lets it leak into the next procedure behaves
        # differently after different first procedures, so histories that differ only there are not merged.
        self.ghost = None
        self.loc_has_directives = False
        self.block_has_earlier_directives = False  # at a smaller offset of the current block

    def _reset_procedure(self):
        self.cie_open = False  # still at the location of .cfi_startproc
        self.cfa = None
        self.regs = {}
        self.stack = []  # immutable rows (cfa, sorted (register, rule) pairs)
        self.initial = EMPTY_ROW  # row fixed when the CIE-like prefix closes
        self.personality = None  # (encoding, symbol)
        self.lsda = None
        self.return_column = None  # None = the ABI default

    def clone(self):
        c = Machine.__new__(Machine)
        c.__dict__.update(self.__dict__)
        c.regs = dict(self.regs)
        c.stack = list(self.stack)
        return c

    # -- events -----------------------------------------------------------
    def next_location(self, new_block):
        """Leave the current (block, offset) for the next offset / the next block."""
        if new_block:
            self.block_has_earlier_directives = False
        elif self.loc_has_directives:
            self.block_has_earlier_directives = True
        if self.in_proc and self.cie_open:
            self.initial = _row(self.cfa, self.regs)
        self.cie_open = False
        self.loc_has_directives = False

    def directive(self, name, args, sym):
        """Apply one directive.  `sym` is the referenced symbol (any hashable
        token) or None when the directive carries no (resolvable) symbol."""
        self.loc_has_directives = True
        if name == ".cfi_startproc":
            if self.in_proc:
                raise IllFormed("nested-startproc")
            self.in_proc = True
            self._reset_procedure()
            self.cie_open = True
            return
        if not self.in_proc:
            raise IllFormed("outside-procedure")
        if name == ".cfi_endproc":
            self.in_proc = False
            self.ghost = (_row(self.cfa, self.regs), self.initial, tuple(self.stack), self.personality, self.lsda, self.return_column)
            self._reset_procedure()
        # ---- procedure-wide (CIE augmentation / FDE) data
        elif name in (".cfi_personality", ".cfi_lsda"):
            (enc,) = args
            if enc == DW_EH_PE_omit:
                val = None
            elif sym is None:
                raise IllFormed("missing-symbol")
            else:
                val = (enc, sym)
            if name == ".cfi_personality":
                self.personality = val
            else:
                self.lsda = val
        elif name == ".cfi_return_column":
            (self.return_column,) = args
        # ---- CFA definition instructions (6.4.2.2)
        elif name == ".cfi_def_cfa":
            r, n = args
            self.cfa = ("reg_offset", r, n)
        elif name == ".cfi_def_cfa_register":
            (r,) = args
            self._need_reg_offset_cfa()
            self.cfa = ("reg_offset", r, self.cfa[2])
        elif name == ".cfi_def_cfa_offset":
            (n,) = args
            self._need_reg_offset_cfa()
            self.cfa = ("reg_offset", self.cfa[1], n)
        elif name == ".cfi_adjust_cfa_offset":
            (n,) = args
            self._need_reg_offset_cfa()
            self.cfa = ("reg_offset", self.cfa[1], self.cfa[2] + n)
        # ---- register rule instructions (6.4.2.3)
        elif name == ".cfi_undefined":
            self.regs[args[0]] = ("undefined",)
        elif name == ".cfi_same_value":
            self.regs[args[0]] = ("same_value",)
        elif name == ".cfi_offset":
            self.regs[args[0]] = ("offset", args[1])
        elif name == ".cfi_val_offset":
            self.regs[args[0]] = ("val_offset", args[1])
        elif name == ".cfi_register":
            self.regs[args[0]] = ("register", args[1])
        elif name == ".cfi_rel_offset":
            r, n = args
            cur = self.regs.get(r)
            if cur is None or cur[0] != "offset":
                raise IllFormed("rel-offset-without-offset-rule")
            self.regs[r] = ("offset", cur[1] + n)
        elif name == ".cfi_restore":
            (r,) = args
            init_regs = {} if self.cie_open else dict(self.initial[1])
            if r in init_regs:
                self.regs[r] = init_regs[r]
            else:
                # the CIE assigned no rule: back to the default (= no entry)
                self.regs.pop(r, None)
        # ---- row state instructions (6.4.2.4)
        elif name == ".cfi_remember_state":
            self.stack.append(_row(self.cfa, self.regs))
        elif name == ".cfi_restore_state":
            if not self.stack:
                raise IllFormed("restore-state-empty-stack")
            self.cfa, regs = self.stack.pop()
            self.regs = dict(regs)
        # ---- escaped instructions
        elif name == ".cfi_escape":
            for inst in decode_escape(list(args), self.cfg["byteorder"], self.cfg["ptr"]):
                if inst[0] == "nop":
                    pass
                elif inst[0] == "def_cfa_expression":
                    self.cfa = ("expression", inst[1])
                else:
                    self.regs[inst[1]] = (inst[0], inst[2])
        else:
            raise OutsideAlphabet(name)

    def _need_reg_offset_cfa(self):
        if self.cfa is None or self.cfa[0] != "reg_offset":
            raise IllFormed("cfa-not-register-offset")

    # -- observation --------------------------------------------------------
    def snapshot(self):
        """The state as observed if the current location ended now: None outside
        a procedure, else a dict of plain immutable values."""
        if not self.in_proc:
            return None
        cur = _row(self.cfa, self.regs)
        init = cur if self.cie_open else self.initial
        return {
            "return_column": ("default", self.cfg["return_column"]) if self.return_column is None else ("set", self.return_column),
            "personality": self.personality,
            "lsda": self.lsda,
            "cfa": cur[0],
            "registers": cur[1],
            "initial": init,
            "save_stack": tuple(self.stack),
        }

    def canon(self):
        """Hashable value; equal canon => equal behaviour under every future
        event sequence (up to a shift of block / offset numbers).  The shape of
        the table matters through: does the current location already have
        directives, does the current block have directives at earlier offsets."""
        where = (self.loc_has_directives, self.block_has_earlier_directives)
        if not self.in_proc:
            return ("out", where, self.ghost)
        return (
            "in",
            where,
            self.ghost,
            self.cie_open,
            self.return_column,
            self.personality,
            self.lsda,
            _row(self.cfa, self.regs),
            None if self.cie_open else self.initial,
            tuple(self.stack),
        )


class Run:
    """Reference evaluation of a history, one event at a time.

    events: ("d", name, args, sym) | ("next",) | ("block",)
    """

    def __init__(self, abi):
        self.m = Machine(abi)
        self.done = []  # (block_index, offset, snapshot) of the locations already left
        self.block = 0
        self.off = 0
        self.error = None  # (number of yields completed before the error, why)

    def clone(self):
        c = Run.__new__(Run)
        c.m = self.m.clone()
        c.done = list(self.done)
        c.block = self.block
        c.off = self.off
        c.error = self.error
        return c

    def step(self, ev):
        if self.error is not None:
            return  # nothing is evaluated after the error
        m = self.m
        if ev[0] == "d":
            try:
                m.directive(ev[1], ev[2], ev[3])
            except IllFormed as e:
                self.error = (len(self.done), e.why)
            return
        if m.loc_has_directives:
            self.done.append((self.block, self.off, m.snapshot()))
        m.next_location(ev[0] == "block")
        if ev[0] == "next":
            self.off += 1
        else:
            self.block += 1
            self.off = 0

    def result(self):
        """(yields, error, machine): yields in address order as far as the evaluation
        got, error None | (yields before the error, why), machine None after an error."""
        if self.error is not None:
            return list(self.done), self.error, None
        out = list(self.done)
        if self.m.loc_has_directives:
            out.append((self.block, self.off, self.m.snapshot()))
        return out, None, self.m

    def canon(self):
        return ("ERR", self.error[1]) if self.error is not None else self.m.canon()


def run(abi, events):
    """Reference evaluation of a whole history, see Run.result()."""
    r = Run(abi)
    for ev in events:
        r.step(ev)
    return r.result()
