import gtirb, gtirb_rewriting, gtirb_functions, itertools
from gtirb_test_helpers import *
from gtirb_rewriting import *
def snap(m):
    out=[]
    for s in sorted(m.sections, key=lambda s:s.name):
        for bi in sorted(s.byte_intervals, key=lambda b:(b.address or 0)):
            out.append(("bi", bi.address, bi.size, bi.initialized_size, bytes(bi.contents).hex(), sorted((b.offset,b.size,type(b).__name__) for b in bi.blocks), sorted(bi.symbolic_expressions)))
    for name in ("comments","padding","symbolicExpressionSizes","alignment"):
        if name in m.aux_data:
            d=m.aux_data[name].data
            out.append((name, sorted(((type(k).__name__, getattr(k,'displacement',None), (k.element_id.address if hasattr(k,'element_id') else k.address)), v) for k,v in d.items())))
    out.append(("syms", sorted((s.name, s.referent.address if s.referent is not None and hasattr(s.referent,'address') else None, s.at_end) for s in m.symbols)))
    return out
def case(blocks, size, init, align=None, gapfirst=False):
    ir, m = create_test_module(gtirb.Module.FileFormat.ELF, gtirb.Module.ISA.X64)
    s, bi = add_text_section(m, 0x1000)
    bi.size = size; bi.contents = bytes([0x90]*init); bi.initialized_size = init
    bs=[]
    for (o,sz,kind) in blocks:
        b = (gtirb.CodeBlock if kind=='c' else gtirb.DataBlock)(offset=o,size=sz); b.byte_interval=bi; bs.append(b)
        add_symbol(m, "s%d"%len(bs), b)
    if align:
        for b,a in zip(bs,align):
            if a: m.aux_data["alignment"].data[b]=a
    before = snap(m)
    ctx = RewritingContext(m, [])
    try:
        ctx.apply()
    except Exception as e:
        print("EXC", blocks, size, init, type(e).__name__, e); return
    after = snap(m)
    if before != after:
        print("DIFF", blocks, size, init, align)
        for x,y in zip(before, after):
            if x!=y: print("   -", x); print("   +", y)
case([(0,2,'c'),(2,2,'c')],4,4)
case([(0,2,'c'),(3,1,'c')],4,4)        # gap between
case([(1,2,'c')],4,4)                  # gap before & after
case([(0,3,'c'),(1,2,'c')],4,4)        # overlap
case([(0,2,'c'),(2,0,'c'),(2,2,'c')],4,4)  # zero-sized
case([(0,2,'c'),(2,2,'d')],6,4)        # uninit tail
case([(0,2,'c'),(4,2,'d')],6,2)        # uninit before later block
case([(0,2,'c'),(2,2,'c')],4,4, align=[None,4])
case([(0,3,'c'),(3,1,'c')],4,4, align=[None,2])
case([(0,2,'d'),(2,2,'d')],4,0)  # bss-like
