import gtirb, unittest.mock, sys
sys.path.insert(0,'/repo/tests')
from gtirb_test_helpers import *
import gtirb_rewriting
from gtirb_rewriting import *
from gtirb_rewriting.abi import CallingConventionDesc
from gtirb_rewriting.patches import CallPatch
# F10
ir,m=create_test_module(gtirb.Module.FileFormat.PE, gtirb.Module.ISA.X64)
sym=add_symbol(m,"foo",add_proxy_block(m))
conv=CallingConventionDesc(registers=("RCX",),stack_alignment=16,caller_cleanup=True,shadow_space=8)
p=CallPatch(sym,args=(1,2),conv=conv,align_stack=False)
ctx=unittest.mock.MagicMock(spec=gtirb_rewriting.InsertionContext,module=m,stack_adjustment=0)
print(p.get_asm(ctx))
# C19 flags
from helpers import _get_or_insert_elf_symbol_versions
ir,m=create_test_module(gtirb.Module.FileFormat.ELF, gtirb.Module.ISA.X64)
s,bi=add_text_section(m,0x1000); b=add_code_block(bi,b"\x90")
s1=add_symbol(m,"s1",b)
defs,reqs,entries=_get_or_insert_elf_symbol_versions(m)
defs[1]=(["libfoo.so"],3)   # BASE|WEAK
defs[2]=(["V1"],0)
entries[s1]=(2,False)
c=RewritingContext(m,[]); c.delete_symbol(s1); c.apply()
print("defs after",defs)
