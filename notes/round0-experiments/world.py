# Throwaway prototype of the "listing world" (x86-64 ELF) to discover oracle ambiguities. NOT framework code.
import itertools, collections, sys
import gtirb, gtirb_functions, capstone
from gtirb_test_helpers import *
from gtirb_rewriting import *

ET = gtirb.Edge.Type
# instruction kinds: ('o',tag) ('jmp',L) ('jcc',L) ('call',L) ('ret',) ('ijmp',) ('icall',) ; data: ('d',tag)
def enc(ins):
    k = ins[0]
    if k == 'o': return bytes([0xb0, ins[1]]), None
    if k == 'p': return bytes([0xb3, ins[1]]), None
    if k == 'jmp': return b"\xeb\0", (1, 1)
    if k == 'jcc': return b"\x74\0", (1, 1)
    if k == 'call': return b"\xe8\0\0\0\0", (1, 4)
    if k == 'ret': return b"\xc3", None
    if k == 'ijmp': return b"\xff\xe0", None
    if k == 'icall': return b"\xff\xd0", None
    if k == 'd': return bytes([ins[1]]), None
    raise ValueError(ins)
def asm_text(ins):
    k = ins[0]
    return {'p': lambda: "movb $%d, %%bl" % ins[1], 'jmp': lambda: "jmp %s" % ins[1], 'jcc': lambda: "je %s" % ins[1],
            'call': lambda: "call %s" % ins[1], 'ret': lambda: "ret", 'ijmp': lambda: "jmp *%rax", 'icall': lambda: "call *%rax",
            'lab': lambda: "%s:" % ins[1]}[k]()
def falls(ins): return ins[0] in ('o', 'p', 'jcc', 'call', 'icall')
def is_cti(ins): return ins[0] in ('jmp', 'jcc', 'call', 'ret', 'ijmp', 'icall')

class Blk:
    def __init__(s, name, kind, insns, func=None, entry=False):
        s.name, s.kind, s.insns, s.func, s.entry = name, kind, list(insns), func, entry

def build(blocks, ext=("ext",)):
    ir, m = create_test_module(gtirb.Module.FileFormat.ELF, gtirb.Module.ISA.X64)
    s, bi = add_text_section(m, 0x1000)
    syms = {e: add_symbol(m, e, add_proxy_block(m)) for e in ext}
    gb = {}
    # first create blocks
    for b in blocks:
        data = b""; sx = {}
        for ins in b.insns:
            bs, rel = enc(ins)
            if rel: sx[(len(data) + rel[0], rel[1])] = ins[1]
            data += bs
        gb[b.name] = (add_code_block if b.kind == 'c' else add_data_block)(bi, data)
        syms[b.name] = add_symbol(m, b.name, gb[b.name])
        b._sx = sx
    for b in blocks:
        for (off, size), tgt in b._sx.items():
            bi.symbolic_expressions[gb[b.name].offset + off] = gtirb.SymAddrConst(0, syms[tgt])
            m.aux_data["symbolicExpressionSizes"].data[gtirb.Offset(bi, gb[b.name].offset + off)] = size
    # functions
    funcs = collections.OrderedDict()
    for b in blocks:
        if b.func and b.kind == 'c': funcs.setdefault(b.func, []).append(b)
    for f, bl in funcs.items():
        ents = {gb[b.name] for b in bl if b.entry} or {gb[bl[0].name]}
        add_function(m, add_symbol(m, "F_" + f, min(ents, key=lambda x: x.offset)), ents, {gb[b.name] for b in bl} - ents)
    # cfg
    for e in model_cfg_blocks(blocks):
        src, typ, cond, direct, tgt = e
        t = gb[tgt] if tgt in gb else (syms[tgt].referent if tgt in syms else add_proxy_block(m))
        ir.cfg.add(gtirb.Edge(gb[src], t, gtirb.Edge.Label(typ, cond, direct)))
    return ir, m, bi, gb, syms

def model_cfg_blocks(blocks):
    """block-level consistent CFG for the *input* program."""
    edges = []
    names = [b.name for b in blocks]
    fn_of = {b.name: b.func for b in blocks}
    for i, b in enumerate(blocks):
        if b.kind != 'c' or not b.insns: continue
        last = b.insns[-1]
        nxt = blocks[i + 1] if i + 1 < len(blocks) else None
        if falls(last) and nxt is not None and nxt.kind == 'c':
            edges.append((b.name, ET.Fallthrough, False, True, nxt.name))
        if last[0] == 'jmp': edges.append((b.name, ET.Branch, False, True, last[1]))
        if last[0] == 'jcc': edges.append((b.name, ET.Branch, True, True, last[1]))
        if last[0] == 'call': edges.append((b.name, ET.Call, False, True, last[1]))
        if last[0] == 'ijmp': edges.append((b.name, ET.Branch, False, False, None))
        if last[0] == 'icall': edges.append((b.name, ET.Call, False, False, None))
    # returns
    for i, b in enumerate(blocks):
        if b.kind == 'c' and b.insns and b.insns[-1][0] == 'ret':
            sites = []
            if b.func:
                for j, c in enumerate(blocks):
                    if c.kind == 'c' and c.insns and c.insns[-1][0] == 'call' and fn_of.get(c.insns[-1][1]) == b.func:
                        if j + 1 < len(blocks) and blocks[j + 1].kind == 'c': sites.append(blocks[j + 1].name)
            if sites:
                for s_ in sorted(set(sites)): edges.append((b.name, ET.Return, False, True, s_))
            else:
                edges.append((b.name, ET.Return, False, True, None))
    return edges
