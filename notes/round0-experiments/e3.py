import gtirb, gtirb_rewriting, gtirb_functions
from gtirb_test_helpers import *
from gtirb_rewriting import *
def show(ir, m):
    for e in sorted(ir.cfg, key=lambda e:(getattr(e.source,'address',-1) or -1, e.label.type.name)):
        s = getattr(e.source,'address',None); t = getattr(e.target,'address',None)
        print("  %s -> %s %s cond=%s direct=%s" % (hex(s) if s else 'proxy', hex(t) if t is not None else 'proxy', e.label.type.name, e.label.conditional, e.label.direct))
    for b in sorted(m.byte_blocks, key=lambda b:b.address):
        print("  blk", type(b).__name__, hex(b.address), b.size, b.contents.hex(), [s.name+('@end' if s.at_end else '') for s in b.references])
for asm, off in (("ret",0),("ret",1),("jmp b",0),("jmp b",1), ("ret", 2)):
    ir, m = create_test_module(gtirb.Module.FileFormat.ELF, gtirb.Module.ISA.X64)
    s, bi = add_text_section(m, 0x1000)
    a = add_code_block(bi, b"\x90\x90")
    b = add_code_block(bi, b"\x90\xc3")
    add_edge(ir.cfg, a, b, gtirb.Edge.Type.Fallthrough)
    add_edge(ir.cfg, b, add_proxy_block(m), gtirb.Edge.Type.Return)
    add_symbol(m,"a",a); add_symbol(m,"b",b)
    fu = add_function(m, "f", a, {b})
    funcs = gtirb_functions.Function.build_functions(m)
    ctx = RewritingContext(m, funcs)
    ctx.insert_at(a, off, Patch.from_function(lambda ctx, asm=asm: asm, Constraints()))
    ctx.apply()
    print(asm, off, bi.contents.hex()); show(ir, m)
