# C08 prototype (uses the library's evaluator just for probing). throwaway
from run1 import *
import collections, itertools, copy as _copy
from gtirb_rewriting._auxdata import NULL_UUID
from gtirb_rewriting.dwarf.cfi_eval import evaluate_cfi_directives
def states_per_pos(m):
    """position -> (in_proc, cfa) in effect *after* all directives at that position; plus list of events in order"""
    ev=[]
    blocks=sorted(m.code_blocks,key=lambda b:(b.address,b.size))
    t=m.aux_data["cfiDirectives"].data
    for b in blocks:
        dm={}
        for k,v in t.items():
            if k.element_id is b: dm[k.displacement]=v
        for d in sorted(dm):
            for x in dm[d]: ev.append((b.address-0x1000+d, x[0], tuple(x[1])))
    return ev
def eval_events(ev):
    """tiny reference: returns function pos -> state for positions; state=(inproc,cfa_off)"""
    res=[]; inproc=False; off=None; stack=[]
    for (p,name,args) in ev:
        if name=='.cfi_startproc':
            if inproc: return 'ERR-nested'
            inproc=True; off=None; stack=[]
        elif not inproc: return 'ERR-outside:'+name
        elif name=='.cfi_endproc': inproc=False
        elif name=='.cfi_def_cfa': off=args[1]
        elif name=='.cfi_def_cfa_offset': off=args[0]
        elif name=='.cfi_adjust_cfa_offset': off=(off or 0)+args[0]
        elif name=='.cfi_remember_state': stack.append(off)
        elif name=='.cfi_restore_state':
            if not stack: return 'ERR-underflow'
            off=stack.pop()
        res.append((p,inproc,off))
    if inproc: return 'ERR-unterminated'
    return res
def state_at(res, pos):
    st=(False,None)
    for (p,i,o) in res:
        if p<=pos: st=(i,o)
    return st
def tagpos(bi):
    c=bytes(bi.contents); i=0; out={}
    while i<len(c):
        if c[i] in (0xb0,0xb3): out[(c[i],c[i+1])]=i; i+=2
        elif c[i]==0x50: out[(0x50,0)]=i; i+=1
        elif c[i]==0x58: out[(0x58,0)]=i; i+=1
        elif c[i]==0xc3: out[(0xc3,0)]=i; i+=1
        else: i+=1
    return out
import world
_enc=world.enc
def enc2(ins):
    if ins[0]=='push': return b"\x50",None
    if ins[0]=='pop': return b"\x58",None
    return _enc(ins)
world.enc=enc2; import model as _m; _m.enc=enc2; import run1 as _r; _r.enc=enc2
enc=enc2
def case(layout, mods):
    spec=[("A",'c',[('push',),('o',11)],'f',True),("B",'c',[('o',20),('pop',),('ret',)],'f',False),("C",'c',[('o',30),('ret',)],'g',True)]
    blocks=[Blk(*s) for s in spec]
    for b in blocks: b.entry_sym=b.entry
    ir,m,bi,gb,syms=build(blocks)
    t=m.aux_data["cfiDirectives"].data
    for (bn,d,lst) in layout: t[gtirb.Offset(gb[bn],d)]=[(x[0],list(x[1]),NULL_UUID) for x in lst]
    before=eval_events(states_per_pos(m)); tp0=tagpos(bi)
    assert not isinstance(before,str), before
    st0={tg:state_at(before,p) for tg,p in tp0.items()}
    ctx=RewritingContext(m,gtirb_functions.Function.build_functions(m))
    offs=lambda bn,k: sum(len(enc(i)[0]) for i in next(b for b in blocks if b.name==bn).insns[:k])
    anydel=False
    for (mid,kd,bn,k,cnt,patch,proxy) in mods:
        ln=offs(bn,k+cnt)-offs(bn,k)
        if kd=='ins': ctx.insert_at(gb[bn],offs(bn,k),Patch.from_function(lambda c,t=patch:t,Constraints()))
        else: ctx.delete_at(gb[bn],offs(bn,k),ln); anydel=True
    try: ctx.apply()
    except Exception as e: return [("EXC",type(e).__name__,str(e)[:50])]
    ev=states_per_pos(m); after=eval_events(ev)
    if isinstance(after,str): return [("after-invalid",after,tuple(e[1] for e in ev))]
    try: list(evaluate_cfi_directives(m, m.code_blocks))
    except Exception as e: return [("lib-eval-exc",type(e).__name__)]
    tp1=tagpos(bi); d=[]
    for tg,p in tp1.items():
        if tg[0]==0xb3:
            if not state_at(after,p)[0] and mods[0][2] in ('A','B'): d.append(("patch-not-in-proc",tg))
            continue
        if tg in st0:
            s1=state_at(after,p)
            if s1[0]!=st0[tg][0]: d.append(("inproc-changed",tg,st0[tg],s1))
            elif not anydel and s1!=st0[tg]: d.append(("state-changed",tg,st0[tg],s1))
    # structural directives preserved
    cnt0=collections.Counter(x[1] for x in states_per_pos_before if x[1] in ('.cfi_startproc','.cfi_endproc','.cfi_remember_state','.cfi_restore_state'))
    cnt1=collections.Counter(x[1] for x in ev if x[1] in ('.cfi_startproc','.cfi_endproc','.cfi_remember_state','.cfi_restore_state'))
    if cnt0!=cnt1: d.append(("structural-count",dict(cnt0),dict(cnt1)))
    return d
LAYOUT=[("A",0,[(".cfi_startproc",[]),(".cfi_def_cfa",[7,8])]),("A",1,[(".cfi_def_cfa_offset",[16])]),("B",2,[(".cfi_remember_state",[])]),("B",3,[(".cfi_def_cfa_offset",[8])]),("B",4,[(".cfi_restore_state",[]),(".cfi_endproc",[])]),
        ("C",0,[(".cfi_startproc",[]),(".cfi_def_cfa",[7,8])]),("C",3,[(".cfi_endproc",[])])]
stats=collections.Counter(); ex={}; n=0
PATS=["movb $1, %bl","pushq %rbx\n.cfi_adjust_cfa_offset 8\nmovb $2, %bl\npopq %rbx\n.cfi_adjust_cfa_offset -8"]
atoms=[]
for bn,nn in (("A",2),("B",3),("C",2)):
    for k in range(nn+1):
        for p in PATS: atoms.append(('ins',bn,k,0,p,False))
    for k in range(nn):
        for c in range(1,nn-k+1): atoms.append(('del',bn,k,c,None,False))
for a in atoms:
    # compute before-events for structural count
    spec_dummy=None
    mods=[(1,)+a]
    # hack: need states_per_pos_before global
    blocks=[Blk(*s) for s in [("A",'c',[('push',),('o',11)],'f',True),("B",'c',[('o',20),('pop',),('ret',)],'f',False),("C",'c',[('o',30),('ret',)],'g',True)]]
    for b in blocks: b.entry_sym=b.entry
    ir,m,bi,gb,syms=build(blocks)
    t=m.aux_data["cfiDirectives"].data
    for (bn,d,lst) in LAYOUT: t[gtirb.Offset(gb[bn],d)]=[(x[0],list(x[1]),NULL_UUID) for x in lst]
    states_per_pos_before=states_per_pos(m)
    n+=1
    for x in case(LAYOUT,mods):
        k=x[:3] if x[0] in('EXC','after-invalid') else x[0]
        stats[k]+=1; ex.setdefault(k,(mods,x))
print("cases",n)
for k,v in stats.most_common(): print(v,k,"   e.g.",str(ex[k])[:600])
