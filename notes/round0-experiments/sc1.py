# C07 prototype: scopes via PassManager. throwaway
from run1 import *
import re, collections, itertools
from gtirb_rewriting import *
from gtirb_rewriting.scopes import ENTRYPOINT_NAME, MAIN_NAME
TERMS=[None,('jmp','A'),('jcc','A'),('call','A'),('ret',),('ijmp',),('icall',)]
stats=collections.Counter(); ex={}; n=0
def run(spec, scopes_fn, entry=None, with_funcs=True):
    blocks=[Blk(*s) for s in spec]
    for b in blocks: b.entry_sym=b.entry
    ir,m,bi,gb,syms=build(blocks)
    if entry: m.entry_point=gb[entry]
    if not with_funcs:
        for t in ("functionBlocks","functionEntries","functionNames"): del m.aux_data[t]
    calls=[]
    class P(Pass):
        def begin_module(self, module, functions, ctx):
            for si,(scope) in enumerate(scopes_fn(gb)):
                def asm(ic, si=si):
                    calls.append((si, ic.block, ic.offset, ic.function.get_name() if ic.function else None))
                    return "movb $%d, %%bl" % (len(calls))
                ctx.register_insert(scope, Patch.from_function(asm, Constraints()))
    pm=PassManager(); pm.add(P())
    try: pm.run(ir)
    except Exception as e: return ("EXC",type(e).__name__,str(e)[:60]), None, None
    return None, calls, (bytes(bi.contents), gb, blocks, m)
def term_off(b):
    # offset before terminator
    ins=b.insns; last=ins[-1]
    n_=len(ins)-1 if last[0] in ('jmp','jcc','call','ret','ijmp','icall') else len(ins)
    return sum(len(enc(i)[0]) for i in ins[:n_])
for tA,tB in itertools.product(TERMS,TERMS):
  for funcs in (("f","f","g"),("f","g","g"),(None,"f","f"),("main","main","g")):
    spec=[("A",'c',[('o',10)]+([tA] if tA else [('o',11)]),funcs[0],True),
          ("B",'c',[('o',20)]+([tB] if tB else [('o',21)]),funcs[1],funcs[1]!=funcs[0]),
          ("C",'c',[('o',30),('ret',)],funcs[2],funcs[2]!=funcs[1]),
          ("D",'d',[('d',1),('d',2)],None,False)]
    for pos in (BlockPosition.ENTRY,BlockPosition.EXIT,BlockPosition.ANYWHERE):
      for scname in ('all','all-excl-f','all-excl-re','all-excl-main','all-excl-ep','fn-entry','fn-exit','fn-entry-g','single-B'):
        def mk(gb, scname=scname, pos=pos):
            if scname=='all': return [AllBlocksScope(pos)]
            if scname=='all-excl-f': return [AllBlocksScope(pos,{"F_f"})]
            if scname=='all-excl-re': return [AllBlocksScope(pos,{re.compile("F_[fg]")})]
            if scname=='all-excl-main': return [AllBlocksScope(pos,{MAIN_NAME})]
            if scname=='all-excl-ep': return [AllBlocksScope(pos,{ENTRYPOINT_NAME})]
            if scname=='fn-entry': return [AllFunctionsScope(FunctionPosition.ENTRY,pos)]
            if scname=='fn-exit': return [AllFunctionsScope(FunctionPosition.EXIT,pos)]
            if scname=='fn-entry-g': return [AllFunctionsScope(FunctionPosition.ENTRY,pos,{"F_g"})]
            if scname=='single-B': return [SingleBlockScope(gb["B"],pos)]
        n+=1
        err,calls,rest=run(spec,mk,entry="A")
        if err: stats[err]+=1; ex.setdefault(err,(spec,scname,pos)); continue
        data,gb,blocks,m=rest
        # expected designated set
        bm={b.name:b for b in blocks}
        fname=lambda b: ("F_"+b.func) if b.func else None
        code=[b for b in blocks if b.kind=='c']
        def is_exit(b):
            last=b.insns[-1]
            if last[0]=='ret': return True
            if last[0] in('jmp','jcc'):
                tgt=bm[last[1]]
                if tgt.func!=b.func: return True
            if last[0]=='ijmp': return True  # proxy target not in blocks
            # fallthrough leaving function
            i=blocks.index(b)
            if last[0] in ('o','jcc') and i+1<len(blocks) and blocks[i+1].kind=='c' and blocks[i+1].func!=b.func: return True
            return False
        if scname=='all': want=code
        elif scname=='all-excl-f': want=[b for b in code if fname(b)!="F_f"]
        elif scname=='all-excl-re': want=[b for b in code if not (fname(b) and re.fullmatch("F_[fg]",fname(b)))]
        elif scname=='all-excl-main': want=[b for b in code if fname(b)!="main_NOPE" and not (b.func=="main" and False)]
        elif scname=='all-excl-ep': want=[b for b in code if not (b.func is not None and b.func==bm["A"].func)]
        elif scname=='fn-entry': want=[b for b in code if b.func and b.entry]
        elif scname=='fn-exit': want=[b for b in code if b.func and is_exit(b)]
        elif scname=='fn-entry-g': want=[b for b in code if b.func=='g' and b.entry]
        elif scname=='single-B': want=[bm["B"]]
        if scname=='all-excl-main': 
            # function name is "F_main" here, MAIN_NAME matches get_name()=="main": never -> all blocks
            want=code
        got=sorted(bn for bn in (next(k for k,v in gb.items() if v is c[1]) for c in calls))
        if got!=sorted(b.name for b in want):
            k=('designation',scname); stats[k]+=1; ex.setdefault(k,(spec,pos,got,sorted(b.name for b in want)))
        # offsets
        for (si,blk,off,fn) in calls:
            bn=next(k for k,v in gb.items() if v is blk); b=bm[bn]
            exp = 0 if pos in (BlockPosition.ENTRY,BlockPosition.ANYWHERE) else term_off(b)
            if off!=exp: stats[('offset',pos.name)]+=1; ex.setdefault(('offset',pos.name),(spec,scname,bn,off,exp))
            if fn!=fname(b): stats['ctx-func']+=1; ex.setdefault('ctx-func',(spec,scname,bn,fn,fname(b)))
        # each tag exactly once in output
        for i in range(1,len(calls)+1):
            c=data.count(bytes([0xb3,i]))
            if c!=1: stats['tag-count']+=1; ex.setdefault('tag-count',(spec,scname,pos,i,c))
print("cases",n)
for k,v in stats.most_common(): print(v,k,"  e.g.",str(ex[k])[:700])
