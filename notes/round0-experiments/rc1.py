# Throwaway: BFS over ReferenceCache histories vs dict model
import itertools, collections, time
import gtirb
from gtirb_test_helpers import *
from gtirb_rewriting._modify.cache import ReferenceCache, RefNode
def fresh():
    ir, m = create_test_module(gtirb.Module.FileFormat.ELF, gtirb.Module.ISA.X64)
    s, bi = add_text_section(m, 0x1000)
    b0 = add_code_block(bi, b"\x90"); b1 = add_code_block(bi, b"\x90"); p = add_proxy_block(m)
    blocks = [b0, b1, p]
    syms = [add_symbol(m, "s0", b0), add_symbol(m, "s1", b0), add_symbol(m, "s2", b1)]
    syms[1].at_end = True
    return m, blocks, syms
OPS = []
for i in range(3):
    for j in range(3):
        for e in (False, True): OPS.append(('ret', i, j, e))
for i in range(3):
    OPS.append(('refs', i, None)); OPS.append(('refs', i, 1))   # full / partial (first only)
for s in range(3): OPS.append(('get', s))
for s in range(3):
    for j in (0, 2):
        for e in (False, True): OPS.append(('set', s, j, e))
OPS.append(('apply',))
def peek(rc, sym):
    if sym in rc._referents:
        node = rc._referents[sym]; 
        assert sym in node.symbols
        assert sym.referent is None, "indirect symbol with direct referent"
        seen=0
        while isinstance(node.parent, RefNode):
            node = node.parent; seen+=1
            assert seen<50, "cycle"
        blk = node.parent
        pair = rc._references[blk]
        assert node is pair[0] or node is pair[1], "root not registered"
        return blk, node is pair[1]
    return sym.referent, sym.at_end
def run(hist):
    m, blocks, syms = fresh()
    rc = ReferenceCache()
    model = {0:(0,False), 1:(0,True), 2:(1,False)}
    for step, op in enumerate(hist):
        if op[0]=='ret':
            _, i, j, e = op
            rc.retarget_references(blocks[i], blocks[j], e)
            for s,(b,ae) in list(model.items()):
                if b==i: model[s]=(j,e)
        elif op[0]=='refs':
            _, i, lim = op
            exp = {s for s,(b,ae) in model.items() if b==i}
            g = rc.get_references(blocks[i])
            if lim is None:
                got = list(g)
                assert len(got)==len(set(got)), "dup symbol yielded"
                assert {syms.index(x) for x in got}==exp, ("refs mismatch", exp, got)
                for x in got:
                    assert x.referent is blocks[i] and x.at_end==model[syms.index(x)][1], "yielded symbol not direct/at_end wrong"
            else:
                x = next(g, None); g.close()
                assert (x is None)==(not exp)
                if x is not None: assert syms.index(x) in exp and x.referent is blocks[i]
        elif op[0]=='get':
            s = op[1]; r = rc.get_referent(syms[s])
            assert r is blocks[model[s][0]], "get_referent wrong"
            assert syms[s].referent is r and syms[s].at_end==model[s][1], "get_referent did not make direct"
        elif op[0]=='set':
            _, s, j, e = op
            rc.set_referent(syms[s], blocks[j], e); model[s]=(j,e)
        elif op[0]=='apply':
            rc.apply()
            assert not rc._referents and not rc._references
        for s in range(3):
            b, ae = peek(rc, syms[s])
            assert b is blocks[model[s][0]] and bool(ae)==model[s][1], ("peek mismatch", s, model[s], blocks.index(b), ae)
    rc.apply()
    for s in range(3):
        assert syms[s].referent is blocks[model[s][0]] and syms[s].at_end==model[s][1], "final mismatch"
t=time.time(); n=0; fails=collections.Counter(); ex={}
for depth in (1,2,3):
    for hist in itertools.product(OPS, repeat=depth):
        n+=1
        try: run(hist)
        except AssertionError as e:
            k=str(e.args[0])[:40] if e.args else 'assert'; fails[k]+=1; ex.setdefault(k,hist)
        except Exception as e:
            k=type(e).__name__+str(e)[:40]; fails[k]+=1; ex.setdefault(k,hist)
print("histories",n,"time",time.time()-t)
for k,v in fails.most_common(): print(v,k,ex[k])
