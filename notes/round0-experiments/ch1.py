# C13 prototype: chunked assembly == whole assembly. throwaway
import itertools, collections, gtirb
from gtirb_test_helpers import *
from gtirb_rewriting.assembler import Assembler
LINES=["movb $7, %al","jmp A","je .Lb","call ext","ret","A:",".Lb:",".byte 1",".quad ext",'.string "hi"',".align 4","jmp *%rax"]
def mk():
    ir,m=create_test_module(gtirb.Module.FileFormat.ELF,gtirb.Module.ISA.X64)
    add_symbol(m,"ext",add_proxy_block(m)); return m
def canon(r):
    sec=r.text_section
    bidx={id(b):i for i,b in enumerate(sec.blocks)}
    pidx={}
    def nd(x):
        if id(x) in bidx: return ('b',bidx[id(x)])
        if isinstance(x,gtirb.ProxyBlock): return ('p',)
        return ('?',type(x).__name__)
    return (bytes(sec.data), tuple((type(b).__name__,b.offset,b.size) for b in sec.blocks),
            tuple(sorted((nd(e.source),nd(e.target),e.label.type.name,e.label.conditional,e.label.direct) for e in r.cfg)),
            tuple(sorted((s.name,nd(s.referent),s.at_end) for s in r.symbols)),
            tuple(sorted((o,type(x).__name__,x.symbol.name if hasattr(x,'symbol') else None) for o,x in sec.symbolic_expressions.items())),
            tuple(sorted((bidx[id(b)],a) for b,a in sec.alignment.items())),
            tuple(sorted((bidx[id(b)],str(t)) for b,t in sec.block_types.items())))
stats=collections.Counter(); ex={}; n=0
for L in (2,3,4):
    for seq in itertools.product(LINES,repeat=L):
        if seq.count("A:")>1 or seq.count(".Lb:")>1: continue
        if ("jmp A" in seq and "A:" not in seq) or ("je .Lb" in seq and ".Lb:" not in seq): continue
        m=mk(); a=Assembler(m)
        try: a.assemble("\n".join(seq)+"\n"); whole=canon(a.finalize())
        except Exception as e: whole=('EXC',type(e).__name__)
        for mask in range(1,2**(L-1)):
            chunks=[]; cur=[seq[0]]
            for i in range(1,L):
                if mask>>(i-1)&1: chunks.append(cur); cur=[]
                cur.append(seq[i])
            chunks.append(cur)
            # legality: no chunk refers to label defined in a later chunk
            legal=True; defined=set()
            for ch in chunks:
                for ln in ch:
                    if ln.endswith(":"): defined.add(ln[:-1])
                for ln in ch:
                    if ln=="jmp A" and "A" not in defined: legal=False
                    if ln=="je .Lb" and ".Lb" not in defined: legal=False
            if not legal: continue
            n+=1
            m=mk(); a=Assembler(m)
            try:
                for ch in chunks: a.assemble("\n".join(ch)+"\n")
                got=canon(a.finalize())
            except Exception as e: got=('EXC',type(e).__name__)
            if got!=whole:
                k='diff' if got[0]!='EXC' and whole[0]!='EXC' else ('exc',str(got[:2]) if got[0]=='EXC' else 'ok',str(whole[:2]) if whole[0]=='EXC' else 'ok')
                stats[k]+=1; ex.setdefault(k,(seq,chunks,whole,got))
print("cases",n)
for k,v in stats.most_common(): print(v,k,"  e.g.",str(ex[k])[:900])
