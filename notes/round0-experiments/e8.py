import gtirb, gtirb_rewriting, gtirb_functions, capstone
from gtirb_test_helpers import *
from gtirb_rewriting import *
from gtirb_rewriting.assembler import Assembler
from gtirb_rewriting._auxdata import NULL_UUID
from gtirb_rewriting.dwarf.cfi_eval import evaluate_cfi_directives
from gtirb_rewriting.patches import CallPatch
# (a)
ir, m = create_test_module(gtirb.Module.FileFormat.ELF, gtirb.Module.ISA.X64)
s, bi = add_text_section(m, 0x1000); a = add_code_block(bi, b"\x90")
m.aux_data["cfiDirectives"].data[gtirb.Offset(a,0)] = [(".cfi_startproc",[],NULL_UUID),(".cfi_restore",[3],NULL_UUID)]
try: print(list(evaluate_cfi_directives(m,[a])))
except Exception as e: print("(a)", type(e).__name__, e)
# (b),(c),(d)
def asm(isa, ff, text, syntax=None):
    ir, m = create_test_module(ff, isa)
    add_symbol(m, "foo", add_proxy_block(m))
    A = Assembler(m)
    try:
        if syntax: A.assemble(text, syntax)
        else: A.assemble(text)
        r = A.finalize()
    except Exception as e:
        return "EXC %s %s"%(type(e).__name__, e)
    arch = {gtirb.Module.ISA.X64:(capstone.CS_ARCH_X86,capstone.CS_MODE_64), gtirb.Module.ISA.IA32:(capstone.CS_ARCH_X86,capstone.CS_MODE_32), gtirb.Module.ISA.ARM64:(capstone.CS_ARCH_ARM64,capstone.CS_MODE_ARM)}[isa]
    cs = capstone.Cs(*arch)
    return [(i.mnemonic, i.op_str) for i in cs.disasm(r.text_section.data, 0)], r.text_section.symbolic_expressions
X=gtirb.Module.ISA.X64; E=gtirb.Module.FileFormat.ELF; P=gtirb.Module.FileFormat.PE
print("(c) elf", asm(X,E,"mov RDI, foo[rip]", X86Syntax.INTEL))
print("(c) pe", asm(X,P,"mov RCX, foo\npush foo", X86Syntax.INTEL))
print("(c) ia32", asm(gtirb.Module.ISA.IA32,P,"push foo", X86Syntax.INTEL))
print("(d)", asm(X,E,"push 0x123456789\n", X86Syntax.INTEL))
print("(d2)", asm(X,E,"push 0x80000000\n", X86Syntax.INTEL))
print("(d3)", asm(X,E,"push -1\nmov RDI, -1\nmov RDI, 0xffffffffffffffff\nmov RDI, 0x80000000", X86Syntax.INTEL))
print("(b)", asm(gtirb.Module.ISA.ARM64,E,"mov x0, #0x-5"))
print("(b2)", asm(gtirb.Module.ISA.ARM64,E,"mov x0, #0xffff\nmov x1, #0x10000"))
