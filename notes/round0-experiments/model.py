from world import *
# ---------------- token-level reference model -----------------
def tokens_of(blocks):
    toks = []
    for b in blocks:
        toks.append(('blk', b.name, b.kind, b.func))
        toks.append(('lab', b.name))
        if b.func and b.entry_sym: toks.append(('lab', "F_" + b.func))
        for i, ins in enumerate(b.insns):
            toks.append(('ins', ins, ('orig', b.name, i), b.func, b.kind))
    return toks

def apply_model(blocks, mods):
    """mods: list of (id, kind, block, k, cnt, patch, proxy) ; returns token list, proxied label set"""
    toks = tokens_of(blocks)
    proxied = set()
    # process per block; positions by original instruction identity
    def find_ins(bn, i):
        for p, t in enumerate(toks):
            if t[0] == 'ins' and t[2] == ('orig', bn, i): return p
        return None
    bmap = {b.name: b for b in blocks}
    # sort by (block order, k, id)
    order = {b.name: j for j, b in enumerate(blocks)}
    mods = sorted(mods, key=lambda m_: (order[m_[2]], m_[3], m_[0]))
    # compute insertion anchors first (before any deletion), as "before orig ins (bn,k)" or "after orig ins (bn,n-1)"
    pending = []
    for (mid, kind, bn, k, cnt, patch, proxy) in mods:
        n = len(bmap[bn].insns)
        pending.append((mid, kind, bn, k, cnt, patch, proxy, n))
    # insertions: place marker tokens
    for (mid, kind, bn, k, cnt, patch, proxy, n) in pending:
        if kind in ('ins', 'rep'):
            ptoks = []
            for j, pi in enumerate(patch):
                if pi[0] == 'lab': ptoks.append(('lab', pi[1] + "_%MID%"))
                else: ptoks.append(('ins', pi, ('patch', mid, j), bmap[bn].func, 'c'))
            if k < n:
                p = find_ins(bn, k)
                # keep same-position order by id: insert before the anchor instruction but after earlier-inserted patch tokens
                toks[p:p] = ptoks
            else:
                p = find_ins(bn, n - 1) + 1
                # skip previously inserted patch tokens at the end position
                while p < len(toks) and toks[p][0] == 'ins' and toks[p][2][0] == 'patch' and toks[p][2][1] in END_AT.get((bn), set()): p += 1
                toks[p:p] = ptoks
                END_AT.setdefault(bn, set()).add(mid)
    for (mid, kind, bn, k, cnt, patch, proxy, n) in pending:
        if kind in ('del', 'rep') and cnt:
            for i in range(k, k + cnt):
                p = find_ins(bn, i); del toks[p]
            if proxy: proxied.add(bn)
    return toks, proxied
END_AT = {}

def expected_obs(toks, proxied, ext):
    # positions
    pos = 0; labpos = {}; ins_list = []
    for t in toks:
        if t[0] == 'lab': labpos[t[1]] = pos
        elif t[0] == 'ins':
            ins_list.append((pos, t)); pos += len(enc(t[1])[0])
    data = b"".join(enc(t[1])[0] for _, t in ins_list)
    # label -> is followed by code?  function of position
    func_at = {}
    for p, t in ins_list:
        func_at.setdefault(p, (t[3], t[4]))
    edges = set()
    for idx, (p, t) in enumerate(ins_list):
        ins = t[1]
        if t[4] != 'c': continue
        nxt = ins_list[idx + 1] if idx + 1 < len(ins_list) else None
        if falls(ins):
            if nxt is not None and nxt[1][4] == 'c': edges.add((p, 'Fallthrough', False, True, nxt[0]))
            else: edges.add((p, 'Fallthrough?', False, True, None))
        def tgt(L):
            L2 = L
            if L in ext or L in proxied: return 'proxy:' + L
            return labpos[L2]
        if ins[0] == 'jmp': edges.add((p, 'Branch', False, True, tgt(ins[1])))
        if ins[0] == 'jcc': edges.add((p, 'Branch', True, True, tgt(ins[1])))
        if ins[0] == 'call': edges.add((p, 'Call', False, True, tgt(ins[1])))
        if ins[0] == 'ijmp': edges.add((p, 'Branch', False, False, 'proxy'))
        if ins[0] == 'icall': edges.add((p, 'Call', False, False, 'proxy'))
    # returns
    for idx, (p, t) in enumerate(ins_list):
        if t[1][0] == 'ret' and t[4] == 'c':
            f = t[3]; sites = set()
            if f:
                for jdx, (q, u) in enumerate(ins_list):
                    if u[1][0] == 'call' and u[4] == 'c' and u[1][1] not in ext and u[1][1] not in proxied:
                        tp = labpos[u[1][1]]
                        if func_at.get(tp, (None,))[0] == f and func_at.get(tp)[1] == 'c':
                            if jdx + 1 < len(ins_list) and ins_list[jdx + 1][1][4] == 'c': sites.add(ins_list[jdx + 1][0])
            if sites:
                for s_ in sites: edges.add((p, 'Return', False, True, s_))
            else: edges.add((p, 'Return', False, True, 'proxy'))
    return data, labpos, edges

# ---------------- observation of the real IR -----------------
CS = capstone.Cs(capstone.CS_ARCH_X86, capstone.CS_MODE_64); CS.detail = True
def observe(ir, m, bi, syms):
    base = 0x1000
    data = bytes(bi.contents)
    labpos = {}
    for s_ in m.symbols:
        r = s_.referent
        if isinstance(r, gtirb.ByteBlock): labpos[s_.name] = r.address - base + (r.size if s_.at_end else 0)
        elif isinstance(r, gtirb.ProxyBlock): labpos[s_.name] = 'proxy'
        else: labpos[s_.name] = None
    proxyname = {}
    for s_ in m.symbols:
        if isinstance(s_.referent, gtirb.ProxyBlock): proxyname.setdefault(s_.referent, []).append(s_.name)
    edges = set(); problems = []
    for b in m.code_blocks:
        if b.size == 0:
            for e in b.outgoing_edges: edges.add((b.address - base, 'Z' + e.label.type.name, e.label.conditional, e.label.direct, 'zero-sized'))
            continue
        insns = list(CS.disasm(b.contents, b.address - base))
        if sum(i.size for i in insns) != b.size: problems.append(("undecodable", b.address - base))
        for j, i in enumerate(insns[:-1]):
            edges.add((i.address, 'Fallthrough', False, True, insns[j + 1].address))
            if i.group(capstone.CS_GRP_JUMP) or i.group(capstone.CS_GRP_CALL) or i.group(capstone.CS_GRP_RET): problems.append(("buried-cti", i.address))
        lastp = insns[-1].address
        for e in b.outgoing_edges:
            t = e.target
            if isinstance(t, gtirb.ProxyBlock):
                if t not in m.proxies: problems.append(("proxy-not-in-module", lastp))
                tt = 'proxy' + (':' + sorted(proxyname[t])[0] if t in proxyname else '')
            else:
                if t.module is not m: problems.append(("edge-to-removed-block", lastp)); tt = 'removed'
                else: tt = t.address - base
            edges.add((lastp, e.label.type.name, e.label.conditional, e.label.direct, tt))
    for e in ir.cfg:
        for n in (e.source, e.target):
            if isinstance(n, gtirb.CodeBlock) and n.module is not m: problems.append(("dangling-edge", str(e.label.type.name)))
    return data, labpos, edges, problems

PROXIED=set()
def compare(exp, obs, labels_to_check):
    edata, elab, eedges = exp; odata, olab, oedges, problems = obs
    diffs = list(problems)
    if edata != odata: diffs.append(("bytes", edata.hex(), odata.hex()))
    for L in labels_to_check:
        e = elab.get(L); o = olab.get(L)
        if L in PROXIED: e = 'proxy'
        if e != o and not (isinstance(e, str) and o == 'proxy'): diffs.append(("label", L, e, o))
    # edges: 'Fallthrough?' in expected = optional (followed by non-code): accept fallthrough to proxy or none
    ee = set(x for x in eedges if x[1] != 'Fallthrough?')
    opt = set(x[0] for x in eedges if x[1] == 'Fallthrough?')
    oo = set()
    for x in oedges:
        if x[1] == 'Fallthrough' and x[0] in opt and (isinstance(x[4], str)): continue
        oo.add(x)
    norm = lambda s: set((a, b, c, d, ('proxy' if isinstance(t, str) and t.startswith('proxy') else t)) for (a, b, c, d, t) in s)
    if norm(ee) != norm(oo):
        diffs.append(("edges", sorted(norm(ee) - norm(oo), key=str), sorted(norm(oo) - norm(ee), key=str)))
    return diffs
