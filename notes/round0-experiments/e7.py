import gtirb, gtirb_rewriting, gtirb_functions
from gtirb_test_helpers import *
from gtirb_rewriting import *
ir, m = create_test_module(gtirb.Module.FileFormat.ELF, gtirb.Module.ISA.X64)
s, bi = add_text_section(m, 0x1000)
fa = add_code_block(bi, b"\xc3"); fb = add_code_block(bi, b"\xc3")
sa = add_symbol(m,"fa",fa); sb = add_symbol(m,"fb",fb)
c1 = add_code_block(bi, b"\xe8\x00\x00\x00\x00", {1: gtirb.SymAddrConst(0, sa)})
c2 = add_code_block(bi, b"\x90\xc3")
add_function(m, sa, fa); add_function(m, sb, fb); add_function(m, "main", c1, {c2})
add_edge(ir.cfg, c1, fa, gtirb.Edge.Type.Call); add_edge(ir.cfg, c1, c2, gtirb.Edge.Type.Fallthrough)
add_edge(ir.cfg, fa, c2, gtirb.Edge.Type.Return)
add_edge(ir.cfg, fb, add_proxy_block(m), gtirb.Edge.Type.Return)
add_edge(ir.cfg, c2, add_proxy_block(m), gtirb.Edge.Type.Return)
ctx = RewritingContext(m, gtirb_functions.Function.build_functions(m))
ctx.retarget_symbol_uses(sa, sb)
ctx.apply()
for e in sorted(ir.cfg, key=lambda e:(e.source.address, e.label.type.name)):
    print(hex(e.source.address), e.label.type.name, hex(e.target.address) if hasattr(e.target,'address') else 'proxy')
print(bi.symbolic_expressions)
