# pairs of modifications, reduced alphabet; classify discrepancies, excluding the already-known classes
from run1 import *
import collections, itertools
def known(d, spec, mods):
    # F1 spurious fallthrough after unconditional terminator in patch
    if d[0]=='edges' and not d[1] and all(e[1]=='Fallthrough' for e in d[2]): return 'F1'
    return None
TERMS = [None, ('jmp', 'A'), ('call', 'A'), ('ret',)]
PATCHES = [[('p', 1)], [('jcc', 'A')], [('call', 'ext')], [('lab','.Lx'),('p',3),('jcc','.Lx_')]]
stats = collections.Counter(); examples = {}; n=0
for tB in TERMS:
  for funcs in (("f","f","f"),("f","g","g"),(None,None,None)):
    for kinds in (('c','c','c'),('c','d','c'),('c','c','d')):
        spec = [("A", kinds[0], [('o', 10), ('o', 11)] if kinds[0]=='c' else [('d',1),('d',2)], funcs[0], True),
                ("B", kinds[1], ([('o', 20)] + ([tB] if tB else [('o', 21)])) if kinds[1]=='c' else [('d',3),('d',4)], funcs[1], funcs[1] != funcs[0]),
                ("C", kinds[2], [('o', 30), ('ret',)] if kinds[2]=='c' else [('d',5),('d',6)], funcs[2], funcs[2] != funcs[1])]
        if kinds[1]=='d' and tB: continue
        if kinds[2]=='d' and tB and tB[0] in ('jmp','call') : pass
        atoms=[]
        for bn, n_ in (("A",2),("B",2),("C",2)):
            kind = dict(A=kinds[0],B=kinds[1],C=kinds[2])[bn]
            for k in range(n_+1):
                for p in PATCHES:
                    if kind=='d' and p[0][0]!='p': continue
                    atoms.append(('ins',bn,k,0,p,False))
            for k in range(n_):
                for cnt in range(1,n_-k+1):
                    atoms.append(('del',bn,k,cnt,None,False))
                    if k==0 and cnt==n_: atoms.append(('del',bn,k,cnt,None,True))
        def overlap(a,b):
            if a[1]!=b[1]: return False
            ra=(a[2],a[2]+a[3]); rb=(b[2],b[2]+b[3])
            if a[0]=='ins' and b[0]=='ins': return False
            if a[0]=='ins': return rb[0] < ra[0] < rb[1]
            if b[0]=='ins': return ra[0] < rb[0] < ra[1]
            return ra[0]<rb[1] and rb[0]<ra[1]
        for a,b in itertools.combinations(atoms,2):
            if overlap(a,b): continue
            mods=[(1,)+a,(2,)+b]
            # temp label names: patch label '.Lx' -> model name uses suffix; skip label check
            n+=1
            try: d = run_case(spec, mods)
            except Exception as e:
                stats[('HARNESS',type(e).__name__,str(e)[:60])]+=1; examples.setdefault(('HARNESS',type(e).__name__,str(e)[:60]),(spec,mods)); continue
            for x in d:
                kf = known(x,spec,mods)
                if kf: stats[kf]+=1; continue
                key = x[0] if x[0] not in ('edges','EXC') else (x[:3] if x[0]=='EXC' else ('edges', tuple(sorted(set(e[1] for e in x[1]))), tuple(sorted(set(e[1] for e in x[2])))))
                stats[key]+=1; examples.setdefault(key,(spec,mods,x))
print("cases",n)
for k,v in stats.most_common(): print(v,k); print("     e.g.", str(examples.get(k))[:1100])
