import itertools, collections, gtirb, capstone
from gtirb_test_helpers import *
from gtirb_rewriting import *
from gtirb_rewriting.abi import ABI
from gtirb_rewriting.assembler import Assembler
import gtirb_rewriting.abi as abimod
ISA=gtirb.Module.ISA; FF=gtirb.Module.FileFormat
targets=[(ISA.X64,FF.ELF,capstone.CS_ARCH_X86,capstone.CS_MODE_64),(ISA.X64,FF.PE,capstone.CS_ARCH_X86,capstone.CS_MODE_64),(ISA.IA32,FF.PE,capstone.CS_ARCH_X86,capstone.CS_MODE_32),(ISA.ARM64,FF.ELF,capstone.CS_ARCH_ARM64,capstone.CS_MODE_ARM),(ISA.MIPS32,FF.ELF,capstone.CS_ARCH_MIPS,capstone.CS_MODE_MIPS32+capstone.CS_MODE_BIG_ENDIAN)]
for isa,ff,arch,mode in targets:
    ir,m=create_test_module(ff,isa, byte_order=gtirb.Module.ByteOrder.Big if isa==ISA.MIPS32 else None)
    abi=ABI.get(m)
    regs=[r.name for r in abi.all_registers()]
    mn=collections.Counter(); n=0; errs=collections.Counter()
    cs=capstone.Cs(arch,mode)
    for clob in ([],regs[:1],regs[:2],regs[:3],[regs[-1]]):
      for flags in (False,True):
        for align in (False,True):
          for pcs in (False,True):
            for scratch in (0,1,2):
              for leaf in (False,True):
                c=Constraints(clobbers_flags=flags,clobbers_registers=set(clob),align_stack=align,preserve_caller_saved_registers=pcs,scratch_registers=scratch)
                try:
                    ra=abi._allocate_patch_registers(c)
                    pro,epi,adj=abi._create_prologue_and_epilogue(c,ra,leaf)
                except Exception as e:
                    errs[type(e).__name__+":"+str(e)[:40]]+=1; continue
                A=Assembler(m)
                try:
                    for s in pro: A.assemble(s.code,s.x86_syntax)
                    A.assemble("nop")
                    for s in epi: A.assemble(s.code,s.x86_syntax)
                    r=A.finalize()
                except Exception as e:
                    errs["ASM "+type(e).__name__+":"+str(e)[:60]]+=1; continue
                n+=1
                data=r.text_section.data
                dec=list(cs.disasm(data,0))
                if sum(i.size for i in dec)!=len(data): errs["undecodable"]+=1
                for i in dec: mn[i.mnemonic]+=1
    print(isa.name,ff.name,"configs",n,"mnemonics",dict(mn)); print("   errors",dict(errs))
