# C04 prototype: offset-keyed annotations travel with bytes. throwaway
from run1 import *
import itertools, collections
def run_case3(mods, ann, partition):
    spec=[("A",'c',[('o',10),('o',11)],'f',True),("B",'c',[('o',20),('o',21)],'f',False),("C",'d',[('d',1),('d',2)],None,False)]
    blocks=[Blk(*s) for s in spec]
    for b in blocks: b.entry_sym=b.entry
    ir,m,bi,gb,syms=build(blocks)
    # byte identity: (block, byteidx)
    sizes={b.name:sum(len(enc(i)[0]) for i in b.insns) for b in blocks}
    kind, bn, d = ann
    blk=gb[bn]
    if kind=='cb': m.aux_data["comments"].data[gtirb.Offset(blk,d)]="X"
    elif kind=='ci': m.aux_data["comments"].data[gtirb.Offset(bi,blk.offset+d)]="X"
    elif kind=='pi': m.aux_data["padding"].data[gtirb.Offset(bi,blk.offset+d)]=7
    elif kind=='sx':
        bi.symbolic_expressions[blk.offset+d]=gtirb.SymAddrConst(4,syms['ext'])
        m.aux_data["symbolicExpressionSizes"].data[gtirb.Offset(bi,blk.offset+d)]=1
    if partition=='split':
        # put C into its own byte interval
        pass
    ctx=RewritingContext(m,gtirb_functions.Function.build_functions(m))
    offs=lambda bn_,k: sum(len(enc(i)[0]) for i in next(b for b in blocks if b.name==bn_).insns[:k])
    for (mid,kd,b_,k,cnt,patch,proxy) in mods:
        ln=offs(b_,k+cnt)-offs(b_,k)
        if kd=='ins': ctx.insert_at(gb[b_],offs(b_,k),patch_obj(patch,mid))
        else: ctx.delete_at(gb[b_],offs(b_,k),ln)
    try: ctx.apply()
    except Exception as e: return [("EXC",type(e).__name__,str(e)[:50])]
    # model: list of bytes identities
    seq=[]
    for b in blocks:
        for i in range(sizes[b.name]): seq.append((b.name,i))
    order={b.name:j for j,b in enumerate(blocks)}
    for (mid,kd,b_,k,cnt,patch,proxy) in sorted(mods,key=lambda q:(order[q[2]],q[3],q[0])):
        if kd=='ins':
            pl=sum(len(enc(i)[0]) for i in patch)
            o=offs(b_,k)
            if o<sizes[b_]: p=seq.index((b_,o))
            else:
                p=seq.index((b_,o-1))+1
                while p<len(seq) and seq[p][0]=='patch': p+=1
            seq[p:p]=[('patch',mid)]*pl
    for (mid,kd,b_,k,cnt,patch,proxy) in mods:
        if kd=='del':
            for i in range(offs(b_,k),offs(b_,k+cnt)): seq.remove((b_,i))
    exp = seq.index((bn,d)) if (bn,d) in seq else None
    # observe: all annotations re-keyed to interval offset
    obs=[]
    if kind in('cb','ci'):
        for k_,v in m.aux_data["comments"].data.items():
            e=k_.element_id
            if isinstance(e,gtirb.ByteBlock):
                if e.module is not m: obs.append('dangling')
                else: obs.append(e.address-0x1000+k_.displacement)
            else:
                if e.module is not m: obs.append('dangling-bi')
                else: obs.append(e.address-0x1000+k_.displacement)
    elif kind=='pi':
        for k_,v in m.aux_data["padding"].data.items():
            e=k_.element_id; obs.append(e.address-0x1000+k_.displacement if e.module is m else 'dangling')
    else:
        s1=sorted(o for o,x in bi.symbolic_expressions.items() if isinstance(x,gtirb.SymAddrConst) and x.offset==4)
        s2=sorted((k_.element_id.address-0x1000+k_.displacement) if k_.element_id.module is m else 'dangling' for k_,v in m.aux_data["symbolicExpressionSizes"].data.items() if v==1 and True)
        obs=s1
        if s1!=[x for x in s2 if x in s1] or len(s2)!=len(s1)+0: 
            # sizes for patch-created exprs excluded: patches here have jcc with size-1 exprs -> filter by value offset not possible; compare loosely
            pass
        if exp is not None and exp not in s2: return [("size-entry-missing",exp,s2)]
        if exp is None and len(s2)>len([1 for q in mods if q[1]=='ins' and q[5][0][0]=='jcc']): return [("size-entry-stale",s2)]
    want=[exp] if exp is not None else []
    if sorted(map(str,obs))!=sorted(map(str,want)): return [("ann",kind,want,obs)]
    return []
stats=collections.Counter(); ex={}; n=0
atoms=[]
for b_,kd in (("A",'c'),("B",'c'),("C",'d')):
    for k in (0,1,2):
        atoms.append(('ins',b_,k,0,[('p',1)],False))
        if kd=='c': atoms.append(('ins',b_,k,0,[('jcc','A')],False))
    for (k,c) in ((0,1),(1,1),(0,2)): atoms.append(('del',b_,k,c,None,False))
def ok(combo):
    for a,b in itertools.combinations(combo,2):
        if a[1]==b[1]:
            if a[0]=='del' and b[0]=='del' and a[2]<b[2]+b[3] and b[2]<a[2]+a[3]: return False
            for x,y in ((a,b),(b,a)):
                if x[0]=='ins' and y[0]=='del' and (y[2]<x[2]<y[2]+y[3] or (y[3]==2 and x[2]==2)): return False
    return True
for r in (1,2):
    for combo in itertools.combinations(atoms,r):
        if not ok(combo): continue
        mods=[(i+1,)+c for i,c in enumerate(combo)]
        for kind in ('cb','ci','pi','sx'):
            for bn,sz in (("A",4),("B",4),("C",2)):
                for d in range(sz):
                    n+=1
                    for x in run_case3(mods,(kind,bn,d),'one'):
                        k=x[:3] if x[0]=='EXC' else x[:2]
                        stats[k]+=1; ex.setdefault(k,(mods,(kind,bn,d),x))
print("cases",n)
for k,v in stats.most_common(): print(v,k,"  e.g.",str(ex[k])[:500])
