import sys, itertools, collections, traceback
from model import *
import model
def patch_obj(p, mid):
    text = "\n".join(asm_text(i).replace("%MID%", "") for i in p)
    return Patch.from_function(lambda ctx, t=text: t, Constraints())
def run_case(blocks_spec, mods, ext=("ext",)):
    blocks = [Blk(*s) for s in blocks_spec]
    for b in blocks: b.entry_sym = b.entry
    ir, m, bi, gb, syms = build(blocks, ext)
    funcs = gtirb_functions.Function.build_functions(m)
    ctx = RewritingContext(m, funcs)
    offs = lambda bn, k: sum(len(enc(i)[0]) for i in next(b for b in blocks if b.name == bn).insns[:k])
    for (mid, kind, bn, k, cnt, patch, proxy) in mods:
        blk = gb[bn]
        ln = offs(bn, k + cnt) - offs(bn, k)
        if kind == 'ins': ctx.insert_at(blk, offs(bn, k), patch_obj(patch, mid))
        elif kind == 'rep': ctx.replace_at(blk, offs(bn, k), ln, patch_obj(patch, mid))
        elif kind == 'del': ctx.delete_at(blk, offs(bn, k), ln, retarget_to_proxy=proxy)
    try:
        ctx.apply()
    except Exception as e:
        return [("EXC", type(e).__name__, str(e)[:80])]
    model.END_AT.clear()
    toks, proxied = apply_model(blocks, mods)
    model.PROXIED.clear(); model.PROXIED.update(proxied); model.PROXIED.update('F_'+b.func for b in blocks if b.name in proxied and b.func and b.entry)
    exp = expected_obs(toks, proxied, set(ext))
    obs = observe(ir, m, bi, syms)
    labels = [b.name for b in blocks] + ["F_" + b.func for b in blocks if b.func and b.entry]
    return compare(exp, obs, labels)

if __name__ == "__main__":
    TERMS = [None, ('jmp', 'A'), ('jcc', 'C'), ('call', 'A'), ('call', 'ext'), ('ret',), ('ijmp',), ('icall',)]
    PATCHES = [[('p', 1)], [('p', 1), ('p', 2)], [('jmp', 'C')], [('jcc', 'A')], [('call', 'A')], [('call', 'ext')], [('ret',)], [('p', 1), ('ret',)], [('ret',), ('p', 2)], [('ijmp',)], [('icall',)]]
    stats = collections.Counter(); examples = {}
    ncase = 0
    for tB in TERMS:
        for funcs in (("f", "f", "f"), ("f", "g", "g"), (None, None, None), ("f", "f", "g")):
            spec = [("A", 'c', [('o', 10), ('o', 11)], funcs[0], True),
                    ("B", 'c', [('o', 20)] + ([tB] if tB else [('o', 21)]), funcs[1], funcs[1] != funcs[0]),
                    ("C", 'c', [('o', 30), ('ret',)], funcs[2], funcs[2] != funcs[1])]
            nB = 2
            atoms = []
            for bn, n in (("A", 2), ("B", nB), ("C", 2)):
                for k in range(n + 1):
                    for pi, p in enumerate(PATCHES): atoms.append((None, 'ins', bn, k, 0, p, False))
                for k in range(n):
                    for cnt in range(1, n - k + 1):
                        atoms.append((None, 'del', bn, k, cnt, None, False))
                        if k == 0 and cnt == n: atoms.append((None, 'del', bn, k, cnt, None, True))
            for a in atoms:
                mods = [(1,) + a[1:]]
                ncase += 1
                try: d = run_case(spec, mods)
                except Exception as e:
                    d = [("HARNESS", type(e).__name__, str(e)[:100])]; traceback.print_exc(); sys.exit(1)
                for x in d:
                    key = x[0] if x[0] != 'edges' else ('edges', tuple(sorted(set(e[1] for e in x[1]))), tuple(sorted(set(e[1] for e in x[2]))))
                    key = key if x[0] != 'EXC' else x[:3]
                    stats[key] += 1
                    examples.setdefault(key, (spec, mods, x))
    print("cases", ncase)
    for k, v in stats.most_common(): print(v, k); print("     e.g.", examples[k])
