import time, gtirb, gtirb_rewriting
from gtirb_test_helpers import *
from gtirb_rewriting import *
def mk():
    ir, m = create_test_module(gtirb.Module.FileFormat.ELF, gtirb.Module.ISA.X64)
    s, bi = add_text_section(m, 0x1000)
    a = add_code_block(bi, b"\x90\x90")       # nop nop
    b = add_code_block(bi, b"\x90\x90")
    c = add_code_block(bi, b"\x90\xc3")
    add_edge(ir.cfg, a, b, gtirb.Edge.Type.Fallthrough)
    add_edge(ir.cfg, b, c, gtirb.Edge.Type.Fallthrough)
    add_edge(ir.cfg, c, add_proxy_block(m), gtirb.Edge.Type.Return)
    sa = add_symbol(m, "a", a); sb = add_symbol(m, "b", b); sc = add_symbol(m, "c", c)
    return ir, m, bi, (a,b,c)
# Experiment 1: delete A, then patch in C jumps to "a"
ir, m, bi, (a,b,c) = mk()
ctx = RewritingContext(m, [])
ctx.delete_at(a, 0, a.size)
ctx.insert_at(c, 0, Patch.from_function(lambda ctx: "jmp a", Constraints()))
t=time.time()
try:
    ctx.apply()
    print("ok", bi.contents.hex(), [(e.source.address if hasattr(e.source,'address') else None, e.label.type.name, getattr(e.target,'address',None)) for e in ir.cfg])
except Exception as e:
    print("EXC", type(e).__name__, e)
print("time", time.time()-t)
# sequential
ir, m, bi, (a,b,c) = mk()
ctx = RewritingContext(m, []); ctx.delete_at(a, 0, a.size); ctx.apply()
ctx = RewritingContext(m, []); ctx.insert_at(c, 0, Patch.from_function(lambda ctx: "jmp a", Constraints())); ctx.apply()
print("seq ok", bi.contents.hex(), sorted((getattr(e.source,'address',None), e.label.type.name, getattr(e.target,'address',None)) for e in ir.cfg))
