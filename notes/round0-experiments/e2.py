import time, gtirb, gtirb_rewriting
from gtirb_test_helpers import *
from gtirb_rewriting import *
ir, m = create_test_module(gtirb.Module.FileFormat.ELF, gtirb.Module.ISA.X64)
s, bi = add_text_section(m, 0x1000)
a = add_code_block(bi, b"\x90\x90")
b = add_code_block(bi, b"\x90\xc3")
add_edge(ir.cfg, a, b, gtirb.Edge.Type.Fallthrough)
add_edge(ir.cfg, b, add_proxy_block(m), gtirb.Edge.Type.Return)
foo = add_symbol(m, "foo", add_proxy_block(m))
ctx = RewritingContext(m, [])
ctx.insert_at(b, 0, Patch.from_function(lambda ctx: "call foo", Constraints()))
ctx.apply()
print(bi.contents.hex(), bi.symbolic_expressions)
print({(k.element_id is bi, k.displacement):v for k,v in m.aux_data["symbolicExpressionSizes"].data.items()})
# Now with comment in second block
ir, m = create_test_module(gtirb.Module.FileFormat.ELF, gtirb.Module.ISA.X64)
s, bi = add_text_section(m, 0x1000)
a = add_code_block(bi, b"\x90\x90")
b = add_code_block(bi, b"\x90\xc3")
m.aux_data["comments"].data[gtirb.Offset(b,1)]="blk"
m.aux_data["comments"].data[gtirb.Offset(bi,3)]="bi"
ctx = RewritingContext(m, [])
ctx.apply()
print({(type(k.element_id).__name__, k.displacement):v for k,v in m.aux_data["comments"].data.items()})
