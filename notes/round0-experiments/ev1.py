# C15 prototype: reference CFI interpreter vs evaluate_cfi_directives over all histories up to depth N. throwaway
import itertools, collections, gtirb
import copy as copymod
from gtirb_test_helpers import *
from gtirb_rewriting._auxdata import NULL_UUID
from gtirb_rewriting.dwarf.cfi_eval import *
from gtirb_rewriting.dwarf.cfi import InstDefCFAExpression, InstExpression, InstValExpression, InstNop
from gtirb_rewriting.dwarf.expr import OpConst1U
ir,m=create_test_module(gtirb.Module.FileFormat.ELF,gtirb.Module.ISA.X64)
s,bi=add_text_section(m,0x1000)
B=[add_code_block(bi,b"\x90\x90\x90\x90") for _ in range(3)]
SYM=add_symbol(m,"pers",add_proxy_block(m))
E=[OpConst1U(42)]
D=[(".cfi_startproc",[]),(".cfi_endproc",[]),(".cfi_def_cfa",[7,8]),(".cfi_def_cfa_register",[6]),(".cfi_def_cfa_offset",[16]),(".cfi_adjust_cfa_offset",[8]),
   (".cfi_undefined",[3]),(".cfi_same_value",[3]),(".cfi_register",[3,6]),(".cfi_restore",[3]),(".cfi_val_offset",[3,-8]),(".cfi_offset",[3,-8]),(".cfi_rel_offset",[3,8]),
   (".cfi_remember_state",[]),(".cfi_restore_state",[]),
   tuple(InstDefCFAExpression(E).gtirb_encoding("little",8)[:2]), tuple(InstExpression(3,E).gtirb_encoding("little",8)[:2]), tuple(InstValExpression(3,E).gtirb_encoding("little",8)[:2]), tuple(InstNop().gtirb_encoding("little",8)[:2]),
   (".cfi_personality",[0],'sym'),(".cfi_personality",[0xff],'null'),(".cfi_personality",[0],'null'),(".cfi_lsda",[0x1b],'sym'),(".cfi_return_column",[5])]
EVENTS=[('d',i) for i in range(len(D))]+[('next',),('nextblock',)]
class Err(Exception): pass
def ref_eval(hist):
    """returns list of yields [(blockidx, off, snapshot)] or raises Err at a yield index"""
    # group into locations
    locs=[]; cur=[]; bidx=0; off=0
    for ev in hist:
        if ev[0]=='d': cur.append(D[ev[1]])
        else:
            if cur: locs.append((bidx,off,cur)); cur=[]
            if ev[0]=='next': off+=1
            else: bidx+=1; off=0
    if cur: locs.append((bidx,off,cur))
    out=[]; st=None
    for (b,o,ds) in locs:
        started=False
        for d in ds:
            name,args=d[0],d[1]; sy=d[2] if len(d)>2 else None
            if name==".cfi_startproc":
                if st is not None: raise Err(len(out))
                st=dict(rc=16,pers=None,lsda=None,cfa=None,regs={},init=dict(cfa=None,regs={}),stack=[]); started=True
            elif st is None: raise Err(len(out))
            elif name==".cfi_endproc": st=None
            elif name in (".cfi_personality",".cfi_lsda"):
                key='pers' if name.endswith("personality") else 'lsda'
                if args[0]==0xff: st[key]=None
                elif sy!='sym': raise Err(len(out))
                else: st[key]=(args[0],'sym')
            elif name==".cfi_return_column": st['rc']=args[0]
            elif name==".cfi_def_cfa": st['cfa']=('ro',args[0],args[1])
            elif name==".cfi_def_cfa_register":
                if not st['cfa'] or st['cfa'][0]!='ro': raise Err(len(out))
                st['cfa']=('ro',args[0],st['cfa'][2])
            elif name==".cfi_def_cfa_offset":
                if not st['cfa'] or st['cfa'][0]!='ro': raise Err(len(out))
                st['cfa']=('ro',st['cfa'][1],args[0])
            elif name==".cfi_adjust_cfa_offset":
                if not st['cfa'] or st['cfa'][0]!='ro': raise Err(len(out))
                st['cfa']=('ro',st['cfa'][1],st['cfa'][2]+args[0])
            elif name==".cfi_undefined": st['regs'][args[0]]=('undef',)
            elif name==".cfi_same_value": st['regs'][args[0]]=('same',)
            elif name==".cfi_register": st['regs'][args[0]]=('reg',args[1])
            elif name==".cfi_restore":
                if args[0] in st['init']['regs']: st['regs'][args[0]]=st['init']['regs'][args[0]]
                else: st['regs'].pop(args[0],None)
            elif name==".cfi_val_offset": st['regs'][args[0]]=('valoff',args[1])
            elif name==".cfi_offset": st['regs'][args[0]]=('off',args[1])
            elif name==".cfi_rel_offset":
                r=st['regs'].get(args[0])
                if not r or r[0]!='off': raise Err(len(out))
                st['regs'][args[0]]=('off',r[1]+args[1])
            elif name==".cfi_remember_state": st['stack'].append(dict(cfa=st['cfa'],regs=dict(st['regs'])))
            elif name==".cfi_restore_state":
                if not st['stack']: raise Err(len(out))
                t=st['stack'].pop(); st['cfa']=t['cfa']; st['regs']=t['regs']
            elif name==".cfi_escape":
                op=args[0]
                if op==0x0f: st['cfa']=('expr',)
                elif op==0x10: st['regs'][args[1]]=('atexpr',)
                elif op==0x16: st['regs'][args[1]]=('isexpr',)
                elif op==0x00: pass
                else: raise Exception("unsupported escape in alphabet")
        if st is not None and started: st['init']=dict(cfa=st['cfa'],regs=dict(st['regs']))
        out.append((b,o,copymod.deepcopy(st)))
    return out
def conv_rule(r):
    if isinstance(r,RegisterUndefined): return ('undef',)
    if isinstance(r,RegisterSameValue): return ('same',)
    if isinstance(r,RegisterInRegister): return ('reg',r.register)
    if isinstance(r,RegValOffset): return ('valoff',r.offset)
    if isinstance(r,RegisterOffset): return ('off',r.offset)
    if isinstance(r,RegisterAtExpression): return ('atexpr',)
    if isinstance(r,RegisterIsExpression): return ('isexpr',)
def conv_row(row): 
    c=row.cfa
    return dict(cfa=None if c is None else (('ro',c.register,c.offset) if isinstance(c,CFARegisterOffset) else ('expr',)), regs={k:conv_rule(v) for k,v in row.registers.items()})
def conv(st):
    if st is None: return None
    cur=conv_row(st.current)
    return dict(rc=st.return_column,pers=None if st.personality is None else (int(st.personality.encoding),'sym'),lsda=None if st.lsda is None else (int(st.lsda.encoding),'sym'),
                cfa=cur['cfa'],regs=cur['regs'],init=conv_row(st.initial),stack=[conv_row(r) for r in st.save_stack])
def real_eval(hist):
    t=m.aux_data["cfiDirectives"].data; t.clear()
    bidx=0; off=0
    for ev in hist:
        if ev[0]=='d':
            d=D[ev[1]]; sy=NULL_UUID
            if len(d)>2 and d[2]=='sym': sy=SYM
            t.setdefault(gtirb.Offset(B[bidx],off),[]).append((d[0],list(d[1]),sy))
        elif ev[0]=='next': off+=1
        else: bidx+=1; off=0
    out=[]; copies=[]
    try:
        for (b,o,st) in evaluate_cfi_directives(m,B):
            out.append((B.index(b),o,conv(st))); copies.append((copymod.copy(st),conv(st)))
    except (CFIStateError,ValueError) as e:
        return out,('ERR',len(out)),copies
    except Exception as e:
        return out,('BAD',type(e).__name__,len(out)),copies
    return out,None,copies
stats=collections.Counter(); ex={}; n=0
import sys
DEPTH=int(sys.argv[1]) if len(sys.argv)>1 else 3
for depth in range(1,DEPTH+1):
    for hist in itertools.product(EVENTS,repeat=depth):
        if hist[0][0]!='d' or hist[0][1]!=0:
            if depth>2: continue   # deeper histories must start with startproc (others are covered at depth<=2)
        if sum(1 for e in hist if e[0]=='nextblock')>2: continue
        n+=1
        try: exp=ref_eval(hist); experr=None
        except Err as e: experr=e.args[0]; exp=None
        out,err,copies=real_eval(hist)
        if err and err[0]=='BAD': stats[('other-exception',err[1])]+=1; ex.setdefault(('other-exception',err[1]),hist); continue
        if experr is not None:
            if not err: stats['missing-error']+=1; ex.setdefault('missing-error',hist)
            elif err[1]!=experr: stats['error-at-wrong-step']+=1; ex.setdefault('error-at-wrong-step',(hist,err,experr))
            continue
        if err: stats['unexpected-error']+=1; ex.setdefault('unexpected-error',(hist,err)); continue
        if out!=exp: stats['state-mismatch']+=1; ex.setdefault('state-mismatch',(hist,out,exp))
        for (c,snap) in copies:
            if conv(c)!=snap: stats['copy-not-independent']+=1; ex.setdefault('copy-not-independent',hist)
print("histories",n)
for k,v in stats.most_common(): print(v,k,"  e.g.",str(ex[k])[:500])
