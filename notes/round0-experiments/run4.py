# labels (incl. at_end) + function attribution under deletions/insertions; throwaway
from run1 import *
import model, collections, itertools
from gtirb_rewriting import _auxdata
def run_case2(blocks_spec, mods, atend=()):
    blocks = [Blk(*s) for s in blocks_spec]
    for b in blocks: b.entry_sym = b.entry
    ir, m, bi, gb, syms = build(blocks)
    for bn in atend:
        s_ = add_symbol(m, "E_"+bn, gb[bn]); s_.at_end = True
    funcs = gtirb_functions.Function.build_functions(m)
    ctx = RewritingContext(m, funcs)
    offs = lambda bn, k: sum(len(enc(i)[0]) for i in next(b for b in blocks if b.name == bn).insns[:k])
    for (mid, kind, bn, k, cnt, patch, proxy) in mods:
        blk = gb[bn]; ln = offs(bn, k + cnt) - offs(bn, k)
        if kind == 'ins': ctx.insert_at(blk, offs(bn, k), patch_obj(patch, mid))
        elif kind == 'del': ctx.delete_at(blk, offs(bn, k), ln, retarget_to_proxy=proxy)
    try: ctx.apply()
    except Exception as e: return [("EXC", type(e).__name__, str(e)[:60])]
    # model tokens with at_end labels
    toks = []
    for b in blocks:
        toks.append(('lab', b.name))
        if b.func and b.entry: toks.append(('lab', "F_"+b.func))
        for i, ins in enumerate(b.insns): toks.append(('ins', ins, ('orig', b.name, i), b.func, b.kind))
        if b.name in atend: toks.append(('lab', "E_"+b.name))
    bmap = {b.name: b for b in blocks}; order = {b.name: j for j, b in enumerate(blocks)}
    def find(bn,i):
        for p,t in enumerate(toks):
            if t[0]=='ins' and t[2]==('orig',bn,i): return p
    proxied=set()
    for (mid, kind, bn, k, cnt, patch, proxy) in sorted(mods, key=lambda q:(order[q[2]], q[3], q[0])):
        n=len(bmap[bn].insns)
        if kind=='ins':
            pt=[('ins',pi,('patch',mid,j), bmap[bn].func if bmap[bn].kind=='c' else None, 'c') for j,pi in enumerate(patch)]
            if k<n: p=find(bn,k)
            else:
                p=find(bn,n-1)+1
                while p<len(toks) and toks[p][0]=='ins' and toks[p][2][0]=='patch': p+=1
            toks[p:p]=pt
    for (mid, kind, bn, k, cnt, patch, proxy) in mods:
        if kind=='del':
            for i in range(k,k+cnt): del toks[find(bn,i)]
            if proxy: proxied.add(bn); proxied.add("E_"+bn); 
            if proxy and bmap[bn].func and bmap[bn].entry: proxied.add("F_"+bmap[bn].func)
    pos=0; labpos={}; tagfunc={}; 
    for t in toks:
        if t[0]=='lab': labpos[t[1]]=pos
        else:
            pos+=len(enc(t[1])[0])
            if t[1][0] in ('o','p') and t[4]=='c': tagfunc[(t[1][0],t[1][1])]=t[3]
    diffs=[]
    base=0x1000
    if bytes(bi.contents)!=b"".join(enc(t[1])[0] for t in toks if t[0]=='ins'): diffs.append(("bytes",))
    for s_ in m.symbols:
        if s_.name not in labpos: continue
        r=s_.referent
        if s_.name in proxied:
            if not isinstance(r, gtirb.ProxyBlock): diffs.append(("label-not-proxy", s_.name))
            continue
        if not isinstance(r, gtirb.ByteBlock) or r.module is not m: diffs.append(("label-dangling", s_.name, type(r).__name__)); continue
        o = r.address-base+(r.size if s_.at_end else 0)
        if o!=labpos[s_.name]: diffs.append(("label", s_.name, labpos[s_.name], o, s_.at_end))
    # functions
    fb=m.aux_data["functionBlocks"].data; fe=m.aux_data["functionEntries"].data; fn=m.aux_data["functionNames"].data
    if set(fb)!=set(fe): diffs.append(("func-keyset", sorted(map(str,set(fb)^set(fe)))))
    if set(fn)-set(fb): diffs.append(("func-names-extra",))
    seen={}
    obs_tagfunc={}
    for u,bs in fb.items():
        if not bs: diffs.append(("func-empty-blocks",))
        if not fe.get(u,set())<=bs: diffs.append(("entries-not-subset",))
        nm = fn[u].name[2:] if u in fn else '?'
        for b in bs:
            if b.module is not m: diffs.append(("func-dangling-block",)); continue
            if not isinstance(b, gtirb.CodeBlock): diffs.append(("func-data-block",))
            if b in seen: diffs.append(("block-in-two-funcs",))
            seen[b]=nm
            c=b.contents; i=0
            while i<len(c):
                if c[i]==0xb0: obs_tagfunc[('o',c[i+1])]=nm; i+=2
                elif c[i]==0xb3: obs_tagfunc[('p',c[i+1])]=nm; i+=2
                elif c[i] in (0xeb,0x74): i+=2
                elif c[i]==0xe8: i+=5
                elif c[i]==0xc3: i+=1
                elif c[i]==0xff: i+=2
                else: i+=1
    for tg,f in tagfunc.items():
        if obs_tagfunc.get(tg)!=f: diffs.append(("tagfunc", tg, f, obs_tagfunc.get(tg)))
    return diffs
if __name__=="__main__":
    stats=collections.Counter(); ex={}; n=0
    P=[[('p',1)],[('jcc','C')]]
    for funcs in (("f","f","f","f"),("f","g","g","h"),("f","f","g","g"),(None,"f","f",None)):
      for kinds in (('c','c','c','c'),('c','d','c','c'),('c','c','d','c'),('c','c','c','d'),('d','c','c','c')):
       for atend in ((),("A",),("B",),("D",),("B","C")):
        spec=[]
        for j,(nm,kd,fu) in enumerate(zip("ABCD",kinds,funcs)):
            ent = kd=='c' and fu is not None and (j==0 or funcs[j-1]!=fu or kinds[j-1]=='d' and all(funcs[q]!=fu or kinds[q]=='d' for q in range(j)))
            # entry = first code block of its function
            ent = kd=='c' and fu is not None and not any(funcs[q]==fu and kinds[q]=='c' for q in range(j))
            insns = [('o',10*(j+1)),('o',10*(j+1)+1)] if kd=='c' else [('d',j+1),('d',j+0x11)]
            if kd=='c' and j==3: insns=[('o',40),('ret',)]
            spec.append((nm,kd,insns,fu if kd=='c' else None,ent))
        atoms=[]
        for bn in "ABCD":
            kd=kinds["ABCD".index(bn)]
            atoms.append(('del',bn,0,2,None,False)); atoms.append(('del',bn,0,1,None,False)); atoms.append(('del',bn,1,1,None,False))
            atoms.append(('del',bn,0,2,None,True))
            for k in (0,1,2):
                atoms.append(('ins',bn,k,0,P[0],False))
                if kd=='c': atoms.append(('ins',bn,k,0,P[1],False))
        for r in (1,2):
          for combo in itertools.combinations(atoms,r):
            bad=False
            for a,b in itertools.combinations(combo,2):
                if a[1]==b[1]:
                    if a[0]=='del' and b[0]=='del' and a[2]<b[2]+b[3] and b[2]<a[2]+a[3]: bad=True
                    if a[0]=='ins' and b[0]=='del' and (b[2]<a[2]<b[2]+b[3] or b[5] or (b[3]==2 and a[2]==2)): bad=True
                    if b[0]=='ins' and a[0]=='del' and (a[2]<b[2]<a[2]+a[3] or a[5] or (a[3]==2 and b[2]==2)): bad=True
            if bad: continue
            if r==2 and not any(c[0]=='del' and c[3]==2 for c in combo): continue   # keep pairs that include a whole-block deletion
            mods=[(i+1,)+c for i,c in enumerate(combo)]
            n+=1
            try: d=run_case2(spec,mods,atend)
            except Exception as e:
                import traceback; traceback.print_exc(); print(spec,mods,atend); raise
            for x in d:
                k=x[:3] if x[0]=='EXC' else x[0]
                stats[k]+=1; ex.setdefault(k,(spec,mods,atend,x))
    print("cases",n)
    for k,v in stats.most_common(): print(v,k); print("    e.g.",str(ex[k])[:900])
