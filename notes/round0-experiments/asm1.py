# Throwaway: explore Assembler structural invariants on short token sequences (x86-64 ELF)
import itertools, collections, capstone, gtirb
from gtirb_test_helpers import *
from gtirb_rewriting.assembler import Assembler
CS = capstone.Cs(capstone.CS_ARCH_X86, capstone.CS_MODE_64); CS.detail=True
TOK = {
 'ord': ("movb $7, %al", 'ins'), 'jmp': ("jmp %s", 'cti'), 'jcc': ("je %s", 'cti'), 'call': ("call %s", 'cti'), 'ret': ("ret", 'cti'),
 'ijmp': ("jmp *%rax", 'cti'), 'icall': ("call *%rax", 'cti'), 'labA': ("A:", 'lab'), 'labL': (".Lb:", 'lab'), 'byte': (".byte 1", 'data'),
 'quad': (".quad ext", 'data'), 'str': ('.string "hi"', 'data'), 'zero': (".zero 2", 'data'), 'align': (".align 4", 'dir'), 'uleb': (".uleb128 5", 'data'),
}
TARGETS = ['A', '.Lb', 'ext', 'mcode']
def mk():
    ir, m = create_test_module(gtirb.Module.FileFormat.ELF, gtirb.Module.ISA.X64)
    s, bi = add_text_section(m, 0x1000)
    cb = add_code_block(bi, b"\x90"); add_symbol(m, "mcode", cb)
    add_symbol(m, "ext", add_proxy_block(m))
    return m
stats = collections.Counter(); ex = {}
def note(k, seq, extra=None):
    stats[k]+=1; ex.setdefault(k, (seq, extra))
names = list(TOK)
seqs = []
for L in (1,2,3):
    for seq in itertools.product(names, repeat=L):
        if seq.count('labA')>1 or seq.count('labL')>1: continue
        seqs.append(seq)
n=0
for tu in (False, True):
  for seq in seqs:
    # choose targets: for each cti needing a target, iterate targets that are defined or module syms
    slots = [i for i,t in enumerate(seq) if t in ('jmp','jcc','call')]
    avail = ['ext','mcode'] + (['A'] if 'labA' in seq else []) + (['.Lb'] if 'labL' in seq else [])
    for tg in itertools.product(avail, repeat=len(slots)):
        lines=[]; ti=0
        for t in seq:
            text = TOK[t][0]
            if '%s' in text: text = text % tg[ti]; ti+=1
            lines.append(text)
        m = mk()
        a = Assembler(m, trivially_unreachable=tu)
        n+=1
        try:
            a.assemble("\n".join(lines)+"\n"); r = a.finalize()
        except Exception as e:
            note(('EXC', type(e).__name__, str(e)[:50]), lines); continue
        sec = r.text_section
        # tiling
        off=0; ok=True
        for i,b in enumerate(sec.blocks):
            if b.offset!=off: note('tiling-gap', lines, [(x.offset,x.size) for x in sec.blocks]); ok=False; break
            if b.size==0 and i!=len(sec.blocks)-1: note('empty-nonlast', lines, [(x.offset,x.size) for x in sec.blocks]); 
            off+=b.size
        if ok and off!=len(sec.data): note('tiling-short', lines)
        # cti last in block
        for b in sec.blocks:
            if isinstance(b, gtirb.CodeBlock) and b.size:
                ins = list(CS.disasm(sec.data[b.offset:b.offset+b.size], b.offset))
                dec = sum(i.size for i in ins)
                for i in ins[:-1]:
                    if i.group(capstone.CS_GRP_JUMP) or i.group(capstone.CS_GRP_CALL) or i.group(capstone.CS_GRP_RET): note('buried-cti', lines)
                if ins and dec==b.size:
                    last=ins[-1]; out=list(r.cfg.out_edges(b)); types=sorted(e.label.type.name for e in out)
                    if last.group(capstone.CS_GRP_RET):
                        if types!=['Return']: note(('ret-edges',tuple(types)), lines)
                    elif last.group(capstone.CS_GRP_CALL):
                        if types!=['Call','Fallthrough']: note(('call-edges',tuple(types)), lines)
                    elif last.group(capstone.CS_GRP_JUMP):
                        exp = ['Branch'] if last.mnemonic=='jmp' else ['Branch','Fallthrough']
                        if types!=exp: note(('jmp-edges',last.mnemonic,tuple(types)), lines)
                    else:
                        if types not in (['Fallthrough'],[]): note(('ord-edges',tuple(types)), lines)
                        if types==[] and b is not sec.blocks[-1]: note(('ord-no-fallthrough-nonlast', type(sec.blocks[sec.blocks.index(b)+1]).__name__), lines)
            # fallthrough targets must be the next block
            for e in r.cfg.out_edges(b):
                if e.label.type.name=='Fallthrough':
                    idx = sec.blocks.index(b)
                    if idx+1>=len(sec.blocks) or sec.blocks[idx+1] is not e.target: note('fallthrough-not-next', lines)
        for e in r.cfg:
            for nd in (e.source, e.target):
                if isinstance(nd,(gtirb.CodeBlock,gtirb.DataBlock)) and nd not in sec.blocks and nd.module is None: note('edge-to-unknown-block', lines, e.label.type.name)
                if isinstance(nd, gtirb.DataBlock): note('edge-touching-data', lines)
        for sym in r.symbols:
            rf = sym.referent
            if isinstance(rf, gtirb.ByteBlock) and rf not in sec.blocks: note('symbol-to-unknown-block', lines, sym.name)
print("assemblies", n)
for k,v in stats.most_common(): print(v,k,'   e.g.',ex[k])
