# C10 prototype: split_byte_interval / join_byte_intervals round trip on all small layouts. throwaway
import itertools, collections, gtirb
from gtirb_rewriting.intervalutils import split_byte_interval, join_byte_intervals, PaddingError
from gtirb_rewriting._adt import OffsetMapping
stats=collections.Counter(); ex={}; n=0
SIZE=5
pairs=[(o,s) for o in range(SIZE+1) for s in range(SIZE+1-o)]
def snap(bis):
    out=[]
    for bi in bis:
        for b in bi.blocks:
            a=bi.address+b.offset
            out.append((a,b.size,type(b).__name__, bytes(bi.contents[b.offset:b.offset+b.size]), id(b)))
    return sorted(out)
for nb in (1,2,3):
  for blks in itertools.combinations(pairs,nb):
    for init in (SIZE, 3, 0):
      for annoff in (None,0,2,4):
        for kinds in (('c',)*nb, ('d',)*nb) if nb<3 else (('c','d','c'),):
            n+=1
            bi=gtirb.ByteInterval(address=0x1000,size=SIZE,contents=bytes(range(0x10,0x10+init)),initialized_size=init)
            bl=[]
            for (o,s),k in zip(blks,kinds):
                b=(gtirb.CodeBlock if k=='c' else gtirb.DataBlock)(offset=o,size=s); b.byte_interval=bi; bl.append(b)
            tbl=OffsetMapping()
            if annoff is not None:
                bi.symbolic_expressions[annoff]=gtirb.SymAddrConst(0,gtirb.Symbol("x"))
                tbl[gtirb.Offset(bi,annoff)]="c"
            before=snap([bi]); before_bytes=bytes(bi.contents); 
            try:
                parts=split_byte_interval(bi,None,[tbl])
            except Exception as e:
                stats[('split-exc',type(e).__name__)]+=1; ex.setdefault(('split-exc',type(e).__name__),(blks,init,annoff)); continue
            after=snap(parts)
            if [x[:2]+x[2:3]+x[4:] for x in before]!=[x[:2]+x[2:3]+x[4:] for x in after]: stats['split-moved-block']+=1; ex.setdefault('split-moved-block',(blks,init,annoff,before,after))
            if [x[3] for x in before]!=[x[3] for x in after]: stats['split-changed-bytes']+=1; ex.setdefault('split-changed-bytes',(blks,init,annoff,before,after))
            # groups: blocks in the same part must overlap-chain
            # annotations by absolute address
            if annoff is not None:
                sx=[p.address+o for p in parts for o in p.symbolic_expressions]
                tb=[k.element_id.address+k.displacement for k in tbl]
                if sx!=[0x1000+annoff]: stats['split-symexpr-moved']+=1; ex.setdefault('split-symexpr-moved',(blks,init,annoff,sx))
                if tb!=[0x1000+annoff]: stats['split-table-moved']+=1; ex.setdefault('split-table-moved',(blks,init,annoff,tb))
            # total size conservation
            if sum(p.size for p in parts)!=SIZE: stats['split-size']+=1; ex.setdefault('split-size',(blks,init,annoff,[ (p.address,p.size) for p in parts]))
            try:
                j=join_byte_intervals(parts, b"\x90", {}, [tbl])
            except PaddingError as e:
                stats['join-paddingerror']+=1; ex.setdefault('join-paddingerror',(blks,init,annoff)); continue
            except Exception as e:
                stats[('join-exc',type(e).__name__,str(e)[:40])]+=1; ex.setdefault(('join-exc',type(e).__name__,str(e)[:40]),(blks,init,annoff)); continue
            if j is not bi: stats['join-not-dest']+=1
            if init==SIZE:
                if bytes(bi.contents)!=before_bytes or bi.size!=SIZE: stats['join-bytes-differ']+=1; ex.setdefault('join-bytes-differ',(blks,init,annoff,bytes(bi.contents)))
                a2=snap([bi])
                if [x[:3]+x[4:] for x in a2]!=[x[:3]+x[4:] for x in before]: stats['join-blocks-differ']+=1; ex.setdefault('join-blocks-differ',(blks,init,annoff,before,a2))
                if annoff is not None and (list(bi.symbolic_expressions)!=[annoff] or [k.displacement for k in tbl if k.element_id is bi]!=[annoff]): stats['join-ann-differ']+=1; ex.setdefault('join-ann-differ',(blks,init,annoff,list(bi.symbolic_expressions),[(k.element_id is bi,k.displacement) for k in tbl]))
            else:
                if bi.size!=SIZE: stats['join-size-uninit']+=1; ex.setdefault('join-size-uninit',(blks,init,annoff,bi.size,len(bi.contents)))
print("cases",n)
for k,v in stats.most_common(): print(v,k,"   e.g.",str(ex.get(k))[:400])
