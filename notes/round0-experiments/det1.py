# C11 feasibility: permute gtirb iteration orders globally (reverse) and compare canonical outputs. throwaway
from run1 import *
import gtirb, collections, itertools
orig_out=gtirb.CFG.out_edges; orig_in=gtirb.CFG.in_edges; orig_iter=gtirb.CFG.__iter__
orig_refs=gtirb.block.Block.references
MODE={'rev':False}
def key(e): return (str(getattr(e.source,'uuid','')),str(getattr(e.target,'uuid','')),str(e.label))
def wrap(f):
    def g(self,*a):
        l=list(f(self,*a))
        if MODE['rev']: l.reverse()
        return iter(l)
    return g
gtirb.CFG.out_edges=wrap(orig_out); gtirb.CFG.in_edges=wrap(orig_in); gtirb.CFG.__iter__=wrap(orig_iter)
gtirb.block.Block.references=property(lambda self: iter(list(orig_refs.fget(self))[::-1] if MODE['rev'] else list(orig_refs.fget(self))))
def canon(spec,mods):
    blocks=[Blk(*s) for s in spec]
    for b in blocks: b.entry_sym=b.entry
    ir,m,bi,gb,syms=build(blocks)
    ctx=RewritingContext(m,gtirb_functions.Function.build_functions(m))
    offs=lambda bn,k: sum(len(enc(i)[0]) for i in next(b for b in blocks if b.name==bn).insns[:k])
    for (mid,kind,bn,k,cnt,patch,proxy) in mods:
        ln=offs(bn,k+cnt)-offs(bn,k)
        if kind=='ins': ctx.insert_at(gb[bn],offs(bn,k),patch_obj(patch,mid))
        else: ctx.delete_at(gb[bn],offs(bn,k),ln,retarget_to_proxy=proxy)
    try: ctx.apply()
    except Exception as e: return ('EXC',type(e).__name__)
    def nd(x): return x.address if isinstance(x,gtirb.CodeBlock) else 'proxy'
    return (bytes(bi.contents), tuple(sorted((b.address,b.size,type(b).__name__) for b in m.byte_blocks)),
            tuple(sorted((nd(e.source),str(nd(e.target)),e.label.type.name,e.label.conditional,e.label.direct) for e in orig_iter(ir.cfg))),
            tuple(sorted((s.name,str(nd(s.referent)) if s.referent is not None else None,s.at_end) for s in m.symbols)),
            tuple(sorted((fn.name,tuple(sorted(b.address for b in m.aux_data["functionBlocks"].data[u])),tuple(sorted(b.address for b in m.aux_data["functionEntries"].data[u]))) for u,fn in m.aux_data["functionNames"].data.items())))
TERMS=[None,('jcc','C'),('call','A'),('ret',)]
PATCHES=[[('p',1)],[('jcc','A')],[('call','A')],[('ret',)],[('lab','.Lq'),('p',2),('jcc','.Lq')]]
n=0; diffs=collections.Counter(); ex={}
for tB in TERMS:
  for funcs in (("f","f","f"),("f","g","g")):
    spec=[("A",'c',[('o',10),('call','C')],funcs[0],True),("B",'c',[('o',20)]+([tB] if tB else [('o',21)]),funcs[1],funcs[1]!=funcs[0]),("C",'c',[('o',30),('ret',)],funcs[2],funcs[2]!=funcs[1])]
    atoms=[]
    for bn in "ABC":
        for k in (0,1,2):
            for p in PATCHES: atoms.append(('ins',bn,k,0,p,False))
        atoms.append(('del',bn,0,2,None,False)); atoms.append(('del',bn,0,1,None,False)); atoms.append(('del',bn,1,1,None,False)); atoms.append(('del',bn,0,2,None,True))
    for r in (1,2):
        for combo in itertools.combinations(atoms,r):
            if r==2:
                a,b=combo
                if a[1]==b[1] and (a[0]=='del' or b[0]=='del'): continue
            mods=[(i+1,)+c for i,c in enumerate(combo)]
            n+=1
            MODE['rev']=False; c0=canon(spec,mods)
            MODE['rev']=True; c1=canon(spec,mods)
            if c0!=c1:
                k=tuple(i for i,(x,y) in enumerate(zip(c0,c1)) if x!=y) if c0[0]!='EXC' and c1[0]!='EXC' else ('exc',c0[:2],c1[:2])
                diffs[k]+=1; ex.setdefault(k,(spec,mods,c0,c1))
print("cases",n)
for k,v in diffs.most_common(): print(v,k,str(ex[k])[:1200])
