import gtirb, gtirb_rewriting, gtirb_functions
from gtirb_test_helpers import *
from gtirb_rewriting import *
from gtirb_rewriting._auxdata import NULL_UUID
def dump(m):
    t = m.aux_data["cfiDirectives"].data
    out=[]
    for k,v in t.items():
        out.append((k.element_id.address, k.displacement, [(d[0],d[1]) for d in v]))
    return sorted(out)
for off in (0,1,2):
    ir, m = create_test_module(gtirb.Module.FileFormat.ELF, gtirb.Module.ISA.X64)
    s, bi = add_text_section(m, 0x1000)
    a = add_code_block(bi, b"\x50\xc3")  # push rax; ret
    add_edge(ir.cfg, a, add_proxy_block(m), gtirb.Edge.Type.Return)
    b = add_code_block(bi, b"\x90\xc3")
    add_edge(ir.cfg, b, add_proxy_block(m), gtirb.Edge.Type.Return)
    add_function(m, "f", a); add_function(m, "g", b)
    m.aux_data["cfiDirectives"].data[gtirb.Offset(a,0)] = [(".cfi_startproc",[],NULL_UUID),(".cfi_def_cfa",[7,8],NULL_UUID)]
    m.aux_data["cfiDirectives"].data[gtirb.Offset(a,1)] = [(".cfi_def_cfa_offset",[16],NULL_UUID)]
    m.aux_data["cfiDirectives"].data[gtirb.Offset(a,2)] = [(".cfi_endproc",[],NULL_UUID)]
    fs = gtirb_functions.Function.build_functions(m)
    ctx = RewritingContext(m, fs)
    ctx.insert_at(a, off, Patch.from_function(lambda ctx: "pushq %rbx\n.cfi_adjust_cfa_offset 8\npopq %rbx\n.cfi_adjust_cfa_offset -8\n", Constraints()))
    ctx.apply()
    print(off, bi.contents.hex()); 
    for r in dump(m): print("   ", r)
