# C05 prototype: exception injected into k-th patch callback; closure + serializability after failure. throwaway
from run1 import *
import io, itertools, collections
class Boom(Exception): pass
stats=collections.Counter(); ex={}; n=0
def walk_nodes(x, out):
    if isinstance(x, gtirb.Node): out.append(x)
    elif isinstance(x, gtirb.Offset): 
        if isinstance(x.element_id, gtirb.Node): out.append(x.element_id)
    elif isinstance(x, dict):
        for k,v in x.items(): walk_nodes(k,out); walk_nodes(v,out)
    elif isinstance(x,(list,tuple,set,frozenset)):
        for v in x: walk_nodes(v,out)
    elif hasattr(x,'items') and not isinstance(x,(str,bytes)):
        try:
            for k,v in x.items(): walk_nodes(k,out); walk_nodes(v,out)
        except Exception: pass
def validate(ir,m):
    probs=[]
    for e in ir.cfg:
        for nd in (e.source,e.target):
            if nd.module is not m: probs.append(("cfg-endpoint-outside",type(nd).__name__,e.label.type.name))
    for s_ in m.symbols:
        r=s_.referent
        if r is None and s_.value is None: probs.append(("symbol-no-referent",s_.name))
        elif r is not None and r.module is not m: probs.append(("symbol-referent-outside",s_.name))
    for bi in m.byte_intervals:
        for o,x in bi.symbolic_expressions.items():
            for sy in x.symbols:
                if sy.module is not m: probs.append(("symexpr-symbol-outside",))
        for b in bi.blocks:
            if b.offset<0 or b.offset+b.size>bi.size: probs.append(("block-outside-interval",))
    for name,t in m.aux_data.items():
        out=[]; walk_nodes(t.data,out)
        for nd in out:
            mod = nd.module if hasattr(nd,'module') else None
            if mod is not m: probs.append(("auxdata-dangling",name,type(nd).__name__))
    try:
        f=io.BytesIO(); ir.save_protobuf_file(f); f.seek(0); gtirb.IR.load_protobuf_file(f)
    except Exception as e: probs.append(("serialize",type(e).__name__,str(e)[:60]))
    return probs
TERMS=[None,('jcc','C'),('call','A'),('ret',)]
PATCHES=[[('p',1)],[('jcc','A')],[('call','A')],[('lab','.Lq'),('p',2),('jcc','.Lq')]]
for tB in TERMS:
    spec=[("A",'c',[('o',10),('call','C')],"f",True),("B",'c',[('o',20)]+([tB] if tB else [('o',21)]),"f",False),("C",'c',[('o',30),('ret',)],"g",True)]
    atoms=[]
    for bn in "ABC":
        for k in (0,1,2):
            for p in PATCHES: atoms.append(('ins',bn,k,0,p,False))
        atoms.append(('del',bn,0,2,None,False)); atoms.append(('del',bn,0,1,None,False)); atoms.append(('del',bn,0,2,None,True))
    for combo in itertools.combinations(atoms,2):
        a,b=combo
        if a[1]==b[1] and (a[0]=='del' or b[0]=='del'): continue
        npatch=sum(1 for c in combo if c[0]=='ins')
        for fault in range(0,npatch+1):   # 0 = no fault
            blocks=[Blk(*s) for s in spec]
            for b_ in blocks: b_.entry_sym=b_.entry
            ir,m,bi,gb,syms=build(blocks)
            orig_cfg=ir.cfg
            had_ref={s_.name for s_ in m.symbols if s_.referent is not None}
            ctx=RewritingContext(m,gtirb_functions.Function.build_functions(m))
            offs=lambda bn,k: sum(len(enc(i)[0]) for i in next(x for x in blocks if x.name==bn).insns[:k])
            cnt=[0]
            def mkpatch(p):
                text="\n".join(asm_text(i) for i in p)
                def f(c):
                    cnt[0]+=1
                    if cnt[0]==fault: raise Boom()
                    return text
                return Patch.from_function(f,Constraints())
            for (kind,bn,k,c_,patch,proxy) in combo:
                ln=offs(bn,k+c_)-offs(bn,k)
                if kind=='ins': ctx.insert_at(gb[bn],offs(bn,k),mkpatch(patch))
                else: ctx.delete_at(gb[bn],offs(bn,k),ln,retarget_to_proxy=proxy)
            n+=1
            try: ctx.apply(); failed=None
            except Boom: failed='boom'
            except Exception as e: failed=type(e).__name__
            if fault and failed!='boom': stats[('fault-not-propagated',failed)]+=1; ex.setdefault(('fault-not-propagated',failed),(spec,combo,fault))
            if ir.cfg is not orig_cfg: stats['cfg-object-replaced']+=1; ex.setdefault('cfg-object-replaced',(spec,combo,fault))
            for pr in validate(ir,m):
                k=(('after-fault' if failed else 'success'),)+pr[:2]
                stats[k]+=1; ex.setdefault(k,(spec,combo,fault,pr))
print("runs",n)
for k,v in stats.most_common(): print(v,k,"  e.g.",str(ex[k])[:500])
