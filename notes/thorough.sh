#!/bin/bash
# runs inside a vp run snapshot: thorough tiers against a snapshot of /repo HEAD
cp /repo/src/gtirb_rewriting/version.py $VP_RUN_REPO/src/gtirb_rewriting/version.py 2>/dev/null
export PYTHONPATH=$VP_RUN_REPO/src
export VERIF_ALLOW_TREE=$VP_RUN_REPO/src
for p in "$@"; do
  echo "=== $p $(date)"
  VERIF_CAP_S=${CAP:-1500} VERIF_JOBS=${JOBS:-8} /venv/bin/python -m vf.check $p --tier thorough 2>&1 | grep -E "^C[0-9]+ tier|KNOWN|VIOLATION|HARNESS|UNSTABLE|diff:|case:" | cut -c1-600 | head -60
done
echo DONE
